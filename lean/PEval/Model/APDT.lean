import PEval.Model.AP
import PEval.Model.ClearDT
/-!
Decision tables and expression normal forms of the AP / mAP kernels (property C04): the vocabulary shared by the
GENERATED tables (`PEval/Gen/APTables.lean`, extracted from the real code by `harness/dt_c04.py` on every check run)
and the hand-written skeletons of the model `PEval/Model/AP.lean`.

Reused from `PEval/Model/ClearDT.lean` (imported, not copied): `Atom`, `Val`, `DTree α`, `DTree.eval`, `askB`,
the agreement check `agree` / `tableOk` with its soundness `table_eq_model` (`PEval/Lemmas/ClearDT.lean`).

* numbers are polynomial NORMAL FORMS `NF` (sorted list of monomials with integer exponents over named variables,
  coefficient = reduced fraction); `evalNF` reads one at an assignment of the variables;
* order relations are not atoms of the trees: every table row is keyed by a rank PATTERN (a list of naturals standing
  for a weak ordering: of the confidences in (a), of the precisions in (b)), the rows enumerate all patterns, so only
  consistent orderings occur;
* (a) `tpfpSk pat G` — `Ap.__init__` up to `tp_list` / `fp_list`: the model's own `sortDesc` on the pattern gives the
  ranking, each result is classified over the atoms hasGt / inTargets / isTp (the loop body of `_calculate_tp_fp`),
  the lists are the running sums of the TP weights `w j` / of the FP flags;
* (b) `prModel`, `interpModel`, `areaModel` — `get_precision_recall_list`, `interpolate_precision_recall_list`,
  `_calculate_ap` on symbolic lists (`scanIdx` is `AP.scan` on indices);
* (c) `mapSk shape` — `Map.__init__`: one `Ap` and (3-D) one APH `Ap` per target label, in target order, each from the
  dict entries and the threshold OF THAT LABEL; mAP / mAPH = mean over the labels whose bucket is not empty.
-/

namespace PEval.APDT
open PEval.AP PEval.ClearDT

/-! ### polynomial normal forms -/

abbrev Var := String × Nat
abbrev Mono := List (Var × Int)
/-- numerator, denominator -/
abbrev Coef := Int × Nat
abbrev NF := List (Mono × Coef)

/-- a pair of lists of numbers (precisions, recalls) -/
structure NF2 where
  a : List NF
  b : List NF
deriving DecidableEq, Repr

def npow (x : Rat) : Nat → Rat
  | 0 => 1
  | n + 1 => x * npow x n

def evalMono (env : Var → Rat) : Mono → Rat
  | [] => 1
  | (v, e) :: r => (if 0 ≤ e then npow (env v) e.toNat else npow (1 / env v) (-e).toNat) * evalMono env r

def evalNF (env : Var → Rat) : NF → Rat
  | [] => 0
  | (m, c) :: r => ((c.1 : Rat) / (c.2 : Rat)) * evalMono env m + evalNF env r

/-! ### rank patterns -/

/-- all lists of length `k` over `0 … n-1`, in lexicographic order (Python's `itertools.product`) -/
def allLists (n : Nat) : Nat → List (List Nat)
  | 0 => [[]]
  | k + 1 => (List.range n).flatMap fun x => (allLists n k).map (x :: ·)

/-- rank of every entry = number of entries strictly below it -/
def countRank (p : List Nat) : List Nat := p.map fun x => p.countP (· < x)

/-- the weak orderings of `n` items (1, 1, 3, 13 for n = 0..3) -/
def countPatterns (n : Nat) : List (List Nat) := (allLists n n).filter fun p => p == countRank p

/-! ### (a) `Ap.__init__`: ranking, `_calculate_tp_fp` -/

structure TpFp where
  tp : List NF
  fp : List NF
  /-- `ap` is not `float("inf")` -/
  defined : Bool
deriving DecidableEq, Repr

/-- what the loop body of `_calculate_tp_fp` books for one result -/
inductive K where
  | tp (j : Nat)
  | fp
  | ign
deriving DecidableEq, Repr

/-- one result `j` (input position): the threshold is looked up with the ground truth's label iff there is a ground truth;
no threshold: ignored; else TP with weight `w j` or FP -/
def kindSk {α : Type} (j : Nat) (k : K → DTree α) : DTree α :=
  askB (.hasGt (.cur j)) fun g => askB (.inTargets j g) fun inT => if !inT then k .ign else
  askB (.isTp (.cur j) j g) fun tp => k (if tp then .tp j else .fp)

def kindAtoms (v : Val) (j : Nat) : K :=
  if !v.b (.inTargets j (v.b (.hasGt (.cur j)))) then .ign
  else if v.b (.isTp (.cur j) j (v.b (.hasGt (.cur j)))) then .tp j else .fp

def kindsSk {α : Type} : List Nat → (List K → DTree α) → DTree α
  | [], k => k []
  | j :: js, k => kindSk j fun x => kindsSk js fun xs => k (x :: xs)

/-- the ranking: the MODEL's stable descending sort, run on the input positions with the pattern as keys -/
def sortIdx (pat : List Nat) : List Nat := sortDesc (fun j => ((pat.getD j 0 : Nat) : Rat)) (List.range pat.length)

def wTerm (j : Nat) : Mono × Coef := ([(("w", j), 1)], (1, 1))

def insW (j : Nat) : List Nat → List Nat
  | [] => [j]
  | x :: xs => if j ≤ x then j :: x :: xs else x :: insW j xs

def natNF (c : Nat) : NF := if c = 0 then [] else [([], ((c : Int), 1))]

/-- running sums along the ranking: the TP results so far (sorted), the number of FPs so far -/
def prefixes (acc : List Nat) (c : Nat) : List K → List NF × List NF
  | [] => ([], [])
  | k :: ks =>
    let acc' := match k with
      | .tp j => insW j acc
      | _ => acc
    let c' := match k with
      | .fp => c + 1
      | _ => c
    ((acc'.map wTerm) :: (prefixes acc' c' ks).1, natNF c' :: (prefixes acc' c' ks).2)

/-- `tp_list`, `fp_list`, "ap defined" from the kinds in ranking order (incl. the no-result special case of `_calculate_tp_fp`) -/
def leafOfKinds (G : Nat) (ks : List K) : TpFp :=
  if ks.isEmpty then
    if G = 0 then ⟨[], [], false⟩ else ⟨List.replicate G [], (List.range G).map (fun i => natNF (i + 1)), false⟩
  else ⟨(prefixes [] 0 ks).1, (prefixes [] 0 ks).2, true⟩

def tpfpSk (pat : List Nat) (G : Nat) : DTree (Except String TpFp) :=
  kindsSk (sortIdx pat) fun ks => .leaf (.ok (leafOfKinds G ks))

def tpfpAtoms (pat : List Nat) (G : Nat) (v : Val) : TpFp := leafOfKinds G ((sortIdx pat).map (kindAtoms v))

/-- the shapes the translator tabulates: no result with 0 / 2 ground truths, every weak ordering of 1..3 confidences -/
def tpfpShapes : List (List Nat × Nat) :=
  [([], 0), ([], 2)] ++ (countPatterns 1 ++ countPatterns 2 ++ countPatterns 3).map fun p => (p, 1)

/-! #### relational agreement: what the C04 text leaves open in (a)

The text ranks "by descending confidence" and fixes NO order among equal confidences; it speaks of "labels whose AP is
defined" (the AP of an empty ranking: undefined or 0, and its `tp_list` / `fp_list` are no running sums over a ranking);
a result that is neither TP nor FP ("ignored": no threshold for its label) adds nothing to `tp_list`, whether `fp_list`
counts it is not stated (AP does not read `fp_list`).  The per-run obligation therefore is not "code leaf = model leaf" but
"the code leaf is ADMITTED by the model's kinds" (`tpfpAdmits`), exactly what the Python oracle `_cmp_ap` /
`_same_group` of harness/props/c04.py admits.  The check reuses `agree` and its soundness: `relTree rel code model` is
the tree asking the code's atoms, then the model's, with leaf `rel c m`; it must agree with `.leaf true`. -/

def mapTree {β γ : Type} (f : β → γ) : DTree β → DTree γ
  | .leaf r => .leaf (f r)
  | .ite a f' t => .ite a (mapTree f f') (mapTree f t)
  | .cmp a l e g => .cmp a (mapTree f l) (mapTree f e) (mapTree f g)

def relTree {α β : Type} (rel : α → β → Bool) : DTree α → DTree β → DTree Bool
  | .leaf c, m => mapTree (rel c) m
  | .ite a f t, m => .ite a (relTree rel f m) (relTree rel t m)
  | .cmp a l e g, m => .cmp a (relTree rel l m) (relTree rel e m) (relTree rel g m)

def insertAll {α : Type} (x : α) : List α → List (List α)
  | [] => [[x]]
  | y :: ys => (x :: y :: ys) :: (insertAll x ys).map (y :: ·)

/-- all rearrangements of a list, the identity first -/
def perms {α : Type} : List α → List (List α)
  | [] => [[]]
  | x :: xs => (perms xs).flatMap (insertAll x)

/-- the pattern values along the model's ranking (non-increasing) -/
def rankKeys (pat : List Nat) : List Nat := (sortIdx pat).map (pat.getD · 0)

/-- the rearrangements of the RANK positions that move a result only inside its group of equal confidence -/
def tiePerms (pat : List Nat) : List (List Nat) :=
  (perms (List.range pat.length)).filter fun p => p.map ((rankKeys pat).getD · 0) == rankKeys pat

/-- an ignored result may be filed as an FP in the running sums of `fp_list` (each one independently, as the oracle) -/
def ignFlex : List K → List (List K)
  | [] => [[]]
  | k :: ks =>
    match k with
    | .ign => (ignFlex ks).flatMap fun r => [.ign :: r, .fp :: r]
    | _ => (ignFlex ks).map (k :: ·)

/-- the kind lists (in ranking order) the text admits, given the model's: ties in any order, ignored results as ignored or FP -/
def tpfpVariants (pat : List Nat) (ks : List K) : List (List K) :=
  (tiePerms pat).flatMap fun p => ignFlex (p.map (ks.getD · .ign))

/-- the code's leaf is admitted by the model's kinds `ks` (ranking order): it returned; for an EMPTY ranking nothing more
(AP undefined or 0, lists free); else `ap` is defined and the lists are the running sums of one of the admitted variants -/
def tpfpAdmits (pat : List Nat) (G : Nat) (c : Except String TpFp) (ks : List K) : Bool :=
  match c with
  | .error _ => false
  | .ok leaf => pat.isEmpty || (tpfpVariants pat ks).any fun ks' => decide (leaf = leafOfKinds G ks')

/-- the model's kinds in ranking order, as a tree -/
def kindsTree (pat : List Nat) : DTree (List K) := kindsSk (sortIdx pat) fun ks => .leaf ks

/-- no two entries of the pattern are equal (no tie among the confidences) -/
def strictPat (pat : List Nat) : Bool :=
  (List.range pat.length).all fun i => (List.range pat.length).all fun j => i == j || pat.getD i 0 != pat.getD j 0

/-- per-run obligation on the generated rows: all shapes present (or the translator gave up: no rows), every tree's leaf is
admitted by the skeleton's kinds on every consistent valuation -/
def tpfpOk (rows : List (List Nat × Nat × DTree (Except String TpFp))) : Bool :=
  (rows.isEmpty || rows.map (fun r => (r.1, r.2.1)) == tpfpShapes) &&
  rows.all fun r => agree PVal.empty (relTree (tpfpAdmits r.1 r.2.1) r.2.2 (kindsTree r.1)) (.leaf true)

/-! ### (b) precision / recall, interpolation, area -/

def precNF (i : Nat) : NF := [([(("t", i), 1)], (1, i + 1))]
def recallNF (gpos : Bool) (i : Nat) : NF := if gpos then [([(("g", 0), -1), (("t", i), 1)], (1, 1))] else []

/-- `get_precision_recall_list` on `tp_list = [t 0, …, t (n-1)]`, `num_ground_truth = g` -/
def prModel (n : Nat) (gpos : Bool) : NF2 := ⟨(List.range n).map precNF, (List.range n).map (recallNF gpos)⟩

def prShapes : List (Nat × Bool) := (List.range 4).flatMap fun n => [(n, false), (n, true)]

def prOk (rows : List (Nat × Bool × Except String NF2)) : Bool :=
  (rows.isEmpty || rows.map (fun r => (r.1, r.2.1)) == prShapes) &&
  rows.all fun r => decide (r.2.2 = .ok (prModel r.1 r.2.1))

/-- `AP.scan` on indices: `pat` answers the comparisons of the precisions -/
def scanIdx (pat : List Nat) : List Nat → List Nat → List Nat
  | [], st => st
  | i :: rest, [] => scanIdx pat rest [i]
  | i :: rest, m :: st =>
    if pat.getD i 0 > pat.getD m 0 then scanIdx pat rest (i :: m :: st) else scanIdx pat rest (m :: st)

/-- the recorded maxima (head = most recent = lowest index) for `n = pat.length` points -/
def stackOf (pat : List Nat) : List Nat :=
  match (List.range pat.length).reverse with
  | [] => []
  | i :: rest => scanIdx pat rest [i]

def pNF (i : Nat) : NF := [([(("P", i), 1)], (1, 1))]
def rNF (i : Nat) : NF := [([(("R", i), 1)], (1, 1))]

/-- `interpolate_precision_recall_list`: the Python lists are the stack read bottom-up, closed by (last maximum, 0.0) -/
def interpModel (pat : List Nat) : NF2 :=
  ⟨((stackOf pat).reverse ++ (stackOf pat).take 1).map pNF, (stackOf pat).reverse.map rNF ++ [[]]⟩

/-- `AP.partialArea` on a stack of indices (head = most recent), as signed products `P k * R a`: each recorded maximum
`k'` below another one `k` contributes `P k' * (R k' - R k)` -/
def partTerms : List Nat → List ((Nat × Nat) × Int)
  | k :: k' :: r => ((k', k'), 1) :: ((k', k), -1) :: partTerms (k' :: r)
  | _ => []

/-- `AP.stackArea`: the most recent maximum is extended to recall 0 -/
def stackTerms : List Nat → List ((Nat × Nat) × Int)
  | [] => []
  | k :: st => ((k, k), 1) :: partTerms (k :: st)

def keyLt (a b : Nat × Nat) : Bool := a.1 < b.1 || (a.1 == b.1 && a.2 < b.2)

def insTerm (key : Nat × Nat) (c : Int) : List ((Nat × Nat) × Int) → List ((Nat × Nat) × Int)
  | [] => [(key, c)]
  | (k', c') :: r =>
    if key = k' then (k', c' + c) :: r
    else if keyLt key k' then (key, c) :: (k', c') :: r
    else (k', c') :: insTerm key c r

def normTerms (l : List ((Nat × Nat) × Int)) : List ((Nat × Nat) × Int) :=
  (l.foldr (fun t acc => insTerm t.1 t.2 acc) []).filter fun t => t.2 != 0

def biNF (l : List ((Nat × Nat) × Int)) : NF := l.map fun t => ([(("P", t.1.1), 1), (("R", t.1.2), 1)], (t.2, 1))

/-- the representative of precision `k` among the precisions the pattern says to be EQUAL to it: the first such index.
Both sides of the area check are written over representatives, so that recording an equal precision once more (a `>=`
instead of `>` in the envelope) is no difference. -/
def repIdx (pat : List Nat) (k : Nat) : Nat :=
  if k < pat.length then ((List.range k).find? fun j => pat.getD j 0 == pat.getD k 0).getD k else k

def repTerms (pat : List Nat) (l : List ((Nat × Nat) × Int)) : List ((Nat × Nat) × Int) :=
  l.map fun t => ((repIdx pat t.1.1, t.1.2), t.2)

/-- `_calculate_ap` on precisions `P i`, recalls `R i` whose precisions are ordered like `pat` (tied precisions written as
their representative) -/
def areaModel (pat : List Nat) : NF := biNF (normTerms (repTerms pat (stackTerms (stackOf pat))))

def patShapes (lo : Nat) : List (List Nat) := ((List.range 4).filter (lo ≤ ·)).flatMap fun n => allLists n n

def interpOk (rows : List (List Nat × Except String NF2)) : Bool :=
  (rows.isEmpty || rows.map (·.1) == patShapes 1) && rows.all fun r => decide (r.2 = .ok (interpModel r.1))

def areaOk (rows : List (List Nat × Except String NF)) : Bool :=
  (rows.isEmpty || rows.map (·.1) == patShapes 0) && rows.all fun r => decide (r.2 = .ok (areaModel r.1))

/-! ### (c) `Map.__init__` -/

/-- (APH?, target label, label of the result-dict entry, label of the count-dict entry, label of the threshold) an `Ap` is built from -/
abbrev ApCall := Bool × Nat × Nat × Nat × Nat

structure MapLeaf where
  aps : List ApCall
  aphs : List ApCall
  map : Option NF
  maph : Option NF
deriving DecidableEq, Repr

/-- target labels `0 … L-1` in this order, the key order of the two dicts (labels `≥ L` = extra keys), 2-D detection -/
structure MapShape where
  L : Nat
  rkeys : List Nat
  nkeys : List Nat
  is2d : Bool
deriving DecidableEq, Repr

def emptiesSk {α : Type} : List Nat → (List Bool → DTree α) → DTree α
  | [], k => k []
  | i :: is, k => askB (.empty i) fun e => emptiesSk is fun es => k (e :: es)

/-- mean of the values `kind i`, `i ∈ d` (`none` = `inf` when there is none) -/
def meanNF (kind : String) (d : List Nat) : Option NF :=
  if d.isEmpty then none else some (d.map fun i => ([((kind, i), 1)], (1, d.length)))

/-- the labels whose bucket is not empty -/
def definedLabels (L : Nat) (es : List Bool) : List Nat :=
  ((List.range L).zip es).filterMap fun p => if p.2 then none else some p.1

def mapLeafOf (s : MapShape) (es : List Bool) : MapLeaf :=
  { aps := (List.range s.L).map fun i => (false, i, i, i, i),
    aphs := if s.is2d then [] else (List.range s.L).map fun i => (true, i, i, i, i),
    map := meanNF "ap" (definedLabels s.L es),
    maph := if s.is2d then none else meanNF "aph" (definedLabels s.L es) }

def mapSk (s : MapShape) : DTree (Except String MapLeaf) :=
  if (List.range s.L).all (fun i => s.rkeys.contains i && s.nkeys.contains i) then
    emptiesSk (List.range s.L) fun es => .leaf (.ok (mapLeafOf s es))
  else .leaf (.error "KeyError")

def mapAtoms (s : MapShape) (v : Val) : Except String MapLeaf :=
  if (List.range s.L).all (fun i => s.rkeys.contains i && s.nkeys.contains i) then
    .ok (mapLeafOf s ((List.range s.L).map fun i => v.b (.empty i)))
  else .error "KeyError"

/-- shapes that must be among the rows (the translator tabulates more): the dicts keyed in target order, both reversed, one
reversed against the other, for 2 and 3 labels -/
def mapRequired : List MapShape :=
  [⟨1, [0], [0], false⟩, ⟨2, [0, 1], [0, 1], false⟩, ⟨2, [1, 0], [1, 0], false⟩, ⟨2, [1, 0], [0, 1], false⟩,
   ⟨2, [0, 1], [1, 0], false⟩, ⟨3, [0, 1, 2], [0, 1, 2], false⟩, ⟨3, [2, 1, 0], [2, 1, 0], false⟩,
   ⟨3, [2, 1, 0], [0, 1, 2], false⟩, ⟨3, [1, 2, 0], [0, 1, 2], false⟩, ⟨3, [0, 1, 2], [2, 0, 1], false⟩,
   ⟨2, [1, 0], [0, 1], true⟩, ⟨3, [2, 1, 0], [0, 1, 2], true⟩]

def insCall (c : ApCall) : List ApCall → List ApCall
  | [] => [c]
  | d :: r => if c.2.1 ≤ d.2.1 then c :: d :: r else d :: insCall c r

/-- `Map.aps` / `Map.aphs` read as a MAPPING target label ↦ `Ap` (the text: "the mean over the labels …", no order of the
list is stated): the calls listed by target label (stable) -/
def canonMap (x : MapLeaf) : MapLeaf :=
  { x with aps := x.aps.foldr insCall [], aphs := x.aphs.foldr insCall [] }

/-- … and every exception is one code (the text names no exception class; the skeleton's only error leaf is "KeyError") -/
def canonMapE : Except String MapLeaf → Except String MapLeaf
  | .ok x => .ok (canonMap x)
  | .error _ => .error "KeyError"

def mapOk (rows : List (MapShape × DTree (Except String MapLeaf))) : Bool :=
  (rows.isEmpty || mapRequired.all fun s => rows.any fun r => r.1 == s) &&
  rows.all fun r => agree PVal.empty (mapTree canonMapE r.2) (mapSk r.1)

end PEval.APDT
