import PEval.Model.Matching
/-!
# `get_object_results` with its list handling: a small heap model  (audit C01 finding 1, Part 1 item 7)

`Matching.getObjectResults` is a pure function over index lists, so the clause "the caller's lists are left untouched"
cannot even be stated on it.  This file models what `get_object_results` does with the two Python `list` objects it
receives:

```
estimated_objects_   = estimated_objects.copy()          # two NEW list objects
ground_truth_objects_ = ground_truth_objects.copy()
for _ in range(num_estimation):
    ...
    est_idx, gt_idx = np.unravel_index(np.nanargmin(masked_scores), masked_scores.shape)   # position in the REMAINING table
    est_obj = estimated_objects_.pop(est_idx)            # writes into the working copies
    gt_obj  = ground_truth_objects_.pop(gt_idx)
    ...
    masked_scores = np.delete(masked_scores, est_idx, axis=0) ...
...
object_results += _get_fp_object_results(estimated_objects_)
```

* `Heap` = the store of list objects (`cells[r]` = the content of the list at address `r`); an object is a reference
  `ORef` (Python identity).  `Heap.alloc` = creation of a new list, `Heap.pop` = `list.pop(k)` (an in-place write).
* the caller's lists are two addresses `rE`, `rG`; the working lists two addresses `wE`, `wG`.
* the loops pop at the POSITION of the optimum in the remaining table (`idxOf` in the remaining row / column list), as
  the code does; the rows / columns of the table are deleted by position (`eraseIdx`).
* `runH copy …` is the function with (`copy = true`: the code) or without (`copy = false`: the defective variant
  `estimated_objects_ = estimated_objects`, an alias) the two `.copy()` calls.

The score table is built by reading the two lists (`sceneOf`); `_get_score_table` only iterates over them.
Only the geometric path and the two early returns are modelled here (the identity-based matchers of ROI-less 2-D objects
are C11's subject).
-/
namespace PEval.MatchHeap
open PEval PEval.Matching

/-- reference to an object (Python identity) -/
abbrev ORef := Nat
/-- address of a `list` object -/
abbrev LRef := Nat

/-- the store of `list` objects -/
structure Heap where
  cells : List (List ORef)
  deriving DecidableEq, Repr

/-- content of the list at address `r` -/
def Heap.read (h : Heap) (r : LRef) : List ORef := (h.cells[r]?).getD []

/-- in-place update of the list at address `r` -/
def Heap.write (h : Heap) (r : LRef) (v : List ORef) : Heap := ⟨h.cells.set r v⟩

/-- a new list object (`lst.copy()`, `[]`): the heap grows by one cell, nothing else changes -/
def Heap.alloc (h : Heap) (v : List ORef) : Heap × LRef := (⟨h.cells ++ [v]⟩, h.cells.length)

/-- `lst.pop(k)` on the list at address `r`: the popped element and the heap in which THAT list has lost it
(`none` = `IndexError`) -/
def Heap.pop (h : Heap) (r : LRef) (k : Nat) : Option (ORef × Heap) :=
  match (h.read r)[k]? with
  | none => none
  | some o => some (o, h.write r ((h.read r).eraseIdx k))

/-- a result: the estimate object and its ground-truth object (or `None`) -/
abbrev RRes := ORef × Option ORef

/-- state of the matching loops: the heap, the rows / columns of the score table that remain (by their index in the
full table), the results appended so far, and the exception raised (if any) -/
structure HSt where
  heap : Heap
  es : List Nat
  gs : List Nat
  results : List RRes
  err : Option Err
  deriving DecidableEq, Repr

/-- one matching loop on the working lists at `wE`, `wG` -/
def stageH (t : Tbl) (stage1 : Bool) (wE wG : LRef) : Nat → HSt → HSt
  | 0, st => st
  | fuel + 1, st =>
    match argBest t.maximize (cands t stage1 st.es st.gs) with
    | none => st
    | some (i, j, _) =>
      -- est_idx, gt_idx: the position of the optimum in the remaining table
      let p := st.es.idxOf i
      let q := st.gs.idxOf j
      match st.heap.pop wE p with
      | none => { st with err := some "IndexError" }
      | some (eo, h1) =>
        match h1.pop wG q with
        | none => { st with heap := h1, err := some "IndexError" }
        | some (go, h2) =>
          stageH t stage1 wE wG fuel
            { st with heap := h2, es := st.es.eraseIdx p, gs := st.gs.eraseIdx q,
                      results := st.results ++ [(eo, some go)] }

/-- what the score table reads of the objects, and the matching score of two objects -/
structure World where
  obj : ORef → Obj
  val : ORef → ORef → Rat

/-- the scene the table is built from: the objects of the two lists, in list order -/
def sceneOf (w : World) (eL gL : List ORef) : Scene :=
  { ests := eL.map w.obj, gts := gL.map w.obj, val := fun i j => w.val (eL.getD i 0) (gL.getD j 0) }

/-- `get_object_results` (geometric path) on the heap `h` for the caller's lists at `rE`, `rG`: the returned results
(or the exception) and the heap after the call.  `copy = true` is the code. -/
def runH (copy : Bool) (c : Cfg) (w : World) (h : Heap) (rE rG : LRef) : Except Err (List RRes) × Heap :=
  let eL := h.read rE
  let gL := h.read rG
  if eL.isEmpty then (.ok [], h)
  else if gL.isEmpty then (.ok (if c.fpValidation then [] else eL.map fun o => (o, none)), h)
  else
    let sc := sceneOf w eL gL
    match tableError c sc with
    | some e => (.error e, h)
    | none =>
      let t := mkTbl c sc
      let a1 := if copy then h.alloc eL else (h, rE)
      let a2 := if copy then a1.1.alloc gL else (a1.1, rG)
      let wE := a1.2
      let wG := a2.2
      let s0 : HSt := { heap := a2.1, es := List.range eL.length, gs := List.range gL.length, results := [], err := none }
      let s1 := stageH t true wE wG eL.length s0
      let s2 := if s1.err.isSome then s1 else stageH t false wE wG s1.es.length s1
      match s2.err with
      | some e => (.error e, s2.heap)
      | none =>
        (.ok (s2.results ++ (if c.fpValidation then [] else (s2.heap.read wE).map fun o => (o, none))), s2.heap)

/-- the code: with the two `.copy()` calls -/
def getObjectResultsH (c : Cfg) (w : World) (h : Heap) (rE rG : LRef) : Except Err (List RRes) × Heap :=
  runH true c w h rE rG

/-- DEFECTIVE variant: `estimated_objects_ = estimated_objects` (no `.copy()`): the pops hit the caller's lists -/
def getObjectResultsH_noCopy (c : Cfg) (w : World) (h : Heap) (rE rG : LRef) : Except Err (List RRes) × Heap :=
  runH false c w h rE rG

/-- an index-level result read as objects of the caller's lists -/
def deref (eL gL : List ORef) (r : Res) : RRes := (eL.getD r.1 0, r.2.map fun j => gL.getD j 0)

end PEval.MatchHeap
