import PEval.Model.Lookup
/-!
Decision tables of the ground-truth lookup (`get_now_frame`, `get_interpolated_now_frame`).

The translator `harness/dt_c17.py` runs the REAL functions on stub frames whose stamps are symbolic
numbers and emits, for frame lists of length 0..3, the complete decision tree of the code
(`PEval/Gen/LookupTables.lean`).  This file holds the hand-written side:

* the data types of such a tree: leaves of linear forms (`Leaf`), order atoms (`Atom` = a canonical
  integer linear form; the decision is its SIGN, three outcomes), results (`Res`), `DTree`, `evalTree`;
* `valuationOf ts q tol`: the valuation of a concrete input (sign of every form);
* the model's decision skeletons over the same atoms, for ANY number of frames: `getNowAtoms n v`,
  `getInterpAtoms n v` (functions of a valuation) and their reifications `getNowSkel n`,
  `getInterpSkel n` (trees);
* `equiv`: a complete check that two trees agree on EVERY valuation (atoms of different forms are
  treated as independent; that over-approximates the input space, which is sound for "table = model").

Order atoms are canonical: leaves sorted `q < tol < t i < |q - t i|`, integer coefficients without a
common factor, leading coefficient positive.  No Mathlib.
-/
namespace PEval.LookupDT
open PEval PEval.Lookup

inductive Sign where
  | lt | eq | gt
deriving DecidableEq, Repr, Inhabited

/-- leaves of the linear forms: query time, tolerance, stamp of frame `i`, `|q - t i|` -/
inductive Leaf where
  | q
  | tol
  | t (i : Nat)
  | absd (i : Nat)
deriving DecidableEq, Repr

/-- an order atom: the sign of `Σ c·leaf + const` -/
structure Atom where
  terms : List (Int × Leaf)
  const : Int
deriving DecidableEq, Repr

/-- result of a lookup: `None` / the loaded frame `i` / "interpolate frames `i`, `j` at the query
time" / an exception class -/
inductive Res where
  | none
  | frame (i : Nat)
  | interp (i j : Nat)
  | err (k : String)
deriving DecidableEq, Repr, Inhabited

inductive DTree where
  | leaf (r : Res)
  | node (a : Atom) (lt eq gt : DTree)
deriving Repr, Inhabited

abbrev Valuation := Atom → Sign

def Sign.pick {α : Type} (s : Sign) (l e g : α) : α :=
  match s with
  | .lt => l
  | .eq => e
  | .gt => g

def evalTree : DTree → Valuation → Res
  | .leaf r, _ => r
  | .node a l e g, v => (v a).pick (evalTree l v) (evalTree e v) (evalTree g v)

/-! ## the valuation of a concrete input -/

def signOf (x : Int) : Sign := if x < 0 then .lt else if x = 0 then .eq else .gt

def Leaf.eval (ts : List Int) (q tol : Int) : Leaf → Int
  | .q => q
  | .tol => tol
  | .t i => ts.getD i 0
  | .absd i => ((q - ts.getD i 0).natAbs : Int)

def evalTerms (ts : List Int) (q tol : Int) : List (Int × Leaf) → Int
  | [] => 0
  | (c, l) :: r => c * l.eval ts q tol + evalTerms ts q tol r

def Atom.eval (ts : List Int) (q tol : Int) (a : Atom) : Int := evalTerms ts q tol a.terms + a.const

/-- stamps `ts`, query `q`, tolerance `tol` ↦ the sign of every form -/
def valuationOf (ts : List Int) (q tol : Int) : Valuation := fun a => signOf (a.eval ts q tol)

/-! ## the atoms the model consults (canonical spelling) -/

/-- `q - 10^17` : `gt` ⇔ the nano-second guard fires -/
def aGuard : Atom := ⟨[(1, .q)], -100000000000000000⟩
/-- `|q - t b| - |q - t i|` (used with `b < i`) : `gt` ⇔ frame `i` is strictly closer than frame `b` -/
def aCmp (b i : Nat) : Atom := ⟨[(1, .absd b), (-1, .absd i)], 0⟩
/-- `tol - |q - t b|` : `lt` ⇔ the time difference exceeds the tolerance -/
def aTolAbs (b : Nat) : Atom := ⟨[(1, .tol), (-1, .absd b)], 0⟩
/-- `q - t i` : `lt` ⇔ frame `i` is later than the query -/
def aGe (i : Nat) : Atom := ⟨[(1, .q), (-1, .t i)], 0⟩
/-- `q - tol - t i` : `gt` ⇔ `dt_before > tol` -/
def aBefore (i : Nat) : Atom := ⟨[(1, .q), (-1, .tol), (-1, .t i)], 0⟩
/-- `q + tol - t j` : `lt` ⇔ `dt_after > tol` -/
def aAfter (j : Nat) : Atom := ⟨[(1, .q), (1, .tol), (-1, .t j)], 0⟩

/-! ## `get_now_frame`: skeleton over atoms -/

/-- the `for` loop over frames `i, i+1, …` (`m` of them) with current best `best` -/
def argminIdx (v : Valuation) : Nat → Nat → Nat → Nat
  | best, _, 0 => best
  | best, i, m + 1 => if v (aCmp best i) = .gt then argminIdx v i (i + 1) m else argminIdx v best (i + 1) m

def nowTail (v : Valuation) (best : Nat) : Res := if v (aTolAbs best) = .lt then .none else .frame best

/-- `get_now_frame` on `n` frames, as a function of the valuation -/
def getNowAtoms (n : Nat) (v : Valuation) : Res :=
  if v aGuard = .gt then .err "DatasetLoadingError"
  else match n with
    | 0 => .err "IndexError"
    | m + 1 => nowTail v (argminIdx v 0 1 m)

def argminSkel : Nat → Nat → Nat → (Nat → DTree) → DTree
  | best, _, 0, k => k best
  | best, i, m + 1, k =>
    .node (aCmp best i) (argminSkel best (i + 1) m k) (argminSkel best (i + 1) m k) (argminSkel i (i + 1) m k)

def nowTailSkel (best : Nat) : DTree :=
  .node (aTolAbs best) (.leaf .none) (.leaf (.frame best)) (.leaf (.frame best))

/-- the same skeleton as a decision tree -/
def getNowSkel (n : Nat) : DTree :=
  let body : DTree := match n with
    | 0 => .leaf (.err "IndexError")
    | m + 1 => argminSkel 0 1 m nowTailSkel
  .node aGuard body body (.leaf (.err "DatasetLoadingError"))

/-! ## `get_interpolated_now_frame`: skeleton over atoms -/

/-- the scan over frames `i, i+1, …` (`m` of them): every frame not later than the query overwrites
`before`; the first later frame becomes `after` and ends the loop -/
def scanIdx (v : Valuation) : Nat → Nat → Option Nat → Option Nat × Option Nat
  | _, 0, b => (b, none)
  | i, m + 1, b => if v (aGe i) = .lt then (b, some i) else scanIdx v (i + 1) m (some i)

def gateBefore (v : Valuation) : Option Nat → Option Nat
  | none => none
  | some b => if v (aBefore b) = .gt then none else some b

def gateAfter (v : Valuation) : Option Nat → Option Nat
  | none => none
  | some a => if v (aAfter a) = .lt then none else some a

def outcomeOf : Option Nat → Option Nat → Res
  | none, none => .none
  | none, some a => .frame a
  | some b, none => .frame b
  | some b, some a => .interp b a

/-- `get_interpolated_now_frame` on `n` frames, as a function of the valuation -/
def getInterpAtoms (n : Nat) (v : Valuation) : Res :=
  let s := scanIdx v 0 n none
  outcomeOf (gateBefore v s.1) (gateAfter v s.2)

def gateAfterSkel (b : Option Nat) : Option Nat → DTree
  | none => .leaf (outcomeOf b none)
  | some a => .node (aAfter a) (.leaf (outcomeOf b none)) (.leaf (outcomeOf b (some a))) (.leaf (outcomeOf b (some a)))

def gateBeforeSkel (a : Option Nat) : Option Nat → DTree
  | none => gateAfterSkel none a
  | some b => .node (aBefore b) (gateAfterSkel (some b) a) (gateAfterSkel (some b) a) (gateAfterSkel none a)

def scanSkel : Nat → Nat → Option Nat → DTree
  | _, 0, b => gateBeforeSkel none b
  | i, m + 1, b => .node (aGe i) (gateBeforeSkel (some i) b) (scanSkel (i + 1) m (some i)) (scanSkel (i + 1) m (some i))

/-- the same skeleton as a decision tree -/
def getInterpSkel (n : Nat) : DTree := scanSkel 0 n none

/-! ## a complete equivalence check of two trees -/

def lookupA (a : Atom) : List (Atom × Sign) → Option Sign
  | [] => none
  | (b, s) :: r => if a = b then some s else lookupA a r

/-- under the decisions `path`: does every valuation send `t` to `r`? -/
def checkLeaf (r : Res) : List (Atom × Sign) → DTree → Bool
  | _, .leaf r' => r = r'
  | path, .node a l e g =>
    match lookupA a path with
    | some s => s.pick (checkLeaf r path l) (checkLeaf r path e) (checkLeaf r path g)
    | none => checkLeaf r ((a, .lt) :: path) l && checkLeaf r ((a, .eq) :: path) e && checkLeaf r ((a, .gt) :: path) g

/-- under the decisions `path`: do the two trees agree on every valuation? -/
def equiv : List (Atom × Sign) → DTree → DTree → Bool
  | path, .leaf r, t2 => checkLeaf r path t2
  | path, .node a l e g, t2 =>
    match lookupA a path with
    | some s => s.pick (equiv path l t2) (equiv path e t2) (equiv path g t2)
    | none => equiv ((a, .lt) :: path) l t2 && equiv ((a, .eq) :: path) e t2 && equiv ((a, .gt) :: path) g t2

/-- every row `(n, tree)` of a generated table agrees with the skeleton for `n` frames -/
def tableOk (rows : List (Nat × DTree)) (skel : Nat → DTree) : Bool :=
  rows.all (fun p => equiv [] p.2 (skel p.1))

/-! ## decoding a table result on a concrete frame list -/

/-- what `get_now_frame` returns, from the table's answer -/
def decodeNow (fs : List Frame) : Res → Except Err (Option Frame)
  | .none => .ok none
  | .frame i => match fs[i]? with
    | some f => .ok (some f)
    | none => .error "table"
  | .interp _ _ => .error "table"
  | .err k => .error k

/-- what `get_interpolated_now_frame` returns, from the table's answer: `interp i j` is the call
`interpolate_ground_truth_frames(frames[i], frames[j], unix_time)` -/
def decodeInterp (fs : List Frame) (t : Int) : Res → Except Err Outcome
  | .none => .ok .nothing
  | .frame i => match fs[i]? with
    | some f => .ok (.orig f)
    | none => .error "table"
  | .interp i j => match fs[i]?, fs[j]? with
    | some b, some a =>
      match interpolateFrames b a t with
      | .error k => .error k
      | .ok f => .ok (.interp f)
    | _, _ => .error "table"
  | .err k => .error k

end PEval.LookupDT
