/-!
Conventions shared by all models (DESIGN.md section 4).

* numbers are exact rationals (`Rat`); Python floats are compared within a tolerance by the harness;
* Python exceptions are `Except String α` where the string is the exception's class name
  (`"ValueError"`, `"AssertionError"`, `"ThresholdError"`, …) – only the kind is compared;
* Python object identity is a `Nat` id assigned by the harness.
-/
deriving instance DecidableEq for Except

namespace PEval

/-- error kinds used by the models (the class name of the Python exception) -/
abbrev Err := String

end PEval
