import PEval.Model.Basic
/-!
Model of the ground-truth lookup (`perception_eval/common/dataset.py`: `get_now_frame`,
`get_interpolated_now_frame`, `interpolate_ground_truth_frames`, `convert_objects_to_global`;
`perception_eval/common/geometry.py`: `interpolate_object_list`, `interpolate_dynamic_object`,
`interpolate_state`, `interpolate_list`, `interpolate_quaternion`, `interpolate_homogeneous_matrix`;
`manager/_evaluation_manager_base.py`: `get_ground_truth_now_frame`, which only dispatches).

* timestamps are `Int` (micro seconds), tolerances are `Int`;
* positions / velocities / sizes are rational triples;
* orientations are yaw rotations given by their angle in half-turns `τ ∈ ℚ` (angle = τ·π, DESIGN 4.2);
  `Quaternion.slerp` restricted to yaw rotations is the shortest-arc interpolation of τ
  (`arc`, the difference wrapped into [-1, 1));
* an ego pose (ego→map) is yaw + translation: the yaw acts on positions through its rational unit
  complex number `(c, s)` and on headings through `τ`;
* Python object identity is the harness id (`Obj.id`, `Frame.id`); uuids are harness numbers.
-/
namespace PEval.Lookup

/-! ## vectors -/

structure Vec3 where
  x : Rat
  y : Rat
  z : Rat
deriving DecidableEq, Repr, Inhabited

namespace Vec3
def add (a b : Vec3) : Vec3 := ⟨a.x + b.x, a.y + b.y, a.z + b.z⟩
def sub (a b : Vec3) : Vec3 := ⟨a.x - b.x, a.y - b.y, a.z - b.z⟩
def smul (k : Rat) (a : Vec3) : Vec3 := ⟨k * a.x, k * a.y, k * a.z⟩
/-- `interpolate_list`: `l1[i] + (l2[i] - l1[i]) * (t - t1) / (t2 - t1)` with `α = (t-t1)/(t2-t1)` -/
def lerp (a b : Vec3) (α : Rat) : Vec3 := add a (smul α (sub b a))
end Vec3

/-! ## objects, poses, frames -/

/-- `object.frame_id`: only `base_link` and `map` are handled by `convert_objects_to_global` -/
inductive FrameId where
  | baseLink
  | map
  | other
deriving DecidableEq, Repr, Inhabited

/-- ego→map transform restricted to yaw + translation -/
structure Pose where
  c : Rat
  s : Rat
  tau : Rat
  trans : Vec3
deriving DecidableEq, Repr, Inhabited

/-- `HomogeneousMatrix.transform(position)` for a yaw pose -/
def Pose.apply (e : Pose) (p : Vec3) : Vec3 :=
  ⟨e.c * p.x - e.s * p.y + e.trans.x, e.s * p.x + e.c * p.y + e.trans.y, p.z + e.trans.z⟩

structure Obj where
  id : Nat           -- harness id of the source Python object
  uuid : Nat
  time : Int         -- `unix_time`
  frame : FrameId
  pos : Vec3
  tau : Rat          -- yaw of `state.orientation` in half-turns
  size : Vec3        -- `state.shape`
  vel : Option Vec3  -- `state.velocity` (may be `None`)
deriving DecidableEq, Repr, Inhabited

structure Frame where
  id : Nat
  time : Int
  ego : Option Pose  -- `transforms[(BASE_LINK, MAP)]`, `none` when not registered
  objs : List Obj
deriving DecidableEq, Repr, Inhabited

/-! ## `get_now_frame` -/

/-- `abs(unix_time - frame.unix_time)` -/
def absDt (t : Int) (f : Frame) : Nat := (t - f.time).natAbs

/-- the `for` loop: a later frame replaces the current best only when strictly closer -/
def argminLoop (t : Int) : Frame → List Frame → Frame
  | best, [] => best
  | best, f :: fs => if absDt t f < absDt t best then argminLoop t f fs else argminLoop t best fs

def maxTime : Int := 10 ^ 17

/-- `get_now_frame(frames, unix_time, threshold_min_time)`; `.ok none` is Python `None` -/
def getNowFrame (fs : List Frame) (t thr : Int) : Except Err (Option Frame) :=
  if t > maxTime then .error "DatasetLoadingError"
  else match fs with
    | [] => .error "IndexError"
    | f0 :: _ =>
      let best := argminLoop t f0 fs
      if (absDt t best : Int) > thr then .ok none else .ok (some best)

/-! ## `get_interpolated_now_frame`: the scan -/

structure Neighbours where
  before : Option Frame
  dtBefore : Int
  after : Option Frame
  dtAfter : Int
deriving DecidableEq, Repr

/-- the scan as written: every frame with `dt ≥ 0` overwrites `before`; the first frame with
`dt < 0` becomes `after` and ends the loop -/
def scan (t : Int) : List Frame → Option Frame → Int → Neighbours
  | [], b, db => ⟨b, db, none, 0⟩
  | f :: fs, b, db =>
    if t - f.time ≥ 0 then scan t fs (some f) (t - f.time) else ⟨b, db, some f, -(t - f.time)⟩

def neighbours (fs : List Frame) (t : Int) : Neighbours := scan t fs none 0

/-! ## interpolation of objects -/

/-- difference of two headings wrapped into [-1, 1) half-turns: the signed shortest arc -/
def wrap (x : Rat) : Rat := x - 2 * (((x + 1) / 2).floor : Int)

/-- signed shortest arc from heading `τ₁` to heading `τ₂` (half-turns) -/
def arc (τ₁ τ₂ : Rat) : Rat := wrap (τ₂ - τ₁)

/-- `(t - t1) / (t2 - t1)` -/
def alpha (t1 t2 t : Int) : Rat := ((t - t1 : Int) : Rat) / ((t2 - t1 : Int) : Rat)

/-- `interpolate_state` on two optional velocities (F15 repaired: only when both are present) -/
def interpVel (a : Rat) : Option Vec3 → Option Vec3 → Option Vec3
  | some v1, some v2 => some (Vec3.lerp v1 v2 a)
  | _, _ => none

/-- `interpolate_dynamic_object`: a copy of the first object with interpolated position,
orientation, velocity, the first object's shape and `unix_time = int(t)` -/
def interpObj (o1 o2 : Obj) (t1 t2 t : Int) : Obj :=
  { o1 with
    time := t
    pos := Vec3.lerp o1.pos o2.pos (alpha t1 t2 t)
    tau := o1.tau + alpha t1 t2 t * arc o1.tau o2.tau
    vel := interpVel (alpha t1 t2 t) o1.vel o2.vel }

/-- first loop of `interpolate_object_list`, one object of the first list -/
def stepFirst (l2 : List Obj) (t1 t2 t : Int) (o1 : Obj) : Obj :=
  match l2.find? (fun o2 => o1.uuid == o2.uuid) with
  | some o2 => interpObj o1 o2 t1 t2 t
  | none => o1

/-- second loop: objects of the second list whose uuid is not in `id_list` yet (which grows) -/
def secondPass : List Nat → List Obj → List Obj
  | _, [] => []
  | ids, o2 :: rest =>
    if o2.uuid ∈ ids then secondPass ids rest else o2 :: secondPass (ids ++ [o2.uuid]) rest

/-- `interpolate_object_list` (its assertion is checked by the caller model `interpolateFrames`) -/
def interpolateObjectList (l1 l2 : List Obj) (t1 t2 t : Int) : List Obj :=
  l1.map (stepFirst l2 t1 t2 t) ++ secondPass (l1.map (·.uuid)) l2

/-! ## `convert_objects_to_global` -/

/-- a `base_link` object moved to the map frame by the ego pose (position and heading; the velocity
is not touched by the code); other objects unchanged -/
def globalOf (e : Pose) (o : Obj) : Obj :=
  match o.frame with
  | .baseLink => { o with frame := .map, pos := e.apply o.pos, tau := e.tau + o.tau }
  | _ => o

def toGlobal (e : Pose) (o : Obj) : Except Err Obj :=
  match o.frame with
  | .other => .error "NotImplementedError"
  | _ => .ok (globalOf e o)

def toGlobalList (e : Pose) : List Obj → Except Err (List Obj)
  | [] => .ok []
  | o :: os =>
    match toGlobal e o with
    | .error k => .error k
    | .ok g =>
      match toGlobalList e os with
      | .error k => .error k
      | .ok gs => .ok (g :: gs)

/-! ## `interpolate_ground_truth_frames` -/

/-- the interpolated frame: a copy of the before frame (`baseId`) with new time, ego pose, objects -/
structure InterpFrame where
  baseId : Nat
  time : Int
  egoTrans : Vec3
  egoTau : Rat
  objs : List Obj
deriving DecidableEq, Repr

/-- error order as in the code: missing ego→map transform (`KeyError`), the assertion
`t1 <= t <= t2` and the division `(t - t1) / (t2 - t1)` in `interpolate_homogeneous_matrix`, then
the two conversions to the map frame -/
def interpolateFrames (b a : Frame) (t : Int) : Except Err InterpFrame :=
  match b.ego, a.ego with
  | none, _ => .error "KeyError"
  | some _, none => .error "KeyError"
  | some eb, some ea =>
    if ¬ (b.time ≤ t ∧ t ≤ a.time) then .error "AssertionError"
    else if a.time = b.time then .error "ZeroDivisionError"
    else
      match toGlobalList eb b.objs with
      | .error k => .error k
      | .ok gb =>
        match toGlobalList ea a.objs with
        | .error k => .error k
        | .ok ga =>
          .ok { baseId := b.id
                time := t
                egoTrans := Vec3.lerp eb.trans ea.trans (alpha b.time a.time t)
                egoTau := eb.tau + alpha b.time a.time t * arc eb.tau ea.tau
                objs := interpolateObjectList gb ga b.time a.time t }

/-! ## `get_interpolated_now_frame`: gating and the four outcomes -/

inductive Outcome where
  | nothing                      -- `None`
  | orig (f : Frame)             -- one of the loaded frames, returned as is
  | interp (f : InterpFrame)     -- a new interpolated frame
deriving DecidableEq, Repr

/-- `dt > threshold` disables a neighbour -/
def gate (thr : Int) (dt : Int) (f : Option Frame) : Option Frame := if dt > thr then none else f

def getInterpolated (fs : List Frame) (t thr : Int) : Except Err Outcome :=
  let n := neighbours fs t
  match gate thr n.dtBefore n.before, gate thr n.dtAfter n.after with
  | none, none => .ok .nothing
  | none, some a => .ok (.orig a)
  | some b, none => .ok (.orig b)
  | some b, some a =>
    match interpolateFrames b a t with
    | .error k => .error k
    | .ok f => .ok (.interp f)

/-- `manager.get_ground_truth_now_frame(unix_time, threshold, interpolate)` -/
def managerLookup (fs : List Frame) (t thr : Int) (interpolate : Bool) : Except Err Outcome :=
  if interpolate then getInterpolated fs t thr
  else match getNowFrame fs t thr with
    | .error k => .error k
    | .ok none => .ok .nothing
    | .ok (some f) => .ok (.orig f)

end PEval.Lookup
