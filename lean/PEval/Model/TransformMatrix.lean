import PEval.Model.Transform
/-!
# Matrix input and the re-extraction of the quaternion (C18, quantifier "both quaternion signs, matrix or quaternion input")

`PEval.Model.Transform` keeps `(pos, rot)` exactly.  The real `HomogeneousMatrix`
* accepts the rotation as a 3×3 / 4×4 array and turns it into a quaternion with `Quaternion(matrix=R)`
  (`__init__`, `__generate_homogeneous_matrix`, `from_matrix`);
* computes `dot`, `inv` and `transform(position, rotation)` on the 4×4 float matrices and then RE-EXTRACTS position and
  quaternion from the product (`__extract_position_and_rotation_from_matrix`), again with `Quaternion(matrix=R)`.

`Quaternion(matrix=R)` (pyquaternion's `trace_method`, in the trusted base) determines the quaternion only up to sign: the
matrix does not know whether it came from `q` or from `−q`, and rounding may move `R` across the branch boundaries of the
method.  So wherever the code re-extracts, an orientation result is determined only as the class `{q, −q}`.

This file adds
* `Quat.SignEq` (`q ≈± q'`), `PoseEq`, `HM.SignEq`: equality up to the sign of the quaternion;
* the extraction as an abstract function `ex : Mat3 → Quat` with the contract `ExtractOK ex` (on the rotation matrix of a
  unit quaternion it returns a unit quaternion with the same rotation matrix) — the ONE named hypothesis about pyquaternion;
* the code paths with the extraction made explicit: `HM.ofMat3`, `HM.fromMatrix`, `dotX`, `invX`, `transformPoseX`; each call
  site takes its OWN extraction function, so nothing can depend on two calls choosing the same sign;
* pyquaternion's `trace_method` itself over `ℚ` (`extractTrace`, the square root a parameter that is exact on squares),
  which satisfies the contract (`PEval.Transform.extractTrace_ok`), and the defective closed form of seed C18_G
  (`extractG`), which does not: it divides by `w`.

Rotation matrices are those of rational unit quaternions (a rational rotation matrix such as the quarter turn about z has
no rational quaternion; the harness generates matrices from rational unit quaternions).
-/
namespace PEval.Transform

/-! ## equality up to the sign of the quaternion -/

/-- `p = q` or `p = −q`: the same orientation -/
def Quat.SignEq (p q : Quat) : Prop := p = q ∨ p = -q

instance (p q : Quat) : Decidable (p.SignEq q) := by unfold Quat.SignEq; infer_instance

/-- poses equal as Python determines them: positions equal, orientations equal up to sign -/
def PoseEq (a b : V3 × Quat) : Prop := a.1 = b.1 ∧ a.2.SignEq b.2

instance (a b : V3 × Quat) : Decidable (PoseEq a b) := by unfold PoseEq; infer_instance

/-- the same rigid motion with the same labels, the quaternion up to sign -/
def HM.SignEq (a b : HM) : Prop := a.pos = b.pos ∧ a.rot.SignEq b.rot ∧ a.src = b.src ∧ a.dst = b.dst

instance (a b : HM) : Decidable (a.SignEq b) := by unfold HM.SignEq; infer_instance

/-! ## 4×4 blocks -/

/-- `matrix[:3, :3]` -/
def Mat4.rotBlock (m : Mat4) : Mat3 :=
  ⟨⟨m.r0.a, m.r0.b, m.r0.c⟩, ⟨m.r1.a, m.r1.b, m.r1.c⟩, ⟨m.r2.a, m.r2.b, m.r2.c⟩⟩

/-- `matrix[:3, 3]` -/
def Mat4.posCol (m : Mat4) : V3 := ⟨m.r0.d, m.r1.d, m.r2.d⟩

/-- `eye(4)` with a rotation block and a translation column: `__generate_homogeneous_matrix` for a rotation given as a matrix -/
def matOfMat3 (pos : V3) (r : Mat3) : Mat4 :=
  ⟨⟨r.r0.x, r.r0.y, r.r0.z, pos.x⟩, ⟨r.r1.x, r.r1.y, r.r1.z, pos.y⟩, ⟨r.r2.x, r.r2.y, r.r2.z, pos.z⟩, ⟨0, 0, 0, 1⟩⟩

/-! ## the extraction `Quaternion(matrix=R)` -/

/-- the contract of `Quaternion(matrix=·)` on rotation matrices of unit quaternions: a unit quaternion with that rotation matrix -/
def ExtractOK (ex : Mat3 → Quat) : Prop :=
  ∀ q : Quat, q.normSq = 1 → (ex (rotMat q)).normSq = 1 ∧ rotMat (ex (rotMat q)) = rotMat q

/-- `__extract_position_and_rotation_from_matrix(ndarray)` -/
def extractPR (ex : Mat3 → Quat) (m : Mat4) : V3 × Quat := (m.posCol, ex m.rotBlock)

/-- `HomogeneousMatrix(position, R, src, dst)` with `R` a 3×3 array (a 4×4 array contributes its upper-left block) -/
def HM.ofMat3 (ex : Mat3 → Quat) (pos : V3) (r : Mat3) (src dst : String) : HM := ⟨pos, ex r, src, dst⟩

/-- `HomogeneousMatrix.from_matrix(M, src, dst)` -/
def HM.fromMatrix (ex : Mat3 → Quat) (m : Mat4) (src dst : String) : HM :=
  ⟨(extractPR ex m).1, (extractPR ex m).2, src, dst⟩

/-- `self.dot(other)` as the code computes it: product of the 4×4 matrices, then extraction -/
def dotX (ex : Mat3 → Quat) (self other : HM) : Except String HM :=
  if self.src ≠ other.dst then .error "ValueError"
  else
    let pr := extractPR ex (matMul (toMat self) (toMat other))
    .ok ⟨pr.1, pr.2, other.src, self.dst⟩

/-- `self.inv()` as the code computes it: the inverse 4×4 matrix (`toMat (inv a)`, the matrix inverse by
`PEval.C18.inv_matmul`), then extraction -/
def invX (ex : Mat3 → Quat) (a : HM) : HM :=
  let pr := extractPR ex (toMat (inv a))
  ⟨pr.1, pr.2, a.dst, a.src⟩

/-- `__transform_position_and_rotation`: `self.matrix · [[R(r), p], [0, 1]]`, then extraction -/
def transformPoseX (ex : Mat3 → Quat) (a : HM) (pr : V3 × Quat) : V3 × Quat :=
  extractPR ex (matMul (toMat a) (matOf pr.1 pr.2))

/-- the same with the rotation handed over as a 3×3 array -/
def transformPoseMatX (ex : Mat3 → Quat) (a : HM) (p : V3) (r : Mat3) : V3 × Quat :=
  extractPR ex (matMul (toMat a) (matOfMat3 p r))

/-! ## pyquaternion's `trace_method` over `ℚ`

```
m = matrix.conj().transpose()
if m[2, 2] < 0:
    if m[0, 0] > m[1, 1]: t = 1 + m00 - m11 - m22; q = [m12 - m21, t, m01 + m10, m20 + m02]
    else:                 t = 1 - m00 + m11 - m22; q = [m20 - m02, m01 + m10, t, m12 + m21]
else:
    if m[0, 0] < -m[1, 1]: t = 1 - m00 - m11 + m22; q = [m01 - m10, m20 + m02, m12 + m21, t]
    else:                  t = 1 + m00 + m11 + m22; q = [t, m12 - m21, m20 - m02, m01 - m10]
q *= 0.5 / sqrt(t)
```
`m[i, j] = R[j, i]`.  `sq` stands for `sqrt`. -/

def Quat.scale (k : Rat) (q : Quat) : Quat := ⟨k * q.w, k * q.x, k * q.y, k * q.z⟩

def extractTrace (sq : Rat → Rat) (r : Mat3) : Quat :=
  if r.r2.z < 0 then
    if r.r0.x > r.r1.y then
      let t := 1 + r.r0.x - r.r1.y - r.r2.z
      Quat.scale ((1/2) / sq t) ⟨r.r2.y - r.r1.z, t, r.r1.x + r.r0.y, r.r0.z + r.r2.x⟩
    else
      let t := 1 - r.r0.x + r.r1.y - r.r2.z
      Quat.scale ((1/2) / sq t) ⟨r.r0.z - r.r2.x, r.r1.x + r.r0.y, t, r.r2.y + r.r1.z⟩
  else
    if r.r0.x < -r.r1.y then
      let t := 1 - r.r0.x - r.r1.y + r.r2.z
      Quat.scale ((1/2) / sq t) ⟨r.r1.x - r.r0.y, r.r0.z + r.r2.x, r.r2.y + r.r1.z, t⟩
    else
      let t := 1 + r.r0.x + r.r1.y + r.r2.z
      Quat.scale ((1/2) / sq t) ⟨t, r.r2.y - r.r1.z, r.r0.z - r.r2.x, r.r1.x - r.r0.y⟩

/-! ## the defective closed form of seed C18_G

```
w = 0.5 * np.sqrt(max(1.0 + np.trace(rotation), 0.0))
x = (rotation[2, 1] - rotation[1, 2]) / (4.0 * w)    # y, z alike
```
For a half turn (`w = 0`) this is `0/0`: a NaN quaternion.  The model writes the zero quaternion for it (Lean's `x / 0 = 0`
gives the same value), which is no unit quaternion and has the zero matrix as `rotMat`. -/
def extractG (sq : Rat → Rat) (r : Mat3) : Quat :=
  let tr := 1 + (r.r0.x + r.r1.y + r.r2.z)
  let w := (1/2) * sq (if tr > 0 then tr else 0)
  ⟨w, (r.r2.y - r.r1.z) / (4 * w), (r.r0.z - r.r2.x) / (4 * w), (r.r1.x - r.r0.y) / (4 * w)⟩

/-! ## chains -/

/-- a chain `A, m₁, m₂, …` is well labelled when every step starts in the frame the previous one ended in;
`cur` is the destination reached so far -/
def WellLabelled (cur : String) : List HM → Prop
  | [] => True
  | m :: ms => m.src = cur ∧ WellLabelled m.dst ms

instance : (cur : String) → (l : List HM) → Decidable (WellLabelled cur l)
  | _, [] => by unfold WellLabelled; infer_instance
  | cur, m :: ms => by
    unfold WellLabelled
    have := instDecidableWellLabelled m.dst ms
    infer_instance

/-- the destination a chain ends in -/
def chainDst (cur : String) : List HM → String
  | [] => cur
  | m :: ms => chainDst m.dst ms

/-! ## a registry keyed independently of the matrices it holds (audit C18-5)

`reg[key] = value` stores ANY matrix under ANY key (`__setitem__` does not compare the key with `value.src/dst`).  `KReg` keeps
the key next to the matrix; `PEval.Transform.lookup` is the special case in which every matrix sits under its own labels. -/

abbrev KReg := List ((String × String) × HM)

def lookupK : KReg → String × String → Option HM
  | [], _ => none
  | e :: es, k =>
    match lookupK es k with
    | some r => some r
    | none => if e.1 = k then some e.2 else none

/-- the registry `TransformDict(matrices)` builds -/
def KReg.ofList (d : List HM) : KReg := d.map (fun m => (m.key, m))

/-- `reg[k] = m` -/
def kSet (d : KReg) (k : String × String) (m : HM) : KReg := d ++ [(k, m)]

/-- `TransformDict.transform` on a keyed registry (same control flow as `dictTransform`) -/
def kTransform (d : KReg) (ksrc kdst : PEval.Enums.Arg) (x : TArg) : Except String TArg := do
  let k ← PEval.Enums.transformKey ksrc kdst
  if k.1 = k.2 then
    match x.malformed with
    | some e => .error e
    | none => pure x
  else
    match lookupK d (k.1, k.2) with
    | some m => m.transform x
    | none =>
      match lookupK d (k.2, k.1) with
      | some m => (inv m).transform x
      | none => .error "KeyError"

/-! ## `transform` and the registry with the extraction made explicit -/

/-- results equal as Python determines them -/
def TArg.SignEq : TArg → TArg → Prop
  | .pos p, .pos p' => p = p'
  | .pose p r, .pose p' r' => p = p' ∧ r.SignEq r'
  | .mat m, .mat m' => m.SignEq m'
  | a, b => a = b

instance (a b : TArg) : Decidable (a.SignEq b) := by
  cases a <;> cases b <;> simp only [TArg.SignEq] <;> infer_instance

/-- the argument is a rigid pose / rigid matrix (unit quaternion) -/
def TArg.Rigid : TArg → Prop
  | .pose _ r => r.normSq = 1
  | .mat m => m.rot.normSq = 1
  | _ => True

/-- outcomes equal as Python determines them: same exception, or results equal up to the sign of the quaternion -/
def ResSignEq : Except String TArg → Except String TArg → Prop
  | .ok a, .ok b => a.SignEq b
  | .error e, .error e' => e = e'
  | _, _ => False

instance (a b : Except String TArg) : Decidable (ResSignEq a b) := by
  cases a <;> cases b <;> simp only [ResSignEq] <;> infer_instance

instance (a : TArg) : Decidable a.Rigid := by
  cases a <;> simp only [TArg.Rigid] <;> infer_instance

/-- `HomogeneousMatrix.transform` as the code computes it -/
def HM.transformX (ex : Mat3 → Quat) (a : HM) : TArg → Except String TArg
  | .pos p => .ok (.pos (transformPos a p))
  | .pose p r => let pr := transformPoseX ex a (p, r); .ok (.pose pr.1 pr.2)
  | .mat m => (dotX ex m a).map .mat
  | .noArgs => .error "ValueError"
  | .tooMany => .error "ValueError"
  | .unknownKw => .error "KeyError"
  | .posAndMat => .error "ValueError"

/-- `TransformDict.transform` as the code computes it: `exI` is the extraction inside `inv()`, `exT` the one inside `transform` -/
def dictTransformX (exI exT : Mat3 → Quat) (d : List HM) (ksrc kdst : PEval.Enums.Arg) (x : TArg) : Except String TArg := do
  let k ← PEval.Enums.transformKey ksrc kdst
  if k.1 = k.2 then
    match x.malformed with
    | some e => .error e
    | none => pure x
  else
    match lookup d (k.1, k.2) with
    | some m => m.transformX exT x
    | none =>
      match lookup d (k.2, k.1) with
      | some m => (invX exI m).transformX exT x
      | none => .error "KeyError"

end PEval.Transform
