import PEval.Model.Basic
/-!
# Model of object filtering (property C10)

Transcription of `perception_eval/evaluation/matching/objects_filter.py`
(`_is_target_object`, `filter_objects`, `filter_object_results`), of
`common/threshold.py` (`get_label_threshold`), of `common/label.py`
(`Label.is_fp`, `Label.is_unknown`, `Label.contains_any`, `CommonLabel.__eq__`) and of the branch
of `common/object.py` / `common/object2d.py` (`get_distance_bev`) that decides where the
ego-relative position comes from.

## Representation

* A label (`AutowareLabel` / `TrafficLightLabel` member) is the string `"<EnumClass>.<MEMBER>"`.
  `CommonLabel.FP == label` / `CommonLabel.UNKNOWN == label` is membership in the two-element
  tuples of `CommonLabel` (`commonFP`, `commonUnknown`); the flags `isFP` / `isUnknown` are *derived*
  from the label here, as the code derives them, and the harness compares them with the real
  `Label.is_fp()` / `Label.is_unknown()` for every generated object.
* Numbers are exact rationals. The object carries `pos`, its `state.position` (x, y) in its own
  frame, and `egoPos`, the result of `transforms.transform((frame_id, BASE_LINK), position)` as
  the REAL transform computed it (the harness converts the real floats exactly); `none` in
  `egoPos` means that no matrix is registered for the frame (`KeyError`). Which of the two is used,
  or neither, is decided here exactly as in the code (`position`).
* The planar distance `math.hypot(x, y)` is irrational in general. The model carries its SQUARE
  `d2 = x² + y²` and decides `hypot < t` as `0 < t ∧ d2 < t²` and `hypot > t` as `t < 0 ∨ t² < d2`
  (`distLt`, `distGt`): exactly the real-number comparison for every sign of `t`, since
  `hypot ≥ 0` (`PEval.Filter.distLt_iff`, `distGt_iff` in `Lemmas/Filter.lean`).
* `np.mean([])` is `nan` and every comparison with `nan` is `False`: `mean [] = none`, and a
  comparison against `none` (`cmpB`) is `false`.
* Python exceptions are modelled, nothing is totalised silently:
  `TypeError` (`x < None` when `get_label_threshold` answers `None` because the label is not among
  the targets, reachable only when `target_labels` is `None` or `[]`; `pointcloud_num` is `None`;
  a 3-D object without a position), `IndexError` (per-label list shorter than the label's index),
  `AssertionError` (`DynamicObject2D.get_distance_bev` on a position-less object in BASE_LINK with
  no transforms), `AttributeError` (`DynamicObject2D` has no `pointcloud_num`), `KeyError` (no
  matrix registered). The first object that raises aborts the whole filter, as the Python loop does.

Purity: every function here is a pure function of its arguments, so "filtering never mutates its
input" holds of the model by construction; the harness checks it on the real code.
-/
namespace PEval.Filter

/-! ## data -/

structure Pos where
  x : Rat
  y : Rat
deriving DecidableEq, Repr

/-- squared planar distance: `math.hypot(x, y) ** 2` -/
def Pos.d2 (p : Pos) : Rat := p.x * p.x + p.y * p.y

/-- a `DynamicObject` / `DynamicObject2D` as the filter sees it -/
structure Obj where
  id : Nat
  /-- `semantic_label.label`, spelled `"AutowareLabel.CAR"` -/
  label : String
  /-- `semantic_label.name` (the name before conversion; `contains` does a substring test on it) -/
  name : String
  /-- `semantic_label.attributes` -/
  attributes : List String
  /-- `semantic_score` -/
  score : Rat
  /-- `pointcloud_num` (`None` allowed by the constructor) -/
  pcNum : Option Int
  uuid : Option String
  /-- `DynamicObject2D` (has no attribute `pointcloud_num`) -/
  is2d : Bool
  /-- `frame_id.value` -/
  frame : String
  /-- `state.position` in the object's own frame -/
  pos : Option Pos
  /-- `transforms.transform((frame_id, BASE_LINK), position)`; `none`: no matrix registered -/
  egoPos : Option Pos
deriving DecidableEq, Repr

/-- the keyword arguments of `filter_objects` / `_is_target_object`; `none` = `None` -/
structure Params where
  isGt : Bool
  targets : Option (List String)
  ignoreAttrs : Option (List String)
  maxX : Option (List Rat)
  maxY : Option (List Rat)
  maxDist : Option (List Rat)
  minDist : Option (List Rat)
  conf : Option (List Rat)
  minPts : Option (List Int)
  uuids : Option (List String)
  /-- `transforms is not None` -/
  hasTransforms : Bool
deriving DecidableEq, Repr

/-! ## labels (`common/label.py`) -/

/-- `CommonLabel.FP.value` -/
def commonFP : List String := ["AutowareLabel.FP", "TrafficLightLabel.FP"]
/-- `CommonLabel.UNKNOWN.value` -/
def commonUnknown : List String := ["AutowareLabel.UNKNOWN", "TrafficLightLabel.UNKNOWN"]

/-- `Label.is_fp`: `self.label == CommonLabel.FP`, i.e. `label in CommonLabel.FP.value` -/
def isFP (l : String) : Bool := commonFP.contains l
/-- `Label.is_unknown` -/
def isUnknown (l : String) : Bool := commonUnknown.contains l

/-- Python `key in name` for strings: `k` occurs as a contiguous block of `s` -/
def isInfix (k : List Char) : List Char → Bool
  | [] => k.isEmpty
  | c :: cs => k.isPrefixOf (c :: cs) || isInfix k cs

/-- `Label.contains(key)`: `key in self.name or key in self.attributes` -/
def containsKey (o : Obj) (k : String) : Bool :=
  isInfix k.toList o.name.toList || o.attributes.contains k

/-- `Label.contains_any(keys)` -/
def containsAny (o : Obj) (ks : List String) : Bool := ks.any (containsKey o)

/-! ## thresholds (`common/threshold.py`) -/

/-- `target_labels.index(label)` when `label in target_labels` -/
def indexOf? (a : String) : List String → Option Nat
  | [] => none
  | b :: bs => if b = a then some 0 else (indexOf? a bs).map (· + 1)

/-- `get_label_threshold(semantic_label, target_labels, threshold_list)` for a list that is not
`None`: `None` when `target_labels is None` or the label is not in it, `threshold_list[index]`
otherwise (`IndexError` when the list is too short). -/
def getLabelThreshold {α} (targets : Option (List String)) (label : String) (l : List α) :
    Except Err (Option α) :=
  match targets with
  | none => .ok none
  | some ts =>
    match indexOf? label ts with
    | none => .ok none
    | some i =>
      match l[i]? with
      | some v => .ok (some v)
      | none => .error "IndexError"

/-- `np.mean(list)`; `none` stands for `nan` (empty list) -/
def mean (l : List Rat) : Option Rat :=
  if l.isEmpty then none else some (l.sum / (l.length : Rat))

/-! ## `_is_target_object` -/

/-- truthiness of an optional list (`if target_labels:`) -/
def truthy {α} : Option (List α) → Bool
  | some (_ :: _) => true
  | _ => false

/-- `use_unknown_threshold = is_unknown_estimation and not is_contained_unknown` -/
def useUnknown (P : Params) (o : Obj) : Bool :=
  let isUnknownEstimation := isUnknown o.label && !P.isGt
  let isContainedUnknown :=
    match P.targets with
    | some ts => ts.any isUnknown
    | none => false
  isUnknownEstimation && !isContainedUnknown

/-- the bound the object is compared with: the special value for relaxed unknown estimates
(`0.0` / `np.mean(list)`, `none` = `nan`), else the per-label entry; a `None` entry makes the
following comparison raise `TypeError`. -/
def bound (P : Params) (u : Bool) (o : Obj) (unk : Option Rat) (l : List Rat) :
    Except Err (Option Rat) :=
  if u then .ok unk
  else
    match getLabelThreshold P.targets o.label l with
    | .error e => .error e
    | .ok (some t) => .ok (some t)
    | .ok none => .error "TypeError"

/-- a float comparison against a bound that may be `nan` -/
def cmpB (f : Rat → Bool) : Option Rat → Bool
  | some t => f t
  | none => false

def absR (x : Rat) : Rat := if x < 0 then -x else x

/-- `hypot < t` on the squared distance -/
def distLt (d2 t : Rat) : Bool := decide (0 < t) && decide (d2 < t * t)
/-- `hypot > t` on the squared distance -/
def distGt (d2 t : Rat) : Bool := decide (t < 0) || decide (t * t < d2)

/-- `if target_labels: is_target = True if use_unknown_threshold else label in target_labels` -/
def stageLabel (P : Params) (u : Bool) (o : Obj) : Bool :=
  match P.targets with
  | some (t :: ts) => if u then true else (t :: ts).contains o.label
  | _ => true

/-- `if ignore_attributes is not None: …` (evaluated even when `is_target` is already False) -/
def stageAttr (P : Params) (u : Bool) (o : Obj) (ok : Bool) : Bool :=
  match P.ignoreAttrs with
  | some ks => if u then ok else ok && !containsAny o ks
  | none => ok

/-- `if is_target and <list> is not None: is_target = is_target and <test against the bound>` -/
def stage (P : Params) (u : Bool) (o : Obj) (ok : Bool) (l? : Option (List Rat))
    (unk : List Rat → Option Rat) (test : Rat → Bool) : Except Err Bool :=
  match ok, l? with
  | true, some l =>
    match bound P u o (unk l) l with
    | .error e => .error e
    | .ok b => .ok (cmpB test b)
  | _, _ => .ok ok

/-- where the ego-relative position comes from:
```
if transforms is None and frame_id == BASE_LINK:   position, get_distance_bev()
elif position is not None and transforms is not None:   transforms.transform((frame_id, BASE_LINK), position)
else: None
```
In the first branch a missing position raises inside `get_distance_bev` (`assert` for 2-D,
`None[0]` for 3-D). `transform` returns its argument when `src == dst`. -/
def position (P : Params) (o : Obj) : Except Err (Option Pos) :=
  if !P.hasTransforms && o.frame == "base_link" then
    match o.pos with
    | some p => .ok (some p)
    | none => .error (if o.is2d then "AssertionError" else "TypeError")
  else if o.pos.isSome && P.hasTransforms then
    if o.frame == "base_link" then .ok o.pos
    else
      match o.egoPos with
      | some p => .ok (some p)
      | none => .error "KeyError"
  else .ok none

/-- `if is_target and min_point_numbers is not None and is_gt:` — threshold lookup, then the
attribute access, then `pointcloud_num >= min_point_number` -/
def stagePts (P : Params) (u : Bool) (o : Obj) (ok : Bool) : Except Err Bool :=
  match ok && P.isGt, P.minPts with
  | true, some l =>
    match (if u then (.ok (some 0) : Except Err (Option Int)) else getLabelThreshold P.targets o.label l) with
    | .error e => .error e
    | .ok n? =>
      if o.is2d then .error "AttributeError"
      else
        match o.pcNum, n? with
        | some c, some n => .ok (decide (n ≤ c))
        | _, _ => .error "TypeError"
  | _, _ => .ok ok

/-- the checks guarded by `if position_ is not None:` / `if bev_distance_ is not None:` -/
def stageRange (P : Params) (u : Bool) (o : Obj) (pos : Option Pos) (ok : Bool) : Except Err Bool :=
  match pos with
  | none => .ok ok
  | some p =>
    match stage P u o ok P.maxX mean (fun t => decide (absR p.x < t)) with
    | .error e => .error e
    | .ok ok1 =>
    match stage P u o ok1 P.maxY mean (fun t => decide (absR p.y < t)) with
    | .error e => .error e
    | .ok ok2 =>
    match stage P u o ok2 P.maxDist mean (fun t => distLt p.d2 t) with
    | .error e => .error e
    | .ok ok3 =>
    match stage P u o ok3 P.minDist mean (fun t => distGt p.d2 t) with
    | .error e => .error e
    | .ok ok4 => stagePts P u o ok4

/-- `if is_target and target_uuids is not None and is_gt: is_target = uuid in target_uuids` -/
def stageUuid (P : Params) (o : Obj) (ok : Bool) : Bool :=
  match ok && P.isGt, P.uuids with
  | true, some us =>
    match o.uuid with
    | some u => us.contains u
    | none => false
  | _, _ => ok

/-- `_is_target_object` -/
def isTarget (P : Params) (o : Obj) : Except Err Bool :=
  if isFP o.label then .ok true
  else
    let u := useUnknown P o
    let ok1 := stageAttr P u o (stageLabel P u o)
    match stage P u o ok1 P.conf (fun _ => some 0) (fun t => decide (t < o.score)) with
    | .error e => .error e
    | .ok ok2 =>
    match position P o with
    | .error e => .error e
    | .ok pos =>
    match stageRange P u o pos ok2 with
    | .error e => .error e
    | .ok ok3 => .ok (stageUuid P o ok3)

/-! ## the two filters -/

/-- `for x in xs: if f(x): out.append(x)` where `f` may raise -/
def filterE {α} (f : α → Except Err Bool) : List α → Except Err (List α)
  | [] => .ok []
  | a :: as =>
    match f a with
    | .error e => .error e
    | .ok b =>
      match filterE f as with
      | .error e => .error e
      | .ok ks => .ok (if b then a :: ks else ks)

/-- `filter_objects` -/
def filterObjects (P : Params) (os : List Obj) : Except Err (List Obj) := filterE (isTarget P) os

/-- a `DynamicObjectWithPerceptionResult` as the filter sees it -/
structure Res where
  id : Nat
  est : Obj
  gt : Option Obj
deriving DecidableEq, Repr

/-- the arguments `filter_object_results` hands to `_is_target_object` for the estimate
(`ignore_attributes`, `min_point_numbers`, `target_uuids` are NOT passed) -/
def estParams (P : Params) : Params :=
  { P with isGt := false, ignoreAttrs := none, minPts := none, uuids := none }

/-- … and for the ground truth (`confidence_threshold_list` is not passed) -/
def gtParams (P : Params) : Params := { P with isGt := true, conf := none }

/-- loop body of `filter_object_results`:
```
is_target = _is_target_object(est, is_gt=False, …)
if is_target and gt:            is_target = is_target and _is_target_object(gt, is_gt=True, …)
elif target_uuids and gt is None: is_target = False
``` -/
def resultTarget (P : Params) (r : Res) : Except Err Bool :=
  match isTarget (estParams P) r.est with
  | .error e => .error e
  | .ok e =>
    match e, r.gt with
    | true, some g => isTarget (gtParams P) g
    | false, some _ => .ok false
    | e, none => .ok (if truthy P.uuids then false else e)

/-- `filter_object_results` (`P.isGt` is irrelevant) -/
def filterResults (P : Params) (rs : List Res) : Except Err (List Res) := filterE (resultTarget P) rs

/-! ## numeric margins (protocol aid for the correspondence check, not part of the semantics)

`gaps P o` lists `|lhs − rhs|` of the numeric comparisons in which the real code's IEEE rounding
could matter: the x/y tests against `np.mean` (relaxed unknown estimates only — against a list entry
both sides are the very floats the model received, the comparison is exact) and the two distance
tests (`math.hypot`; squared units). The harness skips a case whose smallest NON-ZERO gap is below
its float-safety margin. -/

def boundVal (P : Params) (o : Obj) (unk : Option Rat) (l : List Rat) : Option Rat :=
  match bound P (useUnknown P o) o unk l with
  | .ok b => b
  | .error _ => none

def gapsOf (P : Params) (o : Obj) (l? : Option (List Rat)) (g : Rat → Rat) : List Rat :=
  match l? with
  | some l =>
    match boundVal P o (mean l) l with
    | some t => [absR (g t)]
    | none => []
  | none => []

def gaps (P : Params) (o : Obj) : List Rat :=
  match position P o with
  | .ok (some p) =>
    (if useUnknown P o then
      gapsOf P o P.maxX (fun t => absR p.x - t) ++ gapsOf P o P.maxY (fun t => absR p.y - t) else []) ++
    gapsOf P o P.maxDist (fun t => p.d2 - t * t) ++ gapsOf P o P.minDist (fun t => p.d2 - t * t)
  | _ => []

/-- smallest non-zero element -/
def minNonzero (l : List Rat) : Option Rat :=
  l.foldl (fun acc g => if g == 0 then acc else match acc with
    | none => some g
    | some m => some (if g < m then g else m)) none

/-! ## ego pose (yaw + translation), used by the frame-invariance theorem

`(c, s)` is the unit complex number of the ego yaw (DESIGN §4.2), `(tx, ty)` the ego position in the
map: `toMap` is the base_link→map matrix restricted to the plane, `toEgo` its inverse. -/

structure Pose where
  c : Rat
  s : Rat
  tx : Rat
  ty : Rat
deriving DecidableEq, Repr

def toMap (e : Pose) (p : Pos) : Pos := ⟨e.c * p.x - e.s * p.y + e.tx, e.s * p.x + e.c * p.y + e.ty⟩
def toEgo (e : Pose) (p : Pos) : Pos :=
  ⟨e.c * (p.x - e.tx) + e.s * (p.y - e.ty), -e.s * (p.x - e.tx) + e.c * (p.y - e.ty)⟩

/-- the map-frame rendering of a base_link object under ego pose `e`, as the dataset loader and the
real `TransformDict` produce it -/
def renderMap (e : Pose) (o : Obj) : Obj :=
  { o with frame := "map", pos := o.pos.map (toMap e), egoPos := (o.pos.map (toMap e)).map (toEgo e) }

end PEval.Filter
