import PEval.Model.Matching
import PEval.Model.PassFail
import PEval.Model.AP
/-!
# Composition of the three stage models of the detection frame evaluation

Anchors: `manager/perception_evaluation_manager.py: PerceptionEvaluationManager.add_frame_result`
(`_filter_objects` -> `get_object_results`, then `PerceptionFrameResult(...)`) and
`evaluation/result/perception_frame_result.py: PerceptionFrameResult.evaluate_frame`
(critical filter on the object results and on the ground truths, `divide_objects` /
`divide_objects_to_num` with the CRITICAL filter's target labels, `MetricsScore.evaluate_detection`
= one `Map` per configured (mode, threshold list) over the METRICS config's target labels, then
`PassFailResult.evaluate`).

The three stages are modelled separately (`Matching`, `PassFail`, `AP`); each later stage states as a
hypothesis what the earlier stage guarantees.  This file only *translates*: the matcher's scene and
result (`Matching.Scene`, `Matching.Res` = positions in the lists handed to the matcher) into the
`PassFail.Frame` and the `List AP.Res` the later stages read, given per object / per pair the data
those stages read and the matcher does not:

* per estimate (position `i`): harness id, label in the AP model's encoding, confidence, critical flag;
* per ground truth (position `j`): harness id, label (AP encoding), critical flag, `__eq__` class;
* per pair `(i, j)`: `plane_distance.value` (pass/fail score), `get_matching(mode).value` for the
  four modes (AP score), `TPMetricsAph.get_value` (heading weight).

Both lists handed to the matcher are the manager-filtered ones (the manager filter is property C10's
subject and is applied by the caller).  3-D detection / FP validation only (`is_detection_2d = False`;
the 2-D pass/fail branch is not modelled by `PassFail`).  In FP validation `detection_config` is
`None`: the frame has no `Map` (`maps = []`).
-/
namespace PEval.Pipeline
open PEval

/-- what the later stages read of an estimate -/
structure EstAttr where
  id : Nat
  /-- `semantic_label.label` in the AP model's encoding (`0` unknown, `1` false_positive) -/
  label : AP.Label
  /-- `semantic_score` -/
  conf : Rat
  /-- passes the critical-object filter (`is_gt=False`) -/
  crit : Bool
  deriving DecidableEq, Repr

/-- what the later stages read of a ground truth -/
structure GtAttr where
  id : Nat
  label : AP.Label
  /-- passes the critical-object filter (`is_gt=True`) -/
  crit : Bool
  /-- class of `DynamicObject.__eq__` -/
  eqKey : Nat
  deriving DecidableEq, Repr

/-- one `Map(...)` of `evaluate_detection`: matching mode and its per-label threshold list -/
structure MapCfg where
  mode : AP.Mode
  thrs : List Rat

/-- one frame as `add_frame_result` sees it after the manager filter -/
structure Frame where
  /-- matcher configuration: label policy, mode (CENTERDISTANCE in the manager), target labels and
  `max_matchable_radii`, task -/
  cfg : Matching.Cfg
  /-- labels / frame ids of the two lists and the real score-table values -/
  scene : Matching.Scene
  est : Nat → EstAttr
  gt : Nat → GtAttr
  /-- `PerceptionPassFailConfig.target_labels` / `.matching_threshold_list` -/
  pfTargets : List AP.Label
  pfThrs : Option (List Rat)
  /-- `plane_distance.value` of the pair -/
  pfScore : Nat → Nat → Option Rat
  /-- `get_matching(mode).value` of the pair -/
  apScore : AP.Mode → Nat → Nat → Option Rat
  /-- `TPMetricsAph.get_value` of the pair -/
  hw : Nat → Nat → Rat
  /-- `critical_object_filter_config.target_labels` (keys of `divide_objects`) -/
  critTargets : List AP.Label
  /-- `metrics_config.detection_config.target_labels` (labels `Map` iterates over) -/
  mapTargets : List AP.Label
  /-- the `Map`s of `evaluate_detection`, in the order they are appended to `metrics_score.maps` -/
  maps : List MapCfg

/-! ## translation -/

def apPolicy : Matching.Policy → AP.Policy
  | .default => .default
  | .allowUnknown => .allowUnknown
  | .allowAny => .allowAny

/-- ground truth `j` as the pass/fail accounting reads it -/
def toGT (f : Frame) (j : Nat) : PassFail.GT :=
  { id := (f.gt j).id, isFP := (f.gt j).label == AP.fpLabel, crit := (f.gt j).crit, eqKey := (f.gt j).eqKey }

/-- `frame_ground_truth.objects` handed to `PerceptionFrameResult` (positions `0 … nG-1`) -/
def pfGts (f : Frame) : List PassFail.GT := (List.range f.scene.gts.length).map (toGT f)

/-- `get_label_threshold(gt.semantic_label, pass_fail.target_labels, matching_threshold_list)` -/
def pfThrOf (f : Frame) (j : Nat) : Except Err (Option Rat) :=
  AP.getLabelThreshold (f.gt j).label f.pfTargets f.pfThrs

def pfThr (f : Frame) (j : Nat) : Option Rat :=
  match pfThrOf f j with
  | .ok t => t
  | .error _ => none

/-- `is_label_correct`: `matching_label_policy.is_matchable(estimated_object, ground_truth_object)` on
the very objects the matcher saw -/
def labelOk (f : Frame) (i j : Nat) : Bool :=
  match f.scene.ests[i]?, f.scene.gts[j]? with
  | some e, some g => Matching.isMatchable f.cfg.policy e g
  | _, _ => false

/-- one matcher result as the pass/fail accounting reads it -/
def toPFRes (f : Frame) (r : Matching.Res) : PassFail.Res :=
  match r.2 with
  | none =>
    { est := (f.est r.1).id, estCrit := (f.est r.1).crit, gt := none, labelOk := false,
      thr := none, score := none }
  | some j =>
    { est := (f.est r.1).id, estCrit := (f.est r.1).crit, gt := some (toGT f j),
      labelOk := labelOk f r.1 j, thr := pfThr f j, score := f.pfScore r.1 j }

/-- (a) the PassFail model's frame input -/
def pfFrame (f : Frame) (rs : List Matching.Res) : PassFail.Frame :=
  { results := rs.map (toPFRes f), gts := pfGts f }

def toAPGt (f : Frame) (j : Nat) : AP.Gt := { id := (f.gt j).id, label := (f.gt j).label }

/-- one matcher result as the metrics read it under matching mode `m`; a 3-D result without ground
truth has matching methods whose `value` is `None` -/
def toAPRes (f : Frame) (m : AP.Mode) (r : Matching.Res) : AP.Res :=
  { id := (f.est r.1).id, conf := (f.est r.1).conf, label := (f.est r.1).label,
    gt := r.2.map (toAPGt f),
    score := .val (match r.2 with
      | some j => f.apScore m r.1 j
      | none => none),
    hw := (match r.2 with
      | some j => f.hw r.1 j
      | none => 0),
    policy := apPolicy f.cfg.policy }

/-- `filter_object_results` with the critical parameters, on matcher results -/
def survives (f : Frame) (r : Matching.Res) : Bool :=
  (f.est r.1).crit && (match r.2 with
    | none => true
    | some j => (f.gt j).crit)

/-- `self.object_results` after the critical filter -/
def critResults (f : Frame) (rs : List Matching.Res) : List Matching.Res := rs.filter (survives f)

/-- positions of the ground truths kept by the critical filter -/
def critGtIdx (f : Frame) : List Nat := (List.range f.scene.gts.length).filter (fun j => (f.gt j).crit)

/-- (b) the AP model's result list (mode `m`) and ground-truth list of the frame -/
def apResults (f : Frame) (m : AP.Mode) (rs : List Matching.Res) : List AP.Res :=
  (critResults f rs).map (toAPRes f m)

def apGts (f : Frame) : List AP.Gt := (critGtIdx f).map (toAPGt f)

/-! ## the frame-level `Map` with the two target-label lists of `evaluate_frame` -/

/-- `divide_objects(object_results, critical.target_labels)`,
`divide_objects_to_num(ground truths, critical.target_labels)`, then
`Map(…, target_labels = detection_config.target_labels, …)`.  With both lists equal this is
`AP.frameMap` (`frameMap2_same`). -/
def frameMap2 (m : AP.Mode) (is2d : Bool) (divTargets mapTargets : List AP.Label) (thrs : List Rat)
    (rs : List AP.Res) (gtLabels : List AP.Label) : Except Err AP.MapOut :=
  AP.mapOf m is2d mapTargets thrs
    ((AP.divideObjects (some divTargets) rs).map (fun kv => (kv.1, [kv.2])))
    (AP.divideObjectsToNum (some divTargets) gtLabels)

theorem frameMap2_same (m : AP.Mode) (is2d : Bool) (T : List AP.Label) (thrs : List Rat)
    (rs : List AP.Res) (gtLabels : List AP.Label) :
    frameMap2 m is2d T T thrs rs gtLabels = AP.frameMap m is2d T thrs rs gtLabels := rfl

/-- the `Map` of one configured (mode, thresholds) on the matcher's results -/
def mapFor (f : Frame) (rs : List Matching.Res) (mc : MapCfg) : Except Err AP.MapOut :=
  frameMap2 mc.mode false f.critTargets f.mapTargets mc.thrs (apResults f mc.mode rs)
    ((apGts f).map (·.label))

/-- `evaluate_detection`: the `Map`s in order; the first exception aborts the frame -/
def mapsFor (f : Frame) (rs : List Matching.Res) : List MapCfg → Except Err (List AP.MapOut)
  | [] => .ok []
  | mc :: rest =>
    match mapFor f rs mc with
    | .error e => .error e
    | .ok o =>
      match mapsFor f rs rest with
      | .error e => .error e
      | .ok os => .ok (o :: os)

/-- first exception of `get_label_threshold` in `get_positive_objects` (short threshold list;
unreachable through `PerceptionPassFailConfig`, which checks the length) -/
def pfThrError (f : Frame) (rs : List Matching.Res) : Option Err :=
  rs.findSome? fun r =>
    match r.2 with
    | none => none
    | some j =>
      match pfThrOf f j with
      | .error e => some e
      | .ok _ => none

/-! ## the whole frame -/

structure Out where
  /-- `get_object_results(...)`: what `_filter_objects` returns -/
  matched : List Matching.Res
  /-- `pass_fail_result` (+ the filtered `object_results` / `frame_ground_truth.objects`) -/
  pf : PassFail.PassFail
  /-- `metrics_score.maps` -/
  maps : List AP.MapOut

/-- `add_frame_result` → `evaluate_frame`: matcher, critical filter, per-label metrics, pass/fail -/
def detectFrame (f : Frame) : Except Err Out :=
  match Matching.getObjectResults f.cfg f.scene with
  | .error e => .error e
  | .ok rs =>
    match mapsFor f rs f.maps with
    | .error e => .error e
    | .ok maps =>
      match pfThrError f (critResults f rs) with
      | some e => .error e
      | none => .ok { matched := rs, pf := PassFail.evaluateFrame (pfFrame f rs), maps := maps }

/-! ## coherence of the two label encodings (checked by the driver on every frame)

The matcher model reads labels as the enum's string values, the AP model as naturals.  The harness
supplies both; `labelsCoherent` says the two encodings agree on everything the models test: equality
of an estimate's and a ground truth's label, "unknown", "false_positive". -/

def labelsCoherent (f : Frame) : Bool :=
  (List.range f.scene.ests.length).all fun i =>
    match f.scene.ests[i]? with
    | none => true
    | some e =>
      (Matching.isUnknown e.label == ((f.est i).label == AP.unknownLabel)) &&
      (List.range f.scene.gts.length).all fun j =>
        match f.scene.gts[j]? with
        | none => true
        | some g =>
          (Matching.isFp g.label == ((f.gt j).label == AP.fpLabel)) &&
          ((e.label == g.label) == ((f.est i).label == (f.gt j).label))

/-! ## which label keys the pass/fail threshold (appended: the label choice made explicit)

`get_positive_objects` skips a result without ground truth before any lookup and otherwise looks the threshold
up under `object_result.ground_truth_object.semantic_label`; `get_negative_objects` looks it up under the ground
truth's label if there is one, else under the ESTIMATE's label (`objects_filter.py`:
`ground_truth_object.semantic_label if ground_truth_object is not None else estimated_object.semantic_label`).
`ThrKey` names the choice for a PAIRED result; `detectFrameWith .gtLabel` is `detectFrame` (the code),
`detectFrameWith .estLabel` the defective variant keyed on the estimate's label (seeded changes C03_B / C01_A). -/

inductive ThrKey where
  | gtLabel | estLabel
  deriving DecidableEq, Repr

/-- the label handed to `get_label_threshold` for the pair (estimate `i`, ground truth `j`) -/
def keyLabelOf (k : ThrKey) (f : Frame) (i j : Nat) : AP.Label :=
  match k with
  | .gtLabel => (f.gt j).label
  | .estLabel => (f.est i).label

def pfThrOfWith (k : ThrKey) (f : Frame) (i j : Nat) : Except Err (Option Rat) :=
  AP.getLabelThreshold (keyLabelOf k f i j) f.pfTargets f.pfThrs

def pfThrWith (k : ThrKey) (f : Frame) (i j : Nat) : Option Rat :=
  match pfThrOfWith k f i j with
  | .ok t => t
  | .error _ => none

def toPFResWith (k : ThrKey) (f : Frame) (r : Matching.Res) : PassFail.Res :=
  match r.2 with
  | none =>
    { est := (f.est r.1).id, estCrit := (f.est r.1).crit, gt := none, labelOk := false,
      thr := none, score := none }
  | some j =>
    { est := (f.est r.1).id, estCrit := (f.est r.1).crit, gt := some (toGT f j),
      labelOk := labelOk f r.1 j, thr := pfThrWith k f r.1 j, score := f.pfScore r.1 j }

def pfFrameWith (k : ThrKey) (f : Frame) (rs : List Matching.Res) : PassFail.Frame :=
  { results := rs.map (toPFResWith k f), gts := pfGts f }

def pfThrErrorWith (k : ThrKey) (f : Frame) (rs : List Matching.Res) : Option Err :=
  rs.findSome? fun r =>
    match r.2 with
    | none => none
    | some j =>
      match pfThrOfWith k f r.1 j with
      | .error e => some e
      | .ok _ => none

/-- `detectFrame` with the threshold of a paired result keyed as `k` says -/
def detectFrameWith (k : ThrKey) (f : Frame) : Except Err Out :=
  match Matching.getObjectResults f.cfg f.scene with
  | .error e => .error e
  | .ok rs =>
    match mapsFor f rs f.maps with
    | .error e => .error e
    | .ok maps =>
      match pfThrErrorWith k f (critResults f rs) with
      | some e => .error e
      | none => .ok { matched := rs, pf := PassFail.evaluateFrame (pfFrameWith k f rs), maps := maps }

/-- the lookups of `get_negative_objects`' first loop: under the ground truth's label if there is one, else
under the estimate's label -/
def negKeyLabel (f : Frame) (r : Matching.Res) : AP.Label :=
  match r.2 with
  | some j => (f.gt j).label
  | none => (f.est r.1).label

/-- the result as the first loop of `get_negative_objects` reads it: `thr` is looked up for EVERY result,
under `negKeyLabel` -/
def toPFResNeg (f : Frame) (r : Matching.Res) : PassFail.Res :=
  { toPFRes f r with
    thr := (match AP.getLabelThreshold (negKeyLabel f r) f.pfTargets f.pfThrs with
      | .ok t => t
      | .error _ => none) }

end PEval.Pipeline
