import PEval.Model.Basic
/-!
# Geometry model (C06): matching scores of `evaluation/matching/object_matching.py`

Numbers are exact rationals. Distances are carried SQUARED (DESIGN 4.1). A planar rotation is its
unit complex number `(c, s)`, `c*c + s*s = 1` (DESIGN 4.2); the unit condition is a hypothesis of the
theorems (`Rot2.IsUnit`), not part of the data.

Anchors:
* `Shape.__calculate_corners` (common/shape.py)              -> `localCorners`
* `DynamicObject.get_footprint` (common/object.py)           -> `footprint`
* `get_area_bev`, `get_volume`                               -> `areaBev`, `volume`
* `distance_objects` / `distance_points` / `_bev`            -> `centerDist2`, `centerDistBev2`
* `Roi` (common/object2d.py)                                 -> `Roi`, `Roi.center`, `Roi.corners`, `Roi.area`
* `IOU2dMatching`, `IOU3dMatching`, `_get_height_intersection`, `_get_volume_intersection`
                                                             -> `iou`, `iouCode`, `iou3d`, `iou3dCode`, `heightInter`
* `_get_area_intersection` = shapely `intersection(...).area` : EXTERNAL CONTRACT (`InterOK` in the
  lemma files); `clipConvex` + `polyArea` is the exact executable reference it is cross-checked with.
* `PlaneDistanceMatching` + `get_point_left_right_index`     -> `planeDist2`
-/
namespace PEval.Geometry

/-! ## rational helpers (own `if`-based max/min/abs so that no instance choice matters) -/

def rmax (a b : Rat) : Rat := if a ≤ b then b else a
def rmin (a b : Rat) : Rat := if a ≤ b then a else b
def rabs (a : Rat) : Rat := if 0 ≤ a then a else -a

/-! ## vectors, rotations, rigid motions -/

structure V2 where
  x : Rat
  y : Rat
deriving DecidableEq, Repr

structure V3 where
  x : Rat
  y : Rat
  z : Rat
deriving DecidableEq, Repr

def V2.zero : V2 := ⟨0, 0⟩
def V2.add (p q : V2) : V2 := ⟨p.x + q.x, p.y + q.y⟩
def V2.sub (p q : V2) : V2 := ⟨p.x - q.x, p.y - q.y⟩
/-- squared distance from the origin (the ego in BASE_LINK) -/
def V2.norm2 (p : V2) : Rat := p.x * p.x + p.y * p.y
/-- squared planar distance (`distance_points_bev` squared) -/
def dist2 (p q : V2) : Rat := (p.x - q.x) * (p.x - q.x) + (p.y - q.y) * (p.y - q.y)
/-- z-component of the cross product of two position vectors (`get_point_left_right_index`) -/
def cross0 (p q : V2) : Rat := p.x * q.y - p.y * q.x
/-- orientation of `p` relative to the directed line `a → b` (positive = left) -/
def cross (a b p : V2) : Rat := (b.x - a.x) * (p.y - a.y) - (b.y - a.y) * (p.x - a.x)

/-- planar rotation as a complex number `c + i s` -/
structure Rot2 where
  c : Rat
  s : Rat
deriving DecidableEq, Repr

def Rot2.IsUnit (r : Rot2) : Prop := r.c * r.c + r.s * r.s = 1
def Rot2.id : Rot2 := ⟨1, 0⟩
def Rot2.apply (r : Rot2) (p : V2) : V2 := ⟨r.c * p.x - r.s * p.y, r.s * p.x + r.c * p.y⟩
/-- composition: first `q`, then `r` -/
def Rot2.mul (r q : Rot2) : Rot2 := ⟨r.c * q.c - r.s * q.s, r.s * q.c + r.c * q.s⟩

/-- rigid motion of the scene: yaw rotation about the ego origin, then a translation -/
structure Motion where
  rot : Rot2
  t : V3
deriving Repr

def Motion.apply2 (m : Motion) (p : V2) : V2 := (m.rot.apply p).add ⟨m.t.x, m.t.y⟩
def Motion.apply3 (m : Motion) (p : V3) : V3 :=
  let q := m.apply2 ⟨p.x, p.y⟩
  ⟨q.x, q.y, p.z + m.t.z⟩
def Motion.rotation (r : Rot2) : Motion := ⟨r, ⟨0, 0, 0⟩⟩

/-! ## boxes -/

/-- 3-D box: `size = (w, l, h)` = `Shape.size` (width along the local y, length along the local x) -/
structure Box where
  center : V3
  rot : Rot2
  w : Rat
  l : Rat
  h : Rat
deriving Repr

def Box.PosSize (b : Box) : Prop := 0 < b.w ∧ 0 < b.l ∧ 0 < b.h

def Box.center2 (b : Box) : V2 := ⟨b.center.x, b.center.y⟩

/-- `Shape.__calculate_corners`: (l,w)/2, (−l,w)/2, (−l,−w)/2, (l,−w)/2 in the object's frame -/
def localCorners (b : Box) : List V2 :=
  [⟨b.l / 2, b.w / 2⟩, ⟨-b.l / 2, b.w / 2⟩, ⟨-b.l / 2, -b.w / 2⟩, ⟨b.l / 2, -b.w / 2⟩]

/-- `get_footprint(scale = 1)`: rotate every local corner by the orientation, add the BEV position -/
def footprint (b : Box) : List V2 :=
  (localCorners b).map (fun p => (b.rot.apply p).add b.center2)

/-- the box after a common rigid motion of the scene -/
def Box.move (m : Motion) (b : Box) : Box :=
  { center := m.apply3 b.center, rot := m.rot.mul b.rot, w := b.w, l := b.l, h := b.h }

/-- `distance_objects` for 3-D objects = `distance_points` (3-D Euclidean), squared -/
def centerDist2 (a b : Box) : Rat :=
  (a.center.x - b.center.x) * (a.center.x - b.center.x)
    + (a.center.y - b.center.y) * (a.center.y - b.center.y)
    + (a.center.z - b.center.z) * (a.center.z - b.center.z)

/-- `distance_objects_bev`, squared -/
def centerDistBev2 (a b : Box) : Rat := dist2 a.center2 b.center2

/-! ## polygon area (shoelace, as a fan from the first vertex) and exact convex clipping -/

/-- twice the signed area of the fan `p0, p(i), p(i+1)` over the vertex list `ps` -/
def fan2 (p0 : V2) : List V2 → Rat
  | p :: q :: rest => cross p0 p q + fan2 p0 (q :: rest)
  | _ => 0

/-- twice the signed area (shoelace) of a polygon given by its vertices (not closed) -/
def signed2 : List V2 → Rat
  | [] => 0
  | p0 :: rest => fan2 p0 rest

/-- polygon area = |shoelace| / 2 (what shapely's `.area` is for a simple ring) -/
def polyArea (ps : List V2) : Rat := rabs (signed2 ps) / 2

/-- intersection of the segment `p → q` with the line `a → b`, given the two orientations `dp`, `dq` -/
def isect (p q : V2) (dp dq : Rat) : V2 :=
  let t := dp / (dp - dq)
  ⟨p.x + t * (q.x - p.x), p.y + t * (q.y - p.y)⟩

/-- one Sutherland–Hodgman step: state = (previous vertex, output in reverse) -/
def clipStep (a b : V2) (st : V2 × List V2) (cur : V2) : V2 × List V2 :=
  let prev := st.1
  let out := st.2
  let dc := cross a b cur
  let dp := cross a b prev
  if 0 ≤ dc then
    if dp < 0 then (cur, cur :: isect prev cur dp dc :: out) else (cur, cur :: out)
  else
    if 0 ≤ dp then (cur, isect prev cur dp dc :: out) else (cur, out)

/-- clip `poly` against the closed half-plane left of `a → b` -/
def clipEdge (a b : V2) (poly : List V2) : List V2 :=
  match poly.getLast? with
  | none => []
  | some last => (poly.foldl (clipStep a b) (last, [])).2.reverse

/-- directed edges of a polygon: (p0,p1), (p1,p2), …, (p(n−1),p0) -/
def edges (ps : List V2) : List (V2 × V2) :=
  match ps with
  | [] => []
  | p0 :: rest => ps.zip (rest ++ [p0])

/-- counter-clockwise version of a polygon -/
def ccw (ps : List V2) : List V2 := if signed2 ps < 0 then ps.reverse else ps

/-- EXACT intersection polygon of a polygon `subject` with a CONVEX polygon `clip`
(Sutherland–Hodgman; either orientation of `clip`) -/
def clipConvex (subject clip : List V2) : List V2 :=
  (edges (ccw clip)).foldl (fun poly e => clipEdge e.1 e.2 poly) subject

/-- exact area of the intersection of two convex polygons (a polygon of zero area, e.g. a zero-size
box, is not a valid clip polygon: the intersection area is then 0) -/
def interArea (p q : List V2) : Rat :=
  if signed2 p = 0 ∨ signed2 q = 0 then 0 else polyArea (clipConvex p q)

/-! ## IoU as the code composes it from an intersection area `I` -/

/-- `I / (A1 + A2 − I)`: no clamping, no special case in the code -/
def iou (I A1 A2 : Rat) : Rat := I / (A1 + A2 - I)

/-- Python float division: a zero union raises `ZeroDivisionError` -/
def iouCode (I A1 A2 : Rat) : Except Err Rat :=
  if A1 + A2 - I = 0 then .error "ZeroDivisionError" else .ok (iou I A1 A2)

/-- `_get_height_intersection`: `max(0, min(tops) − max(bottoms))` -/
def heightInter (z1 h1 z2 h2 : Rat) : Rat :=
  rmax 0 (rmin (z1 + h1 / 2) (z2 + h2 / 2) - rmax (z1 - h1 / 2) (z2 - h2 / 2))

/-- 3-D IoU: volumes `A·H`, intersection `I·h` -/
def iou3d (I A1 A2 H1 H2 h : Rat) : Rat := iou (I * h) (A1 * H1) (A2 * H2)

def iou3dCode (I A1 A2 H1 H2 h : Rat) : Except Err Rat := iouCode (I * h) (A1 * H1) (A2 * H2)

/-- `get_area_bev` = area of the local footprint polygon (shoelace of `Shape.footprint`) -/
def areaBev (b : Box) : Rat := polyArea (localCorners b)

/-- `get_volume` -/
def volume (b : Box) : Rat := areaBev b * b.h

def boxHeightInter (a b : Box) : Rat := heightInter a.center.z a.h b.center.z b.h

/-- BEV IoU of two boxes for a given intersection area `I` of their footprints -/
def boxIou2d (I : Rat) (a b : Box) : Rat := iou I (areaBev a) (areaBev b)
def boxIou3d (I : Rat) (a b : Box) : Rat := iou3d I (areaBev a) (areaBev b) a.h b.h (boxHeightInter a b)

/-! ## ROIs (2-D objects) -/

/-- `Roi((xmin, ymin, width, height))`, integers -/
structure Roi where
  x : Int
  y : Int
  w : Int
  h : Int
deriving DecidableEq, Repr

def Roi.PosSize (r : Roi) : Prop := 0 < r.w ∧ 0 < r.h

/-- `center = (offset_x + width // 2, offset_y + height // 2)`; `Int` division by the positive 2
is floor division, as Python's `//` -/
def Roi.center (r : Roi) : Int × Int := (r.x + r.w / 2, r.y + r.h / 2)

def Roi.area (r : Roi) : Int := r.w * r.h

/-- top-left, top-right, bottom-right, bottom-left -/
def Roi.corners (r : Roi) : List V2 :=
  [⟨r.x, r.y⟩, ⟨r.x + r.w, r.y⟩, ⟨r.x + r.w, r.y + r.h⟩, ⟨r.x, r.y + r.h⟩]

def Roi.shift (dx dy : Int) (r : Roi) : Roi := { r with x := r.x + dx, y := r.y + dy }

/-- `distance_objects` for 2-D objects: norm of the difference of the (integer) centers, squared -/
def roiCenterDist2 (a b : Roi) : Int :=
  (a.center.1 - b.center.1) * (a.center.1 - b.center.1)
    + (a.center.2 - b.center.2) * (a.center.2 - b.center.2)

/-- axis-aligned rectangle over the rationals -/
structure Rect where
  x : Rat
  y : Rat
  w : Rat
  h : Rat
deriving DecidableEq, Repr

def Rect.PosSize (r : Rect) : Prop := 0 < r.w ∧ 0 < r.h
def Rect.area (r : Rect) : Rat := r.w * r.h
def Rect.corners (r : Rect) : List V2 :=
  [⟨r.x, r.y⟩, ⟨r.x + r.w, r.y⟩, ⟨r.x + r.w, r.y + r.h⟩, ⟨r.x, r.y + r.h⟩]

/-- length of the overlap of the intervals `[a, a+la]` and `[b, b+lb]` -/
def overlap (a la b lb : Rat) : Rat := rmax 0 (rmin (a + la) (b + lb) - rmax a b)

/-- closed form of the intersection area of two axis-aligned rectangles -/
def rectInter (r1 r2 : Rect) : Rat := overlap r1.x r1.w r2.x r2.w * overlap r1.y r1.h r2.y r2.h

/-- the two rectangles have disjoint interiors -/
def Rect.Disjoint (r1 r2 : Rect) : Prop :=
  r1.x + r1.w ≤ r2.x ∨ r2.x + r2.w ≤ r1.x ∨ r1.y + r1.h ≤ r2.y ∨ r2.y + r2.h ≤ r1.y

def rectIoU (r1 r2 : Rect) : Rat := iou (rectInter r1 r2) r1.area r2.area

def Roi.toRect (r : Roi) : Rect := ⟨r.x, r.y, r.w, r.h⟩

def roiInter (a b : Roi) : Rat := rectInter a.toRect b.toRect
def roiIoU (a b : Roi) : Rat := iou (roiInter a b) a.area b.area
def roiIoUCode (a b : Roi) : Except Err Rat := iouCode (roiInter a b) a.area b.area
def Roi.Disjoint (a b : Roi) : Prop :=
  a.x + a.w ≤ b.x ∨ b.x + b.w ≤ a.x ∨ a.y + a.h ≤ b.y ∨ b.y + b.h ≤ a.y

/-! ## plane distance -/

/-- insert index `i` into an index list sorted by `key`, AFTER every index whose key is ≤ its key -/
def insertBy (key : Nat → Rat) (i : Nat) : List Nat → List Nat
  | [] => [i]
  | j :: js => if key i < key j then i :: j :: js else j :: insertBy key i js

/-- stable argsort (`np.argsort`; for 4 elements numpy's default sort is an insertion sort) -/
def argsort (keys : List Rat) : List Nat :=
  (List.range keys.length).foldl (fun acc i => insertBy (fun k => keys.getD k 0) i acc) []

/-- `get_point_left_right_index`: `(0,1)` if the cross product is negative, else `(1,0)` -/
def leftRightIndex (p0 p1 : V2) : Nat × Nat := if cross0 p0 p1 < 0 then (0, 1) else (1, 0)

/-- the selected side: indices of the two GT corners nearest to the ego origin (in sort order) -/
def nearestTwo (gt : List V2) : Nat × Nat :=
  let idx := argsort (gt.map V2.norm2)
  (idx.getD 0 0, idx.getD 1 0)

/-- plane distance (SQUARED) from corner lists: sort GT corners by distance from the origin, take the
two nearest, name them left/right by the code's rule, pair with the estimate corners of the same
indices, mean of the two squared distances (the code returns `round(sqrt(.), 10)`) -/
def planeDist2Of (est gt : List V2) : Rat :=
  let ij := nearestTwo gt
  let gtPlane := [gt.getD ij.1 V2.zero, gt.getD ij.2 V2.zero]
  let estPlane := [est.getD ij.1 V2.zero, est.getD ij.2 V2.zero]
  let lr := leftRightIndex (gtPlane.getD 0 V2.zero) (gtPlane.getD 1 V2.zero)
  let dl2 := dist2 (estPlane.getD lr.1 V2.zero) (gtPlane.getD lr.1 V2.zero)
  let dr2 := dist2 (estPlane.getD lr.2 V2.zero) (gtPlane.getD lr.2 V2.zero)
  (dl2 + dr2) / 2

/-- `PlaneDistanceMatching` for two BOUNDING_BOX objects in BASE_LINK, squared -/
def planeDist2 (est gt : Box) : Rat := planeDist2Of (footprint est) (footprint gt)

/-- sorted squared distances of the GT corners (for the harness: margin of the corner choice) -/
def sortedKeys (gt : Box) : List Rat :=
  let keys := (footprint gt).map V2.norm2
  (argsort keys).map (fun i => keys.getD i 0)

end PEval.Geometry

namespace PEval.Geometry

/-! ## extension (C06 strengthening): symmetrised exact intersection area, a defective clipper variant -/

/-- the exact clipper evaluated in BOTH argument orders, the smaller value.  The two orders give different
vertex lists of the same region; the check compares `interArea p q` with `interArea q p` exactly on every
generated pair (they agree), so on every checked pair `interSym p q = interArea p q`.  The full area
contract (`0 ≤ I ≤ min(A1, A2)`, symmetric) is PROVED for this function. -/
def interSym (p q : List V2) : Rat := rmin (interArea p q) (interArea q p)

/-- DEFECTIVE variant of `clipStep` (for the non-vacuity examples only): the inside test of the previous
vertex has the wrong sign in the branch "current vertex inside", so crossing points are computed for edges
that do not cross the line (extrapolated beyond the edge) -/
def clipStepBad (a b : V2) (st : V2 × List V2) (cur : V2) : V2 × List V2 :=
  let prev := st.1
  let out := st.2
  let dc := cross a b cur
  let dp := cross a b prev
  if 0 ≤ dc then
    if 0 < dp then (cur, cur :: isect prev cur dp dc :: out) else (cur, cur :: out)
  else
    if 0 ≤ dp then (cur, isect prev cur dp dc :: out) else (cur, out)

def clipEdgeBad (a b : V2) (poly : List V2) : List V2 :=
  match poly.getLast? with
  | none => []
  | some last => (poly.foldl (clipStepBad a b) (last, [])).2.reverse

def clipConvexBad (subject clip : List V2) : List V2 :=
  (edges (ccw clip)).foldl (fun poly e => clipEdgeBad e.1 e.2 poly) subject

def interAreaBad (p q : List V2) : Rat :=
  if signed2 p = 0 ∨ signed2 q = 0 then 0 else polyArea (clipConvexBad p q)

end PEval.Geometry
