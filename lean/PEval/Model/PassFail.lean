import PEval.Model.Basic
/-!
# Model of the per-frame pass/fail accounting (property C03)

Anchors (all under `perception_eval/perception_eval/evaluation`):

* `result/object_result.py`        `DynamicObjectWithPerceptionResult.get_status / is_result_correct`
* `matching/objects_filter.py`     `get_positive_objects`, `get_negative_objects`,
                                   `filter_object_results`, `filter_objects` (as used by the critical filter)
* `result/perception_pass_fail_result.py`  `PassFailResult.evaluate / get_num_success / get_num_fail`
* `result/perception_frame_result.py`      `PerceptionFrameResult.evaluate_frame`

Conventions (DESIGN section 4): objects are harness-assigned `Nat` ids.  What the accounting code reads
of an object is carried as data next to the id:

* the *critical predicate* `_is_target_object(obj, **critical_object_filter_config.filtering_params)`
  is an abstract Boolean per object (`crit`), computed by the harness from the geometry
  (property C10 models the predicate itself) - every theorem therefore holds for ANY critical region;
* `DynamicObject.__eq__` (unix time, label, position, orientation) is the equivalence
  "same `eqKey`"; Python's `x in list` is "identical or `__eq__`" = same id or same `eqKey`;
* `is_label_correct` (`matching_label_policy.is_matchable(est, gt)`) is the Boolean `labelOk`;
* `get_label_threshold(gt.semantic_label, target_labels, matching_threshold_list)` is `thr`;
* `plane_distance.value` (3-D evaluation: `PassFailResult.evaluate` always selects PLANEDISTANCE)
  is `score`; `is_better_than t` is `value < t`, `False` when the value is `None`.

Not modelled: the 2-D branch (`get_matching` returning `None` for ROI-less objects), the
`target_uuids` / `ignore_attributes` options of the critical filter (the harness leaves them `None`).

Added later: `PEval/Model/CriticalFrame.lean` COMPUTES the two Booleans `crit` / `estCrit` from the object's
position, frame id, the frame's transforms and the critical `filtering_params` (C10's `isTarget` at both filter
call sites of `evaluate_frame`, `target_uuids` / `ignore_attributes` included) and refines into this model
(`C03.critical_refines`): every theorem stated here for an arbitrary `crit` holds of the computed one.
-/

namespace PEval.PassFail

/-- what the accounting reads of a ground-truth object -/
structure GT where
  id : Nat
  /-- `semantic_label.is_fp()` -/
  isFP : Bool
  /-- passes the critical-object filter (`_is_target_object(..., is_gt=True, ...)`) -/
  crit : Bool
  /-- class of `DynamicObject.__eq__` -/
  eqKey : Nat
deriving DecidableEq, Repr

/-- what the accounting reads of a `DynamicObjectWithPerceptionResult` -/
structure Res where
  /-- id of `estimated_object` -/
  est : Nat
  /-- the estimate passes the critical-object filter (`is_gt=False`) -/
  estCrit : Bool
  /-- `ground_truth_object` -/
  gt : Option GT
  /-- `is_label_correct` (only read when `gt` is present) -/
  labelOk : Bool
  /-- `get_label_threshold` for the ground truth's label (`None`: label not a pass/fail target, or no list) -/
  thr : Option Rat
  /-- `plane_distance.value` -/
  score : Option Rat
deriving DecidableEq

/-- `MatchingStatus` -/
inductive Status where
  | TP | FP | FN | TN
deriving DecidableEq, Repr

/-- `DynamicObjectWithPerceptionResult(estimated_object, None, policy)`: the re-wrap used for a
matched estimate whose FP-labelled ground truth is counted TN -/
def Res.unmatched (r : Res) : Res :=
  { est := r.est, estCrit := r.estCrit, gt := none, labelOk := false, thr := none, score := none }

/-- `PlaneDistanceMatching.is_better_than` -/
def isBetterThan (score : Option Rat) (t : Rat) : Bool :=
  match score with
  | none => false
  | some v => decide (v < t)

/-- `is_result_correct(matching_mode, matching_threshold)` -/
def isResultCorrect (r : Res) : Bool :=
  match r.gt with
  | none => false
  | some g =>
    match r.thr with
    | none => r.labelOk
    | some t =>
      let isMatching := isBetterThan r.score t
      if g.isFP then !isMatching else isMatching && r.labelOk

/-- `get_status`: (status of the estimate, status of the ground truth) -/
def getStatus (r : Res) : Status × Option Status :=
  match r.gt with
  | none => (.FP, none)
  | some g =>
    if isResultCorrect r then
      (if g.isFP then (.FP, some .TN) else (.TP, some .TP))
    else
      (if g.isFP then (.FP, some .FP) else (.FP, some .FN))

/-- `get_positive_objects`: the loop over `object_results`, appending to `tp_object_results` /
`fp_object_results` (order of appends = order of the input). The last `match` arm is the
fall-through of the Python `if / elif` (no append); `tp_fp_partition` shows it is never taken. -/
def getPositive : List Res → List Res × List Res
  | [] => ([], [])
  | r :: rs =>
    let rest := getPositive rs
    match r.gt with
    | none => (rest.1, r :: rest.2)
    | some _ =>
      match getStatus r with
      | (.FP, some .TN) => (rest.1, r.unmatched :: rest.2)
      | (.FP, _) => (rest.1, r :: rest.2)
      | (.TP, some .TP) => (r :: rest.1, rest.2)
      | _ => rest

/-- accumulators of the first loop of `get_negative_objects` -/
structure NegAcc where
  tn : List GT
  fn : List GT
  nonCand : List GT

/-- first loop of `get_negative_objects` (over the object results) -/
def negFromResults : List Res → NegAcc
  | [] => ⟨[], [], []⟩
  | r :: rs =>
    let rest := negFromResults rs
    match r.gt, (getStatus r).2 with
    | some g, some .TN => ⟨g :: rest.tn, rest.fn, g :: rest.nonCand⟩
    | some g, some .FN => ⟨rest.tn, g :: rest.fn, g :: rest.nonCand⟩
    | some g, some _ => ⟨rest.tn, rest.fn, g :: rest.nonCand⟩
    | _, _ => rest

/-- Python `a == b` / identity on ground-truth objects as seen by `in`: identical, or `__eq__` -/
def GT.same (a b : GT) : Bool := a.id == b.id || a.eqKey == b.eqKey

/-- `ground_truth_object in non_candidates` -/
def inNonCand (g : GT) (nc : List GT) : Bool := nc.any (fun n => g.same n)

/-- second loop of `get_negative_objects` (over the ground truths): contributions to (tn, fn) -/
def scanGts (nc : List GT) : List GT → List GT × List GT
  | [] => ([], [])
  | g :: gs =>
    let rest := scanGts nc gs
    if inNonCand g nc then rest
    else if g.isFP then (g :: rest.1, rest.2)
    else (rest.1, g :: rest.2)

/-- `get_negative_objects(ground_truth_objects, object_results, ...)` = (tn_objects, fn_objects) -/
def getNegative (gts : List GT) (rs : List Res) : List GT × List GT :=
  let acc := negFromResults rs
  let sc := scanGts acc.nonCand gts
  (acc.tn ++ sc.1, acc.fn ++ sc.2)

/-- `PassFailResult` after `evaluate`, together with the filtered inputs kept by the frame result -/
structure PassFail where
  tp : List Res
  fp : List Res
  tn : List GT
  fn : List GT
  /-- `frame_result.object_results` after `evaluate_frame` -/
  results : List Res
  /-- `frame_result.frame_ground_truth.objects` after `evaluate_frame` -/
  gts : List GT

/-- `PassFailResult.evaluate(object_results, ground_truth_objects)` -/
def evaluate (rs : List Res) (gts : List GT) : PassFail :=
  let p := getPositive rs
  let n := getNegative gts rs
  { tp := p.1, fp := p.2, tn := n.1, fn := n.2, results := rs, gts := gts }

/-- `get_num_success` -/
def numSuccess (p : PassFail) : Nat := p.tp.length + p.tn.length
/-- `get_num_fail` -/
def numFail (p : PassFail) : Nat := p.fp.length + p.fn.length

/-- `filter_object_results` with the critical parameters: the estimate must pass, and when a ground
truth is attached it must pass too (`if is_target and object_result.ground_truth_object: ...`) -/
def resSurvives (r : Res) : Bool :=
  r.estCrit && (match r.gt with
    | none => true
    | some g => g.crit)

def criticalResults (rs : List Res) : List Res := rs.filter resSurvives
/-- `filter_objects(frame_ground_truth.objects, is_gt=True, ...)` with the critical parameters -/
def criticalGts (gts : List GT) : List GT := gts.filter (·.crit)

/-- input of `evaluate_frame`: the matcher's object results and the (manager-filtered) ground truths -/
structure Frame where
  results : List Res
  gts : List GT

/-- `PerceptionFrameResult.evaluate_frame` as far as the pass/fail result is concerned -/
def evaluateFrame (f : Frame) : PassFail :=
  evaluate (criticalResults f.results) (criticalGts f.gts)

/-- a sequence of frames: `add_frame_result` evaluates every frame on its own -/
def evaluateHistory (fs : List Frame) : List PassFail := fs.map evaluateFrame

/-! ## derived views used by the property statements -/

/-- ground truths attached to a list of results, in order -/
def gtsOf (rs : List Res) : List GT := rs.filterMap (·.gt)

def Res.hasFPGt (r : Res) : Bool :=
  match r.gt with
  | some g => g.isFP
  | none => false

/-- the FP results that still carry their FP-labelled ground truth ("matched FP") -/
def matchedFP (fp : List Res) : List Res := fp.filter Res.hasFPGt

/-- a result is counted TP -/
def isTP (r : Res) : Bool := getStatus r == (.TP, some .TP)

/-- the FP-list entry produced for a non-TP result -/
def fpEntry (r : Res) : Res := if (getStatus r).2 == some .TN then r.unmatched else r

/-! ## well-formedness (decidable) -/

/-- ground truths form a *set*: pairwise different objects, pairwise different under `__eq__` -/
def GtsDistinct (gts : List GT) : Prop :=
  gts.Pairwise (fun a b => a.id ≠ b.id ∧ a.eqKey ≠ b.eqKey)

/-- hypothesis of the conservation theorems: the ground truths are a set, and the ground truths of
the object results are distinct members of it -/
def WF (rs : List Res) (gts : List GT) : Prop :=
  GtsDistinct gts ∧ (gtsOf rs).Nodup ∧ ∀ g ∈ gtsOf rs, g ∈ gts

/-- what the matcher guarantees (property C01: `results_gt_nodup`, membership) on a frame whose
ground truths are a set -/
def MatcherWF (f : Frame) : Prop := WF f.results f.gts

instance (gts : List GT) : Decidable (GtsDistinct gts) := by unfold GtsDistinct; infer_instance
instance (rs : List Res) (gts : List GT) : Decidable (WF rs gts) := by unfold WF; infer_instance
instance (f : Frame) : Decidable (MatcherWF f) := by unfold MatcherWF; infer_instance

end PEval.PassFail
