import PEval.Model.Manager
import PEval.Model.Clear
/-!
C13 × C05 — the evaluation manager with its TRACKING scores made concrete.

`PEval/Model/Manager.lean` keeps the tracking part of a frame evaluation abstract (`Sem.evalTrack`) and
pools only AP at scene level.  `PEval/Model/Clear.lean` models CLEAR over histories of frames, apart
from the manager.  This file joins them: the same state machine (`add` / `scene` / `lookup`), but a
stored frame result also carries the per-label buckets of its object results as the tracking metrics
read them, and both the per-frame and the scene tracking scores are COMPUTED with `Clear.trackingScore`.

Anchors
* `manager/perception_evaluation_manager.py`
  `add_frame_result` (predecessor = `frame_results[-1]`, else none),
  `get_scene_result` (`all_frame_results[label] = [[]]`, one appended bucket per stored frame,
  `all_num_gt[label] += …`, then `scene_metrics_score.evaluate_tracking(all_frame_results, all_num_gt)`);
* `evaluation/result/perception_frame_result.py` `evaluate_frame`
  (`previous_results_dict = {label: []}` without predecessor, else `divide_objects(previous_result.object_results, …)`;
  `tracking_results[label] = [prev_results, current results]`; ground-truth numbers of the CURRENT frame);
* `evaluation/metrics/metrics.py` `MetricsScore.evaluate_tracking` (one `TrackingMetricsScore` per
  configured threshold list: centre distance, IoU 2D, IoU 3D, plane distance);
* `evaluation/metrics/tracking/tracking_metrics_score.py` (one `CLEAR` per zipped (target label,
  threshold) with singleton lists; `_sum_clear`) and `tracking/clear.py` — both are `PEval.Clear`.

What stays abstract (as in `Manager.lean`): the evaluation of ONE frame up to the stored object
results — `evalDet` (detection view: AP columns, ground-truth numbers) and `evalTB` (tracking view:
buckets of `TRes`).  Both are functions of the call `(ground truth frame, estimates, configurations)`
alone; that the real manager's stored results are (history independence) is what
`C13.add_detection_history_free` is about and what the correspondence run compares.

Assumption shared with `harness/props/c13.py`: the critical-filter target labels and the metrics
target labels are the manager's target labels, so the buckets read by `evaluate_frame` and the ones read
by `get_scene_result` are the same division of `frame.object_results`.
-/

namespace PEval.ManagerTracking
open PEval.Manager PEval

/-- One stored `DynamicObjectWithPerceptionResult` as the tracking metrics see it.  It is
`Clear.Res` except that the matching value is kept for every matching mode
(`get_matching(mode).value`; `values[m]` for mode number `m`). -/
structure TRes where
  est : Nat
  estLabel : Nat
  gt : Option Clear.Gt
  values : List Rat
  labelOk : Bool
  w : Rat
deriving DecidableEq, Repr

/-- the result as a `CLEAR` instance of matching mode `m` reads it -/
def TRes.view (m : Nat) (r : TRes) : Clear.Res :=
  ⟨r.est, r.estLabel, r.gt, r.values.getD m 0, r.labelOk, r.w⟩

def viewBucket (m : Nat) (b : List TRes) : List Clear.Res := b.map (TRes.view m)

/-- one `TrackingMetricsScore` of `MetricsScore.evaluate_tracking`: matching mode (its number and the
direction of "better") and the threshold list (one entry per target label) -/
structure TCfg where
  mode : Nat
  maximize : Bool
  thr : List Rat
deriving DecidableEq, Repr

/-- `TrackingMetricsScore`: the `CLEAR.results` per target label and `_sum_clear()` -/
abbrev TScore := List Clear.Out × (Option Rat × Option Rat × Nat)

/-- `PerceptionFrameResult` of a tracking manager: detection view, the buckets
`divide_objects(object_results, target_labels)` in the tracking vocabulary, and
`metrics_score.tracking_scores`. -/
structure TFrameResult where
  frameName : Nat
  det : Det
  tb : List (List TRes)
  track : List TScore
deriving DecidableEq, Repr

def TFrameResult.bucket (r : TFrameResult) (l : Nat) : List TRes := r.tb.getD l []

structure TState where
  dataset : List Frame
  frameResults : List TFrameResult

def tfresh (ds : List Frame) : TState := { dataset := ds, frameResults := [] }

/-- the manager's configuration (target labels, tracking metric configurations) and the abstract
single-frame evaluation -/
structure TSem (E C : Type) where
  labels : List Nat
  cfgs : List TCfg
  evalDet : Frame → E → C → Det
  evalTB : Frame → E → C → List (List TRes)

def TSem.nLabels {E C : Type} (sem : TSem E C) : Nat := sem.labels.length

/-- `TrackingMetricsScore.__init__`'s loop `zip(target_labels, matching_threshold_list)`: label `i`
gets ground-truth number `gt i` and the nested list `hist i`, read in the matching mode of `cfg` -/
def labelInputs (labels : List Nat) (cfg : TCfg) (gt : Nat → Nat) (hist : Nat → List (List TRes)) :
    List Clear.LabelInput :=
  (labels.zip cfg.thr).zipIdx.map (fun (lt, i) => ⟨lt.1, lt.2, gt i, (hist i).map (viewBucket cfg.mode)⟩)

/-- `MetricsScore.evaluate_tracking(object_results, num_ground_truth)` -/
def evaluateTracking (labels : List Nat) (cfgs : List TCfg) (gt : Nat → Nat) (hist : Nat → List (List TRes)) :
    List TScore :=
  cfgs.map (fun cfg => Clear.trackingScore cfg.maximize (labelInputs labels cfg gt hist))

/-- `previous_results_dict[label]`: `[]` for every label when there is no previous result -/
def prevBucket (prev : Option (List (List TRes))) (l : Nat) : List TRes :=
  match prev with
  | none => []
  | some tb => tb.getD l []

/-- the tracking branch of `evaluate_frame(previous_result)`: `[previous, current]` per label with
the CURRENT frame's ground-truth numbers -/
def frameTrack (labels : List Nat) (cfgs : List TCfg) (prev : Option (List (List TRes)))
    (cur : List (List TRes)) (d : Det) : List TScore :=
  evaluateTracking labels cfgs d.gt (fun l => [prevBucket prev l, cur.getD l []])

/-- `PerceptionFrameResult(...)` followed by `evaluate_frame(previous_result)` -/
def tevalFrame {E C : Type} (sem : TSem E C) (g : Frame) (e : E) (c : C) (prev : Option TFrameResult) :
    TFrameResult :=
  let d := sem.evalDet g e c
  let tb := sem.evalTB g e c
  { frameName := g.name, det := d, tb := tb
    track := frameTrack sem.labels sem.cfgs (prev.map (·.tb)) tb d }

/-- `add_frame_result`: predecessor `frame_results[-1]` if any; the result is appended -/
def taddFrameResult {E C : Type} (sem : TSem E C) (s : TState) (g : Frame) (e : E) (c : C) :
    TState × TFrameResult :=
  let r := tevalFrame sem g e c s.frameResults.getLast?
  ({ s with frameResults := s.frameResults ++ [r] }, r)

/-- the accumulators of `get_scene_result` as the tracking metrics read them -/
structure TScene where
  results : List (List (List TRes))
  numGt : List Nat
  usedFrame : List Nat
deriving DecidableEq, Repr

def tsceneInit (nl : Nat) : TScene :=
  { results := List.replicate nl [[]], numGt := List.replicate nl 0, usedFrame := [] }

/-- one pass of `for frame in self.frame_results` -/
def tsceneAdd (sc : TScene) (fr : TFrameResult) : TScene :=
  { results := sc.results.mapIdx (fun l b => b ++ [fr.bucket l])
    numGt := sc.numGt.mapIdx (fun l n => n + fr.det.gt l)
    usedFrame := sc.usedFrame ++ [fr.frameName] }

def tsceneAcc (nl : Nat) (s : TState) : TScene :=
  s.frameResults.foldl tsceneAdd (tsceneInit nl)

def TScene.hist (sc : TScene) (l : Nat) : List (List TRes) := sc.results.getD l []
def TScene.gt (sc : TScene) (l : Nat) : Nat := sc.numGt.getD l 0

/-- `scene_metrics_score.evaluate_tracking(all_frame_results, all_num_gt)` -/
def sceneTrack (labels : List Nat) (cfgs : List TCfg) (sc : TScene) : List TScore :=
  evaluateTracking labels cfgs sc.gt sc.hist

/-- the manager without its tracking view: a state of `PEval.Manager` (tracking part `Unit`) -/
def TFrameResult.forget (r : TFrameResult) : FrameResult Unit := ⟨r.frameName, r.det, ()⟩
def TState.forget (s : TState) : State Unit :=
  { dataset := s.dataset, frameResults := s.frameResults.map TFrameResult.forget }
def TSem.forget {E C : Type} (sem : TSem E C) : Sem E C Unit :=
  { nLabels := sem.nLabels, evalDet := sem.evalDet, evalTrack := fun _ _ _ _ => () }

inductive TOut where
  | added (r : TFrameResult)
  | scene (det : Scene) (acc : TScene) (track : List TScore)
  | frame (f : Except Err (Option Frame))

def tgetSceneResult {E C : Type} (sem : TSem E C) (s : TState) : TOut :=
  let acc := tsceneAcc sem.nLabels s
  .scene (getSceneResult sem.nLabels s.forget) acc (sceneTrack sem.labels sem.cfgs acc)

def tstep {E C : Type} (sem : TSem E C) (s : TState) : Op E C → TState × TOut
  | .add g e c => let r := taddFrameResult sem s g e c; (r.1, .added r.2)
  | .scene => (s, tgetSceneResult sem s)
  | .lookup t thr => (s, .frame (getGT s.forget t thr))

def trun {E C : Type} (sem : TSem E C) : TState → List (Op E C) → TState × List TOut
  | s, [] => (s, [])
  | s, op :: ops =>
    let r := tstep sem s op
    let rest := trun sem r.1 ops
    (rest.1, r.2 :: rest.2)

/-- the tracking scores an operation answers with (`[]` for a look-up) -/
def TOut.track : TOut → List TScore
  | .added r => r.track
  | .scene _ _ t => t
  | .frame _ => []

def TOut.added? : TOut → Option TFrameResult
  | .added r => some r
  | _ => none

def TOut.sceneTrack? : TOut → Option (List TScore)
  | .scene _ _ t => some t
  | _ => none

def TOut.forget : TOut → Out Unit
  | .added r => .added r.forget
  | .scene d _ _ => .scene d
  | .frame f => .frame f

def tlastOut {E C : Type} (sem : TSem E C) (s : TState) (ops : List (Op E C)) : Option TOut :=
  (trun sem s ops).2.getLast?

/-- `tracking_scores[k].clears[l]` -/
def clearAt (ts : List TScore) (k l : Nat) : Option Clear.Out :=
  ts[k]?.bind (fun sc => sc.1[l]?)

/-- `tracking_scores[k]._sum_clear()` -/
def totalAt (ts : List TScore) (k : Nat) : Option (Option Rat × Option Rat × Nat) :=
  ts[k]?.map (·.2)

/-- the tracking views a FRESH evaluation gives for the `add`s of an operation list, in order -/
def addsTB {E C : Type} (sem : TSem E C) : List (Op E C) → List (List (List TRes))
  | [] => []
  | .add g e c :: ops => sem.evalTB g e c :: addsTB sem ops
  | _ :: ops => addsTB sem ops

/-- … and the detection views -/
def addsDetT {E C : Type} (sem : TSem E C) : List (Op E C) → List Det
  | [] => []
  | .add g e c :: ops => sem.evalDet g e c :: addsDetT sem ops
  | _ :: ops => addsDetT sem ops

end PEval.ManagerTracking
