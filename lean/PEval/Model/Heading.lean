import PEval.Model.Basic
/-!
# Heading comparisons (C09)

Model of
* `DynamicObject.get_heading_bev`            (common/object.py)
* `TPMetricsAph.get_value`                   (evaluation/metrics/detection/tp_metrics.py)
* `DynamicObject.get_heading_error` / `_clip` (common/object.py), read through
  `DynamicObjectWithPerceptionResult.heading_error`
* the yaw branch of `PerceptionAnalyzerBase.calculate_error` (tool/perception_analyzer_base.py): the second
  public place where the library reports a yaw error for a pair

Angles are **half-turns** `τ ∈ ℚ` (angle = τ·π, DESIGN 4.2): π becomes the rational `1`, 2π becomes
`2`.  A yaw returned by `pyquaternion.Quaternion.yaw_pitch_roll[0]` (an `atan2`) lies in `(−1, 1]`.

The model is yaw-only.  `ground_truth_object is None` (weight `0.0`, error `None`) is outside the
property's quantifier (pairs of orientations) and is handled by the driver as `none`.

Python's `abs`, `max(0.0, x)`, `min(1.0, y)` are written as the `if`s they are.
-/
namespace PEval.Heading

/-- Python `abs` -/
def absR (x : Rat) : Rat := if x < 0 then -x else x

/-- yaw domain of `yaw_pitch_roll[0]`: `(−π, π]` in half-turns -/
def InDom (τ : Rat) : Prop := -1 < τ ∧ τ ≤ 1

instance (τ : Rat) : Decidable (InDom τ) := by unfold InDom; infer_instance

/-- the principal value in `(−1, 1]` of a sum of two principal yaws (what `atan2` gives for the yaw of the
composed rotation); argument in `(−2, 2]` -/
def wrapYaw (t : Rat) : Rat := if t > 1 then t - 2 else if t ≤ -1 then t + 2 else t

/-- `get_heading_bev` after `rots = yaw_pitch_roll[0]`:
```
trans_rots = -rots - pi/2
trans_rots = where(trans_rots >  pi, trans_rots - 2pi, trans_rots)
trans_rots = where(trans_rots < -pi, trans_rots + 2pi, trans_rots)
``` -/
def headingBev (τ : Rat) : Rat :=
  let r := -τ - 1/2
  let r := if r > 1 then r - 2 else r
  let r := if r < -1 then r + 2 else r
  r

/-- the fold in `TPMetricsAph.get_value`: `d = abs(x); if d > pi: d = 2pi - d` -/
def foldAbs (x : Rat) : Rat :=
  let d := absR x
  if d > 1 then 2 - d else d

/-- `min(1.0, max(0.0, x))` with Python's `min`/`max` (first argument kept on ties) -/
def clamp01 (x : Rat) : Rat :=
  let m := if x > 0 then x else 0
  if m < 1 then m else 1

/-- `TPMetricsAph.get_value` for a pair with yaws `τe` (estimate) and `τg` (ground truth), both objects
in `BASE_LINK`: `min(1, max(0, 1 − fold|h_e − h_g| / π))` -/
def aphWeight (τe τg : Rat) : Rat :=
  clamp01 (1 - foldAbs (headingBev τe - headingBev τg))

/-- `_clip` of the repaired code: `if err < -pi: err += 2pi  elif err > pi: err -= 2pi` -/
def clip (e : Rat) : Rat := if e < -1 then e + 2 else if e > 1 then e - 2 else e

/-- `estimated.get_heading_error(ground_truth)[2] / π = _clip(yaw2 − yaw1)` with `yaw1` the estimate's -/
def headingError (τe τg : Rat) : Rat := clip (τg - τe)

/-- Map-frame rendering of the same physical pair: both orientations are left-multiplied by the ego
rotation (yaw `τ0`), so both yaws become `wrapYaw (τ + τ0)`.  `TPMetricsAph.get_value` builds an
*identity* transform for non-`BASE_LINK` frames, so the weight is computed from the map yaws. -/
def aphWeightMap (τ0 τe τg : Rat) : Rat := aphWeight (wrapYaw (τe + τ0)) (wrapYaw (τg + τ0))

/-- `heading_error[2] / π` of the pair rendered in the map frame -/
def headingErrorMap (τ0 τe τg : Rat) : Rat := headingError (wrapYaw (τe + τ0)) (wrapYaw (τg + τ0))

/-- `TPMetricsAph.get_value` including its first branch: `ground_truth_object is None` gives `0.0` -/
def aphValue (τe : Rat) (τg : Option Rat) : Rat :=
  match τg with
  | none => 0
  | some g => aphWeight τe g

/-- `heading_error[2] / π`; `None` when there is no ground truth -/
def headingErrorOpt (τe : Rat) (τg : Option Rat) : Option Rat := τg.map (headingError τe)

/-! ## the analysis tool's yaw error column -/

/-- `PerceptionAnalyzerBase.calculate_error("yaw")` for one paired row, yaws of both objects in `BASE_LINK`:
```
err = gt_arr - est_arr
err[err > pi]  = -2pi + err[err > pi]
err[err < -pi] =  2pi + err[err < -pi]
```
(two masked assignments, in this order) -/
def analyzerYawError (τe τg : Rat) : Rat :=
  let e := τg - τe
  let e := if e > 1 then e - 2 else e
  let e := if e < -1 then e + 2 else e
  e

/-- `PerceptionAnalyzer3D.format2dict`: every object is brought to `BASE_LINK` through the frame's transforms before
its yaw is tabulated; for a map-frame object of yaw `τm` and ego yaw `τ0` that is the principal value of `τm − τ0` -/
def toEgoYaw (τ0 τm : Rat) : Rat := wrapYaw (τm - τ0)

/-- the analyzer's yaw error of the pair rendered in the map frame (ego yaw `τ0`) -/
def analyzerYawErrorMap (τ0 τe τg : Rat) : Rat :=
  analyzerYawError (toEgoYaw τ0 (wrapYaw (τe + τ0))) (toEgoYaw τ0 (wrapYaw (τg + τ0)))

/-- a *saturating* clip (`np.clip(err, −π, π)`) in place of the wrap, kept only for the witness theorem
`saturating_not_minimal`: it stays inside `[−π, π]` but loses the magnitude across the ±π seam -/
def saturatingYawError (τe τg : Rat) : Rat :=
  let e := τg - τe
  if e > 1 then 1 else if e < -1 then -1 else e

/-! ## specification side -/

/-- circular distance of two yaws in half-turns: `min(|Δ|, 2 − |Δ|)`, the true minimal absolute yaw
difference divided by π -/
def circDist (a b : Rat) : Rat :=
  let x := absR (a - b)
  if x ≤ 2 - x then x else 2 - x

/-! ## the pre-fix behaviour (defect F3), kept only to state the witness theorem

`Quaternion.radians` (= `.angle`) is `wrap(2·atan2(‖v‖, w))`: for `q = (cos(y/2), 0, 0, sin(y/2))`
this is `|y|`, and for `−q` it is `−|y|`: the sign of the yaw is lost and replaced by the sign
convention of the quaternion. -/

/-- what `.radians / π` returned for a pure-yaw quaternion of yaw `τ ∈ (−1, 1)`; `neg` = the `−q` representative -/
def quatAngle (τ : Rat) (neg : Bool) : Rat := if neg then -(absR τ) else absR τ

/-- the APH weight the ego-frame branch computed before the repair -/
def aphWeightPreFix (τe : Rat) (ne : Bool) (τg : Rat) (ng : Bool) : Rat :=
  aphWeight (quatAngle τe ne) (quatAngle τg ng)

end PEval.Heading
