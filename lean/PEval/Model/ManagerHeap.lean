import PEval.Model.Manager
/-!
C13 — a HEAP model of `PerceptionEvaluationManager.add_frame_result`

`PEval/Model/Manager.lean` hands a ground-truth frame to `addFrameResult` as a VALUE and evaluates it
with a state-free function; there the clauses "does not modify the caller's estimate list or the loaded
dataset" and "same result whatever was evaluated earlier on the same manager" are true by the type of
the model (audit item 1).  Here Python's objects are cells of a store and are passed BY REFERENCE, the
assignments of the code are explicit writes, so those clauses can fail — and do fail for the
defective variants defined next to the repaired one (`Variant.f5`: defect F5 of DESIGN §7, repaired by
`ccf10e1`; `Variant.estInPlace`: the estimate filter written back into the caller's list).

Anchors (line numbers of /repo at the time of writing)
* `manager/perception_evaluation_manager.py`
  - `add_frame_result` l.79-127: `_filter_objects(estimated_objects, ground_truth_now_frame)`;
    `PerceptionFrameResult(object_results, frame_ground_truth=…)`; `evaluate_frame(previous_result=
    self.frame_results[-1])` when there is a stored result; `self.frame_results.append(result)`.
  - `_filter_objects` l.129-180: `estimated_objects = filter_objects(estimated_objects, …)` (a NEW list
    bound to the local name); `frame_ground_truth = copy(frame_ground_truth)` (the repair of F5: a
    shallow copy, i.e. a NEW `FrameGroundTruth` cell sharing the object list);
    `frame_ground_truth.objects = filter_objects(frame_ground_truth.objects, …)` (a WRITE through the
    reference); `get_object_results(...)`; optional `filter_object_results(target_uuids)`.
  - `get_scene_result` l.182-215: per stored result `divide_objects(frame.object_results, target_labels)`
    and `divide_objects_to_num(frame.frame_ground_truth.objects, target_labels)` — the ground-truth
    frame OF THE RESULT is dereferenced at query time.
* `evaluation/result/perception_frame_result.py`
  - `__init__` l.59-90: keeps the reference `self.frame_ground_truth = frame_ground_truth`, copies the
    string `self.frame_name`.
  - `evaluate_frame` l.92-146: `self.object_results = filter_object_results(…critical filter…)`;
    `self.frame_ground_truth.objects = filter_objects(self.frame_ground_truth.objects, …critical
    filter…)` (a second WRITE through the same reference); `divide_objects`, `divide_objects_to_num`
    with the critical filter's target labels; detection scores; tracking scores from
    `previous_result.object_results`.

What is a cell: every `FrameGroundTruth` instance (`Heap.frames`; a reference is its index; `copy`
allocates a new cell at the end) and every list object holding estimates (`Heap.ests`).  The
`DynamicObject`s themselves are immutable here (harness ids, as in `Manager.Frame.objects`): the code
under the anchors never assigns to an attribute of an object, only to `.objects` of a frame.

What stays abstract (`HSem`): the PURE parts — the two filters, the matcher, the bucketing and the
scores — as functions of their explicit arguments.  Of a frame they may read only `FMeta` (time stamp,
frame name, standing for `transforms`/`frame_name`, never its object list), so everything they learn
about the ground-truth objects flows through the list that was read from the store at that step.
-/

namespace PEval.ManagerHeap
open PEval.Manager PEval

/-- a reference: index of a cell -/
abbrev Ref := Nat

/-- what filters and matcher read of a `FrameGroundTruth` besides its objects (`unix_time`,
`frame_name`; `transforms` is a function of these in a loaded dataset) -/
structure FMeta where
  time : Int
  name : Nat
deriving DecidableEq, Repr

def metaOf (f : Frame) : FMeta := ⟨f.time, f.name⟩

/-- the store: `FrameGroundTruth` cells and estimate-list cells -/
structure Heap (Est : Type) where
  frames : List Frame
  ests : List (List Est)
deriving DecidableEq, Repr

variable {Est OR C T : Type}

/-- dereference a frame reference (a dangling reference reads an empty frame; the operations check
validity first) -/
def Heap.frame (h : Heap Est) (r : Ref) : Frame := h.frames.getD r ⟨0, 0, []⟩
/-- dereference an estimate-list reference -/
def Heap.est (h : Heap Est) (r : Ref) : List Est := h.ests.getD r []

/-- `copy(frame_ground_truth)`: a new cell with the same field values; the new reference -/
def Heap.allocFrame (h : Heap Est) (f : Frame) : Heap Est × Ref :=
  ({ h with frames := h.frames ++ [f] }, h.frames.length)

/-- `frame.objects = objs` through the reference `r` -/
def Heap.setObjects (h : Heap Est) (r : Ref) (objs : List Nat) : Heap Est :=
  { h with frames := h.frames.set r { h.frame r with objects := objs } }

/-- `lst[:] = es` through the reference `r` (only the defective variant `estInPlace` does this) -/
def Heap.setEst (h : Heap Est) (r : Ref) (es : List Est) : Heap Est :=
  { h with ests := h.ests.set r es }

/-- `PerceptionFrameResult` as stored in `frame_results`: the frame name (a copied string), the
REFERENCE `frame_ground_truth`, the filtered object results, the detection view of the frame-level
scores (`Manager.Det`) and the tracking scores. -/
structure HResult (OR T : Type) where
  frameName : Nat
  frame : Ref
  objectResults : List OR
  det : Det
  track : T
deriving DecidableEq, Repr

/-- the manager: the store it shares with its caller, `ground_truth_frames` (references) and
`frame_results` -/
structure HState (Est OR T : Type) where
  heap : Heap Est
  dataset : List Ref
  frameResults : List (HResult OR T)
deriving DecidableEq, Repr

/-- a manager right after construction over dataset references `ds` in store `h` -/
def hfresh (h : Heap Est) (ds : List Ref) : HState Est OR T :=
  { heap := h, dataset := ds, frameResults := [] }

/-- The pure parts of one frame evaluation.
* `filterEst`, `filterGt`: `filter_objects(…, **self.filtering_params)` on estimates / ground truths;
* `matchObjs`: `get_object_results` (+ `filter_object_results(target_uuids)`);
* `critRes`, `critGt`: the critical-object filter of the call (`c`) on object results / ground truths;
* `detOf c ors gts`: frame level — `divide_objects(ors, c.target_labels)`,
  `divide_objects_to_num(gts, c.target_labels)` and the TP columns of `evaluate_detection`;
* `bucketsOf`, `numGtOf`: scene level — the same divisions with the MANAGER's `target_labels`;
* `trackOf c ors gts prev`: `evaluate_tracking` on `[divide_objects(prev), current]`, `prev` =
  `previous_result.object_results`. -/
structure HSem (Est OR C T : Type) where
  nLabels : Nat
  filterEst : FMeta → List Est → List Est
  filterGt : FMeta → List Nat → List Nat
  matchObjs : FMeta → List Est → List Nat → List OR
  critRes : C → FMeta → List OR → List OR
  critGt : C → FMeta → List Nat → List Nat
  detOf : C → List OR → List Nat → Det
  bucketsOf : List OR → List (List Res)
  numGtOf : List Nat → List Nat
  trackOf : C → List OR → List Nat → Option (List OR) → T

/-- the repaired code and two defective variants of `_filter_objects` -/
inductive Variant where
  /-- /repo: `frame_ground_truth = copy(frame_ground_truth)` before the filtered list is assigned -/
  | fixed
  /-- defect F5 (before `ccf10e1`): no copy — both assignments go into the frame that was handed in,
  which is the one stored in `ground_truth_frames` -/
  | f5
  /-- the filtered estimates written back into the caller's list object -/
  | estInPlace
deriving DecidableEq, Repr

/-- `add_frame_result(unix_time, ground_truth_now_frame = <fr>, estimated_objects = <er>, c, …)`,
step by step.  `none`: a reference that names no cell (cannot be written down in Python). -/
def haddV (v : Variant) (sem : HSem Est OR C T) (s : HState Est OR T) (fr er : Ref) (c : C) :
    Option (HState Est OR T × HResult OR T) :=
  if fr < s.heap.frames.length ∧ er < s.heap.ests.length then
    let h0 := s.heap
    -- the arguments are looked up BY REFERENCE
    let m := metaOf (h0.frame fr)
    -- `_filter_objects`: `estimated_objects = filter_objects(estimated_objects, …)`
    let es' := sem.filterEst m (h0.est er)
    let h0 := if v = .estInPlace then h0.setEst er es' else h0
    -- `frame_ground_truth = copy(frame_ground_truth)` (absent in the F5 variant)
    let hg := if v = .f5 then (h0, fr) else h0.allocFrame (h0.frame fr)
    let g := hg.2
    -- `frame_ground_truth.objects = filter_objects(frame_ground_truth.objects, …)`
    let h2 := hg.1.setObjects g (sem.filterGt m (hg.1.frame g).objects)
    -- `get_object_results(estimated_objects, frame_ground_truth.objects, …)`
    let ors := sem.matchObjs m es' (h2.frame g).objects
    -- `PerceptionFrameResult(…)`; `evaluate_frame`: `self.object_results = filter_object_results(…)`
    let ors' := sem.critRes c m ors
    -- `self.frame_ground_truth.objects = filter_objects(self.frame_ground_truth.objects, …)`
    let h3 := h2.setObjects g (sem.critGt c m (h2.frame g).objects)
    let gts := (h3.frame g).objects
    -- `previous_result = self.frame_results[-1]` if any; the scores
    let prev := s.frameResults.getLast?
    let r : HResult OR T :=
      { frameName := (h3.frame g).name, frame := g, objectResults := ors'
        det := sem.detOf c ors' gts
        track := sem.trackOf c ors' gts (prev.map (·.objectResults)) }
    -- `self.frame_results.append(result)`
    some ({ heap := h3, dataset := s.dataset, frameResults := s.frameResults ++ [r] }, r)
  else none

/-- `get_now_frame` over the dataset's references: the REFERENCE of the first frame with the smallest
time difference -/
def hgetGT (s : HState Est OR T) (t thr : Int) : Except Err (Option Ref) :=
  if t > 10 ^ 17 then .error "DatasetLoadingError"
  else match s.dataset with
    | [] => .error "IndexError"
    | r0 :: _ =>
      let best := s.dataset.foldl
        (fun (b : Ref × Nat) r =>
          if (t - (s.heap.frame r).time).natAbs < b.2 then (r, (t - (s.heap.frame r).time).natAbs) else b)
        (r0, (t - (s.heap.frame r0).time).natAbs)
      if (best.2 : Int) > thr then .ok none else .ok (some best.1)

/-- one pass of `for frame in self.frame_results` in `get_scene_result`: both divisions are
recomputed, the result's ground-truth frame is dereferenced NOW -/
def hsceneAdd (sem : HSem Est OR C T) (h : Heap Est) (sc : Scene) (r : HResult OR T) : Scene :=
  let b := sem.bucketsOf r.objectResults
  let n := sem.numGtOf (h.frame r.frame).objects
  { results := sc.results.mapIdx (fun l x => x ++ [b.getD l []])
    numGt := sc.numGt.mapIdx (fun l k => k + n.getD l 0)
    usedFrame := sc.usedFrame ++ [r.frameName] }

def hgetSceneResult (sem : HSem Est OR C T) (s : HState Est OR T) : Scene :=
  s.frameResults.foldl (hsceneAdd sem s.heap) (sceneInit sem.nLabels)

/-! ### operations and runs -/

inductive HOp (C : Type) where
  | add (fr er : Ref) (c : C)
  | scene
  | lookup (t thr : Int)

inductive HOut (OR T : Type) where
  | added (r : HResult OR T)
  | rejected
  | scene (sc : Scene)
  | frame (f : Except Err (Option Ref))

def hstepV (v : Variant) (sem : HSem Est OR C T) (s : HState Est OR T) : HOp C → HState Est OR T × HOut OR T
  | .add fr er c =>
    match haddV v sem s fr er c with
    | some (s', r) => (s', .added r)
    | none => (s, .rejected)
  | .scene => (s, .scene (hgetSceneResult sem s))
  | .lookup t thr => (s, .frame (hgetGT s t thr))

def hrunV (v : Variant) (sem : HSem Est OR C T) : HState Est OR T → List (HOp C) → HState Est OR T × List (HOut OR T)
  | s, [] => (s, [])
  | s, op :: ops =>
    let r := hstepV v sem s op
    let rest := hrunV v sem r.1 ops
    (rest.1, r.2 :: rest.2)

/-- the code of /repo -/
abbrev hadd (sem : HSem Est OR C T) := haddV Variant.fixed sem
abbrev hstep (sem : HSem Est OR C T) := hstepV Variant.fixed sem
abbrev hrun (sem : HSem Est OR C T) := hrunV Variant.fixed sem

def HOut.added? : HOut OR T → Option (HResult OR T)
  | .added r => some r
  | _ => none

def HOut.det? (o : HOut OR T) : Option Det := o.added?.map (·.det)
def HOut.ors? (o : HOut OR T) : Option (List OR) := o.added?.map (·.objectResults)
def HOut.track? (o : HOut OR T) : Option T := o.added?.map (·.track)

def hlastOutV (v : Variant) (sem : HSem Est OR C T) (s : HState Est OR T) (ops : List (HOp C)) : Option (HOut OR T) :=
  (hrunV v sem s ops).2.getLast?

abbrev hlastOut (sem : HSem Est OR C T) := hlastOutV Variant.fixed sem

def HOp.isQuery : HOp C → Bool
  | .add .. => false
  | _ => true

/-- the references an operation names exist in store `h` -/
def HOp.validIn (h : Heap Est) : HOp C → Prop
  | .add fr er _ => fr < h.frames.length ∧ er < h.ests.length
  | _ => True

/-- every dataset reference names a cell -/
def DatasetValid (h : Heap Est) (ds : List Ref) : Prop := ∀ r ∈ ds, r < h.frames.length

/-! ### the value-level reading: what the state-free machine `PEval.Manager` is told

`pureORs` / `pureGts`: the filtered object results and ground truths as a function of the VALUES of the
frame and of the estimate list (no store). -/

def pureGts (sem : HSem Est OR C T) (c : C) (f : Frame) : List Nat :=
  sem.critGt c (metaOf f) (sem.filterGt (metaOf f) f.objects)

def pureORs (sem : HSem Est OR C T) (c : C) (f : Frame) (es : List Est) : List OR :=
  sem.critRes c (metaOf f)
    (sem.matchObjs (metaOf f) (sem.filterEst (metaOf f) es) (sem.filterGt (metaOf f) f.objects))

def pureDet (sem : HSem Est OR C T) (c : C) (f : Frame) (es : List Est) : Det :=
  sem.detOf c (pureORs sem c f es) (pureGts sem c f)

/-- the abstract single-frame evaluation of `PEval.Manager` this heap model induces (tracking part
forgotten: `Manager.Sem.evalTrack` reads the predecessor's `Det`, the code its `object_results`) -/
def toSem (sem : HSem Est OR C T) : Sem (List Est) C Unit :=
  { nLabels := sem.nLabels
    evalDet := fun f es c => pureDet sem c f es
    evalTrack := fun _ _ _ _ => () }

def absRes (r : HResult OR T) : FrameResult Unit := ⟨r.frameName, r.det, ()⟩

/-- the state of `PEval.Manager` a heap state stands for: the dataset DEREFERENCED -/
def absState (s : HState Est OR T) : State Unit :=
  { dataset := s.dataset.map s.heap.frame, frameResults := s.frameResults.map absRes }

/-- an operation with its references replaced by the values store `h` holds for them -/
def absOp (h : Heap Est) : HOp C → Op (List Est) C
  | .add fr er c => .add (h.frame fr) (h.est er) c
  | .scene => .scene
  | .lookup t thr => .lookup t thr

def absOut (h : Heap Est) : HOut OR T → Out Unit
  | .added r => .added (absRes r)
  | .rejected => .frame (.error "invalid reference")
  | .scene sc => .scene sc
  | .frame f => .frame (f.map (Option.map h.frame))

/-- frame-level and scene-level divisions agree: the critical filter's target labels are the manager's
(the assumption of `ManagerTracking.lean` and `harness/props/c13.py`, here an explicit hypothesis of the
refinement theorem only).

NOT guaranteed by the code: `evaluate_frame` divides by `critical_object_filter_config.target_labels` (an argument
of every `add_frame_result` call, `perception_frame_config.py: CriticalObjectFilterConfig`), `get_scene_result` and
the metrics iterate over the manager's `target_labels`.  What the code does when the two lists differ (run against
/repo; model statements in `Properties/C13Labels.lean`):
* critical labels a permutation or a superset of the manager's: nothing — the dicts are read by key, the buckets
  of every manager label coincide at both levels (the hypothesis holds after re-indexing `Det` by the manager's order);
* critical labels not covering a manager label `l`: `KeyError(l)` in `Map.__init__` / `TrackingMetricsScore.__init__` /
  `ClassificationMetricsScore.__init__` (`object_results_dict[target_label]`), raised inside `evaluate_frame`, i.e. inside
  `add_frame_result` BEFORE `self.frame_results.append(result)`: the call raises, no result is stored, dataset and
  estimate list untouched (DESIGN §7 O2; `C13.detectFrame_error_of_uncovered_label`, `C13.frameMap2_keyError_first`).
So the theorems that assume `LabelsAgree` are about `add_frame_result` calls that RETURN with a critical filter over
the manager's labels; for any other returning call the scores agree by key, for a non-covering one there is no result. -/
def LabelsAgree (sem : HSem Est OR C T) : Prop :=
  ∀ c ors gts, sem.detOf c ors gts = ⟨sem.bucketsOf ors, sem.numGtOf gts⟩

/-- a stored result whose ground-truth cell exists and still holds the objects it was scored with -/
def ResOK (sem : HSem Est OR C T) (h : Heap Est) (r : HResult OR T) : Prop :=
  r.frame < h.frames.length ∧
  r.det = ⟨sem.bucketsOf r.objectResults, sem.numGtOf (h.frame r.frame).objects⟩

def Good (sem : HSem Est OR C T) (s : HState Est OR T) : Prop :=
  ∀ r ∈ s.frameResults, ResOK sem s.heap r

/-- store `h'` extends `h`: every cell of `h` is still there with the same content -/
def Ext (h h' : Heap Est) : Prop := h.frames <+: h'.frames ∧ h'.ests = h.ests

end PEval.ManagerHeap
