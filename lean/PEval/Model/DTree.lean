/-!
# Decision trees over abstract atoms (the target of the decision-table translator)

`harness/dtable.py` runs a real Python function on symbolic inputs that expose only *atoms* — Boolean facts and
three-way order comparisons of named numeric terms — on every assignment of the atoms it actually queries, and emits
the resulting decision tree as Lean data (`PEval/Gen/*.lean`, hash-consed into a chain of `def`s). This file has the
generic part: the tree type, its evaluation under a valuation, and a checker `agree` deciding that a generated tree
and a hand-written model tree compute the same result under EVERY valuation that avoids a list of forbidden
conjunctions — complete for the finite decision space, and proved sound below once and for all
(`agree_sound`). The per-run proof obligation is then `agree forb modelTree Gen.tree ∅ = true` by kernel evaluation.

Atoms are numbered (`Nat`); the numbering is shared by the Python registry and the model file of the function.
Order atoms of different pairs of terms are treated as independent (an over-approximation of the input space,
which is sound for "table = model").
-/
namespace PEval.DT

/-- what a run ends with: a returned Boolean, a raised exception (numbered kind), anything else, or the marker of a
branch the explorer cut because its decisions are jointly unrealisable -/
inductive Res
  | ret (b : Bool)
  | raise (e : Nat)
  | other (k : Nat)
  | unreachable
deriving DecidableEq, Repr

inductive DTree
  | leaf (r : Res)
  | bnode (a : Nat) (no yes : DTree)
  | cnode (a : Nat) (lt eq gt : DTree)
deriving Repr

/-- a valuation of the atoms -/
structure Val where
  b : Nat → Bool
  c : Nat → Ordering

def eval : DTree → Val → Res
  | .leaf r, _ => r
  | .bnode a n y, v => match v.b a with
    | true => eval y v
    | false => eval n v
  | .cnode a l e g, v => match v.c a with
    | .lt => eval l v
    | .eq => eval e v
    | .gt => eval g v

/-- continuation-passing constructors for hand-written model trees -/
def askB (a : Nat) (k : Bool → DTree) : DTree := .bnode a (k false) (k true)
def askC (a : Nat) (k : Ordering → DTree) : DTree := .cnode a (k .lt) (k .eq) (k .gt)

theorem eval_askB (a : Nat) (k : Bool → DTree) (v : Val) : eval (askB a k) v = eval (k (v.b a)) v := by
  unfold askB; rw [eval]; cases v.b a <;> rfl

theorem eval_askC (a : Nat) (k : Ordering → DTree) (v : Val) : eval (askC a k) v = eval (k (v.c a)) v := by
  unfold askC; rw [eval]; cases v.c a <;> rfl

/-! ## forbidden conjunctions -/

inductive Lit
  | b (a : Nat) (x : Bool)
  | c (a : Nat) (o : Ordering)
deriving DecidableEq, Repr

def Lit.holds (v : Val) : Lit → Bool
  | .b a x => v.b a == x
  | .c a o => v.c a == o

/-- `v` satisfies none of the forbidden conjunctions -/
def consistent (forb : List (List Lit)) (v : Val) : Bool := forb.all fun cl => !(cl.all (Lit.holds v))

/-! ## partial assignments (the decisions taken so far on a path) -/

structure PA where
  b : List (Nat × Bool)
  c : List (Nat × Ordering)

def PA.empty : PA := ⟨[], []⟩
def PA.setB (p : PA) (a : Nat) (x : Bool) : PA := { p with b := (a, x) :: p.b }
def PA.setC (p : PA) (a : Nat) (o : Ordering) : PA := { p with c := (a, o) :: p.c }

def Lit.inPA (p : PA) : Lit → Bool
  | .b a x => p.b.lookup a == some x
  | .c a o => p.c.lookup a == some o

/-- the decisions of `p` already contain a forbidden conjunction -/
def violates (forb : List (List Lit)) (p : PA) : Bool := forb.any fun cl => cl.all (Lit.inPA p)

/-- `v` extends `p` -/
def ext (v : Val) (p : PA) : Prop := (∀ a x, p.b.lookup a = some x → v.b a = x) ∧ (∀ a o, p.c.lookup a = some o → v.c a = o)

/-! ## the checker -/

/-- every leaf of `m` that is reachable under `p` (atoms not decided by `p` branch) carries `r`, or sits under
decisions containing a forbidden conjunction -/
def allLeaves (forb : List (List Lit)) (r : Res) : DTree → PA → Bool
  | .leaf r', p => r' == r || violates forb p
  | .bnode a n y, p =>
    match p.b.lookup a with
    | some true => allLeaves forb r y p
    | some false => allLeaves forb r n p
    | none => allLeaves forb r n (p.setB a false) && allLeaves forb r y (p.setB a true)
  | .cnode a l e g, p =>
    match p.c.lookup a with
    | some .lt => allLeaves forb r l p
    | some .eq => allLeaves forb r e p
    | some .gt => allLeaves forb r g p
    | none => allLeaves forb r l (p.setC a .lt) && allLeaves forb r e (p.setC a .eq) && allLeaves forb r g (p.setC a .gt)

/-- follow `m` as far as `p` decides its root atom -/
def adv : DTree → PA → DTree
  | .leaf r, _ => .leaf r
  | .bnode a n y, p =>
    match p.b.lookup a with
    | some true => adv y p
    | some false => adv n p
    | none => .bnode a n y
  | .cnode a l e g, p =>
    match p.c.lookup a with
    | some .lt => adv l p
    | some .eq => adv e p
    | some .gt => adv g p
    | none => .cnode a l e g

/-- record a decision only when asked to -/
def PA.recB (p : PA) (st : Bool) (a : Nat) (x : Bool) : PA := match st with | true => p.setB a x | false => p
def PA.recC (p : PA) (st : Bool) (a : Nat) (o : Ordering) : PA := match st with | true => p.setC a o | false => p

/-- `code` and `m` give the same result under every valuation extending `p` and avoiding `forb`.
Both trees are descended together. When both ask the same atom, the model's sub-tree is passed down and the decision
is recorded in `p` only for the atoms listed in `sticky` (atoms that a tree may ask again further down: recording
is always sound, NOT recording keeps the arguments of the recursive calls equal across paths that share a sub-tree,
which is what makes kernel evaluation fast). When the model's root asks another atom, the decision is recorded and
the model waits (its root atom is decided later, or branched on at the leaf). -/
def agree (forb : List (List Lit)) (sticky : List Nat) : DTree → DTree → PA → Bool
  | .leaf r, m, p => violates forb p || allLeaves forb r m p
  | .bnode a n y, m, p =>
    match p.b.lookup a with
    | some true => agree forb sticky y m p
    | some false => agree forb sticky n m p
    | none =>
      match adv m p with
      | .bnode a' n' y' =>
        if a' = a then
          agree forb sticky n n' (p.recB (sticky.contains a) a false) && agree forb sticky y y' (p.recB (sticky.contains a) a true)
        else agree forb sticky n (.bnode a' n' y') (p.setB a false) && agree forb sticky y (.bnode a' n' y') (p.setB a true)
      | m' => agree forb sticky n m' (p.setB a false) && agree forb sticky y m' (p.setB a true)
  | .cnode a l e g, m, p =>
    match p.c.lookup a with
    | some .lt => agree forb sticky l m p
    | some .eq => agree forb sticky e m p
    | some .gt => agree forb sticky g m p
    | none =>
      match adv m p with
      | .cnode a' l' e' g' =>
        if a' = a then
          agree forb sticky l l' (p.recC (sticky.contains a) a .lt) && agree forb sticky e e' (p.recC (sticky.contains a) a .eq) &&
            agree forb sticky g g' (p.recC (sticky.contains a) a .gt)
        else agree forb sticky l (.cnode a' l' e' g') (p.setC a .lt) && agree forb sticky e (.cnode a' l' e' g') (p.setC a .eq) &&
          agree forb sticky g (.cnode a' l' e' g') (p.setC a .gt)
      | m' => agree forb sticky l m' (p.setC a .lt) && agree forb sticky e m' (p.setC a .eq) && agree forb sticky g m' (p.setC a .gt)

/-! ## soundness -/

theorem ext_setB {v : Val} {p : PA} (h : ext v p) (a : Nat) : ext v (p.setB a (v.b a)) := by
  refine ⟨?_, h.2⟩
  intro a' x hx
  simp only [PA.setB, List.lookup_cons] at hx
  by_cases e : a' = a
  · subst e; simp at hx; exact hx
  · have : (a' == a) = false := by simpa using e
    rw [this] at hx; exact h.1 a' x hx

theorem ext_setC {v : Val} {p : PA} (h : ext v p) (a : Nat) : ext v (p.setC a (v.c a)) := by
  refine ⟨h.1, ?_⟩
  intro a' x hx
  simp only [PA.setC, List.lookup_cons] at hx
  by_cases e : a' = a
  · subst e; simp at hx; exact hx
  · have : (a' == a) = false := by simpa using e
    rw [this] at hx; exact h.2 a' x hx

theorem ext_recB {v : Val} {p : PA} (h : ext v p) (st : Bool) (a : Nat) : ext v (p.recB st a (v.b a)) := by
  cases st
  · exact h
  · exact ext_setB h a

theorem ext_recC {v : Val} {p : PA} (h : ext v p) (st : Bool) (a : Nat) : ext v (p.recC st a (v.c a)) := by
  cases st
  · exact h
  · exact ext_setC h a

theorem lit_inPA {v : Val} {p : PA} (h : ext v p) {l : Lit} (hl : l.inPA p = true) : l.holds v = true := by
  cases l with
  | b a x => simp only [Lit.inPA, beq_iff_eq] at hl; simp [Lit.holds, h.1 a x hl]
  | c a o => simp only [Lit.inPA, beq_iff_eq] at hl; simp [Lit.holds, h.2 a o hl]

theorem violates_inconsistent {forb : List (List Lit)} {v : Val} {p : PA} (h : ext v p)
    (hv : violates forb p = true) : consistent forb v = false := by
  simp only [violates, List.any_eq_true] at hv
  obtain ⟨cl, hcl, hall⟩ := hv
  rw [Bool.eq_false_iff]
  intro hc
  simp only [consistent, List.all_eq_true] at hc
  have := hc cl hcl
  simp only [Bool.not_eq_true', ← Bool.not_eq_true, List.all_eq_true] at this
  apply this
  intro l hl
  exact lit_inPA h (List.all_eq_true.1 hall l hl)

theorem allLeaves_sound {forb : List (List Lit)} {r : Res} {v : Val} (hc : consistent forb v = true) :
    ∀ (m : DTree) (p : PA), ext v p → allLeaves forb r m p = true → eval m v = r := by
  intro m
  induction m with
  | leaf r' =>
    intro p hp h
    simp only [allLeaves, Bool.or_eq_true, beq_iff_eq] at h
    rcases h with h | h
    · simpa [eval] using h
    · rw [violates_inconsistent hp h] at hc; cases hc
  | bnode a n y ihn ihy =>
    intro p hp h
    rw [allLeaves] at h
    rw [eval]
    cases hl : p.b.lookup a with
    | some x =>
      rw [hl] at h
      have hx := hp.1 a x hl
      cases x <;> simp only [] at h <;> rw [hx]
      · exact ihn p hp h
      · exact ihy p hp h
    | none =>
      rw [hl] at h
      simp only [Bool.and_eq_true] at h
      have hp' := ext_setB hp a
      cases hb : v.b a <;> rw [hb] at hp'
      · exact ihn _ hp' h.1
      · exact ihy _ hp' h.2
  | cnode a l e g ihl ihe ihg =>
    intro p hp h
    rw [allLeaves] at h
    rw [eval]
    cases hl : p.c.lookup a with
    | some x =>
      rw [hl] at h
      have hx := hp.2 a x hl
      cases x <;> simp only [] at h <;> rw [hx]
      · exact ihl p hp h
      · exact ihe p hp h
      · exact ihg p hp h
    | none =>
      rw [hl] at h
      simp only [Bool.and_eq_true] at h
      have hp' := ext_setC hp a
      cases hb : v.c a <;> rw [hb] at hp'
      · exact ihl _ hp' h.1.1
      · exact ihe _ hp' h.1.2
      · exact ihg _ hp' h.2

theorem eval_adv {v : Val} : ∀ (m : DTree) (p : PA), ext v p → eval (adv m p) v = eval m v := by
  intro m
  induction m with
  | leaf r => intro p _; rfl
  | bnode a n y ihn ihy =>
    intro p hp
    rw [adv]
    cases hl : p.b.lookup a with
    | some x =>
      have hx := hp.1 a x hl
      cases x <;> simp only []
      · rw [ihn p hp]; conv => rhs; rw [eval, hx]
      · rw [ihy p hp]; conv => rhs; rw [eval, hx]
    | none => rfl
  | cnode a l e g ihl ihe ihg =>
    intro p hp
    rw [adv]
    cases hl : p.c.lookup a with
    | some x =>
      have hx := hp.2 a x hl
      cases x <;> simp only []
      · rw [ihl p hp]; conv => rhs; rw [eval, hx]
      · rw [ihe p hp]; conv => rhs; rw [eval, hx]
      · rw [ihg p hp]; conv => rhs; rw [eval, hx]
    | none => rfl

theorem agree_sound_aux {forb : List (List Lit)} {sticky : List Nat} {v : Val} (hc : consistent forb v = true) :
    ∀ (code m : DTree) (p : PA), ext v p → agree forb sticky code m p = true → eval code v = eval m v := by
  intro code
  induction code with
  | leaf r =>
    intro m p hp h
    simp only [agree, Bool.or_eq_true] at h
    rcases h with h | h
    · rw [violates_inconsistent hp h] at hc; cases hc
    · rw [allLeaves_sound hc m p hp h]; rfl
  | bnode a n y ihn ihy =>
    intro m p hp h
    rw [agree] at h
    conv => lhs; rw [eval]
    cases hl : p.b.lookup a with
    | some x =>
      rw [hl] at h
      have hx := hp.1 a x hl
      cases x <;> simp only [] at h <;> rw [hx]
      · exact ihn m p hp h
      · exact ihy m p hp h
    | none =>
      rw [hl] at h
      simp only [] at h
      have hadv := eval_adv (v := v) m p hp
      have hp' := ext_setB hp a
      rw [← hadv]
      cases hm : adv m p with
      | leaf r' =>
        rw [hm] at h; simp only [Bool.and_eq_true] at h
        cases hb : v.b a <;> rw [hb] at hp'
        · exact ihn _ _ hp' h.1
        · exact ihy _ _ hp' h.2
      | cnode a' l' e' g' =>
        rw [hm] at h; simp only [Bool.and_eq_true] at h
        cases hb : v.b a <;> rw [hb] at hp'
        · exact ihn _ _ hp' h.1
        · exact ihy _ _ hp' h.2
      | bnode a' n' y' =>
        rw [hm] at h; simp only [] at h
        by_cases e : a' = a
        · subst e
          simp only [if_true, Bool.and_eq_true] at h
          conv => rhs; rw [eval]
          have hq := ext_recB hp (sticky.contains a') a'
          cases hb : v.b a' <;> rw [hb] at hq
          · exact ihn _ _ hq h.1
          · exact ihy _ _ hq h.2
        · simp only [e, if_false, Bool.and_eq_true] at h
          cases hb : v.b a <;> rw [hb] at hp'
          · exact ihn _ _ hp' h.1
          · exact ihy _ _ hp' h.2
  | cnode a l e g ihl ihe ihg =>
    intro m p hp h
    rw [agree] at h
    conv => lhs; rw [eval]
    cases hl : p.c.lookup a with
    | some x =>
      rw [hl] at h
      have hx := hp.2 a x hl
      cases x <;> simp only [] at h <;> rw [hx]
      · exact ihl m p hp h
      · exact ihe m p hp h
      · exact ihg m p hp h
    | none =>
      rw [hl] at h
      simp only [] at h
      have hadv := eval_adv (v := v) m p hp
      have hp' := ext_setC hp a
      rw [← hadv]
      cases hm : adv m p with
      | leaf r' =>
        rw [hm] at h; simp only [Bool.and_eq_true] at h
        cases hb : v.c a <;> rw [hb] at hp'
        · exact ihl _ _ hp' h.1.1
        · exact ihe _ _ hp' h.1.2
        · exact ihg _ _ hp' h.2
      | bnode a' n' y' =>
        rw [hm] at h; simp only [Bool.and_eq_true] at h
        cases hb : v.c a <;> rw [hb] at hp'
        · exact ihl _ _ hp' h.1.1
        · exact ihe _ _ hp' h.1.2
        · exact ihg _ _ hp' h.2
      | cnode a' l' e' g' =>
        rw [hm] at h; simp only [] at h
        by_cases e : a' = a
        · subst e
          simp only [if_true, Bool.and_eq_true] at h
          conv => rhs; rw [eval]
          have hq := ext_recC hp (sticky.contains a') a'
          cases hb : v.c a' <;> rw [hb] at hq
          · exact ihl _ _ hq h.1.1
          · exact ihe _ _ hq h.1.2
          · exact ihg _ _ hq h.2
        · simp only [e, if_false, Bool.and_eq_true] at h
          cases hb : v.c a <;> rw [hb] at hp'
          · exact ihl _ _ hp' h.1.1
          · exact ihe _ _ hp' h.1.2
          · exact ihg _ _ hp' h.2

theorem ext_empty (v : Val) : ext v PA.empty := ⟨fun _ _ h => by simp [PA.empty] at h, fun _ _ h => by simp [PA.empty] at h⟩

/-- the checker is sound: if it accepts, the two trees agree under every consistent valuation -/
theorem agree_sound {forb : List (List Lit)} {sticky : List Nat} {code m : DTree}
    (h : agree forb sticky code m PA.empty = true) :
    ∀ v : Val, consistent forb v = true → eval code v = eval m v :=
  fun v hc => agree_sound_aux hc code m PA.empty (ext_empty v) h

end PEval.DT
