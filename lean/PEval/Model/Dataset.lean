import PEval.Gen.Labels
import PEval.Model.Basic
import PEval.Model.Enums
/-!
Model of the 3-D dataset loader (`perception_eval/common/dataset.py`: `load_all_datasets`,
`_load_dataset`; `common/dataset_utils.py`: `_sample_to_frame`, `_get_sample_boxes`,
`_get_transforms` (the ego→map matrix and the averaged traffic-light camera), `_convert_nuscenes_box_to_dynamic_object`,
`_get_tracking_data`; `common/label.py`: `LabelConverter.convert_label`; `common/schema.py`:
`Visibility.from_value`).

The nuScenes devkit is an EXTERNAL CONTRACT (DESIGN 4.6); what is modelled of it is its table
semantics, checked against the real devkit on generated dataset directories by the harness:

* `nusc.get(table, token)`            = the LAST record of that table carrying the token (`_token2ind` is
                                        filled by assignment in table order; `KeyError` if none);
* `sample["anns"]`                    = the sample's annotations in annotation-table order;
* `sample["data"][channel]`           = the LAST key-frame `sample_data` of the sample whose calibrated
                                        sensor's sensor has that channel (dict assignment in table order);
* `record["category_name"]`           = name of the category of the annotation's instance;
* `nusc.get_boxes(sd)` (key frame)    = one box per annotation: annotated translation / size / rotation;
* `nusc.get_sample_data(sd)`          = those boxes moved by the inverse ego pose of `sd`, then by the
                                        inverse pose of `sd`'s calibrated sensor
                                        (`Box.translate(-t); Box.rotate(q.inverse)` twice);
* `PredictHelper.get_sample_annotation(instance, sample)` = the LAST annotation of that sample and instance;
* `PredictHelper.get_past_for_agent(.., seconds=3.0, just_xy=False)` = walk along `prev` from it, keeping the
                                        records less than 3.15 s back, at most 6 (`_iterate`);
* `NuScenes.box_velocity(token)`      = finite difference of the translations of the `prev` / `next`
                                        annotations (the annotation itself where a side is missing) over the
                                        difference of their sample times in float seconds; `nan` when both
                                        sides are missing or the time difference exceeds 1.5 s (3 s centred);
* `NuImages.get` / `nuim.object_ann`  = the same JSON tables (`sample`, `category`, `attribute`, `object_ann`).

Float seconds: `1e-6 * timestamp` is an IEEE product, not a rational function of the timestamp; the
harness hands its exact value in as `Sample.secs` (for timestamps that are multiples of 1/64 s it is
`timestamp / 10^6` exactly). Everything computed from it is exact rational arithmetic.

Numbers are exact rationals; full 3-D rotations are quaternions over ℚ acting through the
homogeneous rotation-matrix formula (DESIGN 4.2). `Quaternion.inverse` is modelled by the conjugate
(equal on unit quaternions, which is what pose tables hold).
-/
namespace PEval.Dataset
open PEval

/-! ## a small rational quaternion algebra -/

structure Vec3 where
  x : Rat
  y : Rat
  z : Rat
deriving DecidableEq, Repr, Inhabited

structure Quat where
  w : Rat
  x : Rat
  y : Rat
  z : Rat
deriving DecidableEq, Repr, Inhabited

namespace Vec3
def zero : Vec3 := ⟨0, 0, 0⟩
def add (a b : Vec3) : Vec3 := ⟨a.x + b.x, a.y + b.y, a.z + b.z⟩
def sub (a b : Vec3) : Vec3 := ⟨a.x - b.x, a.y - b.y, a.z - b.z⟩
/-- numpy `v / k` -/
def divBy (a : Vec3) (k : Rat) : Vec3 := ⟨a.x / k, a.y / k, a.z / k⟩
end Vec3

namespace Quat
def one : Quat := ⟨1, 0, 0, 0⟩
/-- Hamilton product -/
def mul (p q : Quat) : Quat :=
  ⟨p.w * q.w - p.x * q.x - p.y * q.y - p.z * q.z,
   p.w * q.x + p.x * q.w + p.y * q.z - p.z * q.y,
   p.w * q.y - p.x * q.z + p.y * q.w + p.z * q.x,
   p.w * q.z + p.x * q.y - p.y * q.x + p.z * q.w⟩
def conj (q : Quat) : Quat := ⟨q.w, -q.x, -q.y, -q.z⟩
def zero : Quat := ⟨0, 0, 0, 0⟩
def add (p q : Quat) : Quat := ⟨p.w + q.w, p.x + q.x, p.y + q.y, p.z + q.z⟩
def normSq (q : Quat) : Rat := q.w * q.w + q.x * q.x + q.y * q.y + q.z * q.z
/-- pyquaternion `-q` (the same rotation as `q`) -/
def neg (q : Quat) : Quat := ⟨-q.w, -q.x, -q.y, -q.z⟩
/-- `np.dot(p.q, q.q)`: the 4-D dot product of the components -/
def dot (p q : Quat) : Rat := p.w * q.w + p.x * q.x + p.y * q.y + p.z * q.z
end Quat

/-- `q.rotation_matrix · v` by the homogeneous rotation-matrix formula (a rotation when `normSq q = 1`) -/
def rotate (q : Quat) (v : Vec3) : Vec3 :=
  ⟨(q.w * q.w + q.x * q.x - q.y * q.y - q.z * q.z) * v.x + 2 * (q.x * q.y - q.w * q.z) * v.y + 2 * (q.x * q.z + q.w * q.y) * v.z,
   2 * (q.x * q.y + q.w * q.z) * v.x + (q.w * q.w - q.x * q.x + q.y * q.y - q.z * q.z) * v.y + 2 * (q.y * q.z - q.w * q.x) * v.z,
   2 * (q.x * q.z - q.w * q.y) * v.x + 2 * (q.y * q.z + q.w * q.x) * v.y + (q.w * q.w - q.x * q.x - q.y * q.y + q.z * q.z) * v.z⟩

/-- position and orientation -/
structure Pose where
  pos : Vec3
  rot : Quat
deriving DecidableEq, Repr, Inhabited

/-- `HomogeneousMatrix(pos, rot).transform(position, rotation)`: `R·p + t`, `R·R'` -/
def applyPose (t : Pose) (p : Pose) : Pose :=
  ⟨(rotate t.rot p.pos).add t.pos, t.rot.mul p.rot⟩

/-- `box.translate(-t); box.rotate(q.inverse)` of the devkit: the pose seen from the frame `(t, q)` -/
def moveInv (t : Vec3) (q : Quat) (p : Pose) : Pose :=
  ⟨rotate q.conj (p.pos.sub t), q.conj.mul p.rot⟩

/-! ## the tables -/

structure Sample where
  token : String
  timestamp : Nat
  secs : Rat             -- the float `1e-6 * timestamp` (exact value, see the header)
deriving DecidableEq, Repr

structure Sensor where
  token : String
  channel : String
deriving DecidableEq, Repr

structure CalibratedSensor where
  token : String
  sensorToken : String
  translation : Vec3
  rotation : Quat
deriving DecidableEq, Repr

structure EgoPose where
  token : String
  translation : Vec3
  rotation : Quat
deriving DecidableEq, Repr

structure SampleData where
  token : String
  sampleToken : String
  egoPoseToken : String
  calibratedSensorToken : String
  isKeyFrame : Bool
deriving DecidableEq, Repr

structure Named where   -- category, attribute: (token, name); visibility: (token, level)
  token : String
  name : String
deriving DecidableEq, Repr

structure Instance where
  token : String
  categoryToken : String
  instanceName : String  -- T4 `instance_name` ("<scene>::<category>:<regulatory element id>"); "" if absent
deriving DecidableEq, Repr

structure Annotation where
  token : String
  sampleToken : String
  instanceToken : String
  visibilityToken : String
  attributeTokens : List String
  translation : Vec3
  size : Vec3            -- (width, length, height), stored as x y z
  rotation : Quat
  prev : String          -- "" = none
  next : String          -- "" = none
  numLidarPts : Nat
deriving DecidableEq, Repr

/-- a record of `object_ann.json` (2-D annotation on one camera image) -/
structure ObjectAnn where
  token : String
  sampleDataToken : String
  instanceToken : String
  categoryToken : String
  attributeTokens : List String
  x0 : Rat               -- bbox = [xmin, ymin, xmax, ymax] as written in the JSON file
  y0 : Rat
  x1 : Rat
  y1 : Rat
deriving DecidableEq, Repr

structure Tables where
  samples : List Sample
  sensors : List Sensor
  calibratedSensors : List CalibratedSensor
  egoPoses : List EgoPose
  sampleData : List SampleData
  categories : List Named
  attributes : List Named
  visibility : List Named
  instances : List Instance
  annotations : List Annotation
  objectAnns : List ObjectAnn := []
deriving Repr

/-- the requested configuration of a 3-D task -/
structure Config where
  tracking : Bool        -- `evaluation_task == EvaluationTask.TRACKING`
  frame : String         -- member name of `FrameID`
  merge : Bool           -- `merge_similar_labels`
  fpValidation : Bool := false   -- `evaluation_task.is_fp_validation()` (`FP_VALIDATION`)
deriving DecidableEq, Repr

/-- the requested configuration of a 2-D task -/
structure Config2D where
  task : String          -- member name of `EvaluationTask`: DETECTION2D, TRACKING2D, CLASSIFICATION2D, FP_VALIDATION2D
  family : String        -- `label_prefix`: "autoware" or "traffic_light"
  merge : Bool           -- `merge_similar_labels`
  frames : List String   -- member names of `FrameID`, in the order given
deriving DecidableEq, Repr

/-! ## the loader's outputs -/

structure PastState where
  pose : Pose
  size : Vec3
  velocity : Option Vec3       -- `nusc.box_velocity`; `none` = the all-`nan` vector
deriving DecidableEq, Repr

structure Obj where
  uuid : String
  label : String               -- member name of `AutowareLabel`
  name : String                -- `Label.name`: the category name as annotated
  attributes : List String
  size : Vec3
  points : Nat
  visibility : Option String   -- member name of `Visibility`; `none` = Python `None`
  frame : String
  time : Nat
  pose : Pose
  velocity : Option Vec3       -- `_get_box_velocity`; `none` = Python `None`
  tracked : Option (List PastState)
deriving DecidableEq, Repr

structure Frame where
  unixTime : Nat
  frameName : String
  objects : List Obj
  ego2map : Pose               -- the `BASE_LINK -> MAP` matrix stored with the frame
deriving DecidableEq, Repr

/-- `Roi((xmin, ymin, width, height))` -/
structure Roi where
  x : Int
  y : Int
  w : Int
  h : Int
deriving DecidableEq, Repr

structure Obj2D where
  uuid : String
  label : String               -- member name of `AutowareLabel` / `TrafficLightLabel`
  name : String
  attributes : List String
  roi : Option Roi
  frame : String               -- member name of `FrameID` (a camera)
  time : Nat
deriving DecidableEq, Repr

structure Frame2D where
  unixTime : Nat
  frameName : String
  objects : List Obj2D
  ego2map : Option Pose        -- `none`: no requested camera has data in the sample (`transforms=None`)
deriving DecidableEq, Repr

/-! ## generic helpers -/

/-- `nusc.get(table, token)`: the index `_token2ind[table][token]` is built by assignment in table
order, so the LAST record carrying the token answers -/
def lookup {α} (tok : α → String) (tbl : List α) (t : String) : Except Err α :=
  match tbl.reverse.find? (fun r => tok r == t) with
  | some r => .ok r
  | none => .error "KeyError"

/-- a Python `for` loop whose body may raise: stops at the first exception -/
def mapE {α β} (f : α → Except Err β) : List α → Except Err (List β)
  | [] => .ok []
  | a :: l =>
    match f a with
    | .error e => .error e
    | .ok b =>
      match mapE f l with
      | .error e => .error e
      | .ok bs => .ok (b :: bs)

/-! ## label conversion and visibility -/

def pairTable (merge : Bool) : List (String × String) :=
  if merge then Gen.autowarePairsMerged else Gen.autowarePairs

/-- `LabelConverter.convert_label(name).label`: lower-case, first match, `UNKNOWN` fallback -/
def convertWith (table : List (String × String)) (name : String) : String :=
  match table.find? (fun p => name.toLower == p.2) with
  | some p => p.1
  | none => "UNKNOWN"

/-- … for the `autoware` prefix -/
def convertLabel (merge : Bool) (name : String) : String := convertWith (pairTable merge) name

/-- `_get_traffic_light_paris(evaluation_task)`: the classification table or the other one -/
def trafficLightTable (task : String) : List (String × String) :=
  match Gen.trafficLightTableOfTask.find? (fun p => p.1 == task) with
  | some (_, "classification") => Gen.trafficLightPairsClassification
  | _ => Gen.trafficLightPairsOther

/-- the pair list of `LabelConverter(task, merge, label_prefix)` -/
def pairTable2D (cfg : Config2D) : List (String × String) :=
  if cfg.family = "traffic_light" then trafficLightTable cfg.task else pairTable cfg.merge

/-- `Visibility.from_value(level)` never raises (alias table, then the fallback member) -/
def visibilityOfLevel (level : String) : String :=
  match Enums.visibilityFromValue level with
  | .ok m => m
  | .error _ => Gen.visibilityAliasFallback

/-! ## devkit views of the tables -/

/-- `sample["anns"]`, resolved -/
def annsOf (T : Tables) (sampleToken : String) : List Annotation :=
  T.annotations.filter (fun a => a.sampleToken == sampleToken)

/-- `record["channel"]` of a sample_data record (decoration done by `NuScenes.__init__`) -/
def channelOf (T : Tables) (sd : SampleData) : Except Err String := do
  let cs ← lookup CalibratedSensor.token T.calibratedSensors sd.calibratedSensorToken
  let s ← lookup Sensor.token T.sensors cs.sensorToken
  pure s.channel

/-- `sample["data"].get(channel)`: the last key-frame record of the sample with that channel -/
def dataOf (T : Tables) (sampleToken channel : String) : Option SampleData :=
  T.sampleData.reverse.find? (fun sd =>
    sd.isKeyFrame && sd.sampleToken == sampleToken && (channelOf T sd == .ok channel))

/-- `_sample_to_frame`: `LIDAR_TOP` if the sample has it, else `LIDAR_CONCAT`, else `ValueError` -/
def lidarOf (T : Tables) (sampleToken : String) : Except Err SampleData :=
  match dataOf T sampleToken "LIDAR_TOP" with
  | some sd => .ok sd
  | none =>
    match dataOf T sampleToken "LIDAR_CONCAT" with
    | some sd => .ok sd
    | none => .error "ValueError"

def annPose (a : Annotation) : Pose := ⟨a.translation, a.rotation⟩

/-- `_get_sample_boxes`: `nusc.get_boxes` for MAP, `nusc.get_sample_data` for BASE_LINK -/
def boxPose (frame : String) (ego : EgoPose) (cs : CalibratedSensor) (a : Annotation) : Except Err Pose :=
  if frame = "BASE_LINK" then
    .ok (moveInv cs.translation cs.rotation (moveInv ego.translation ego.rotation (annPose a)))
  else if frame = "MAP" then .ok (annPose a)
  else .error "ValueError"

/-- `frame_id_.value.upper()` of a `FrameID` member -/
def cameraType (frame : String) : String :=
  match Gen.frameID.find? (fun p => p.1 == frame) with
  | some p => p.2.toUpper
  | none => frame

/-- Python `needle in haystack` on strings -/
def containsSub : List Char → List Char → Bool
  | [], sub => sub.isEmpty
  | c :: cs, sub => sub.isPrefixOf (c :: cs) || containsSub cs sub

/-- `"CAM_TRAFFIC_LIGHT" in sensor_frame_id.value.upper()` -/
def isTlrCamera (member : String) : Bool :=
  containsSub (cameraType member).toList "CAM_TRAFFIC_LIGHT".toList

/-- the calibrated rotations of the traffic-light cameras as written in the table, in table order -/
def tlrRawRotations (T : Tables) (frames : List String) : List Quat :=
  (T.calibratedSensors.zip frames).filterMap (fun p => if isTlrCamera p.2 then some p.1.rotation else none)

/-- `if np.dot(tlr_avg_quat[0].q, sensor_rotation.q) < 0: sensor_rotation = -sensor_rotation` -/
def alignTo (q0 q : Quat) : Quat := if Quat.dot q0 q < 0 then q.neg else q

/-- the sign alignment of `_get_transforms`: the first rotation is appended as it is (`len(tlr_avg_quat) > 0`
fails), every later one is negated when its 4-D dot product with the FIRST one is negative -/
def alignSigns : List Quat → List Quat
  | [] => []
  | q0 :: rest => q0 :: rest.map (alignTo q0)

/-- `tlr_avg_quat`: the calibrated rotations of the traffic-light cameras, in table order, sign-aligned
with the first of them (`q` and `-q` are one and the same rotation; repair of finding C16-N1) -/
def tlrRotations (T : Tables) (frames : List String) : List Quat :=
  alignSigns (tlrRawRotations T frames)

/-- `tlr_avg_pos`: the calibrated translations of the traffic-light cameras, in table order -/
def tlrPositions (T : Tables) (frames : List String) : List Vec3 :=
  (T.calibratedSensors.zip frames).filterMap (fun p => if isTlrCamera p.2 then some p.1.translation else none)

/-- the loop of `_get_transforms` over `nusc.calibrated_sensor`: every calibrated sensor's sensor must
resolve (`KeyError`) and its channel must be a `FrameID` value (`FrameID.from_value`: `ValueError`);
the result lists the source frames of the sensor→ego matrices. Afterwards the sign-aligned rotations of
the traffic-light cameras are averaged, `sum(tlr_avg_quat) / sum(tlr_avg_quat).norm`: Python divides by
the norm, so a zero sum would raise `ZeroDivisionError`. Since the repair of finding C16-N1 (sign
alignment) that cannot happen unless the first rotation is itself the zero quaternion
(`PEval.C16.traffic_light_rotations_never_cancel`). -/
def sensorFrames (T : Tables) : Except Err (List String) :=
  match mapE (fun cs =>
    match lookup Sensor.token T.sensors cs.sensorToken with
    | .error e => .error e
    | .ok s => Enums.frameFromValue s.channel) T.calibratedSensors with
  | .error e => .error e
  | .ok frames =>
    if !(tlrRotations T frames).isEmpty && (tlrRotations T frames).foldl Quat.add Quat.zero == Quat.zero
    then .error "ZeroDivisionError" else .ok frames

/-- the `CAM_TRAFFIC_LIGHT -> BASE_LINK` matrix that `_get_transforms` appends when the dataset has
traffic-light cameras: position `np.mean(tlr_avg_pos, axis=0)`; `rot` holds the SUM of the sign-aligned
rotations — Python stores that sum divided by its norm (irrational in general), which is the same
rotation under the homogeneous rotation-matrix formula. `none`: no traffic-light camera. -/
def tlrAverage (T : Tables) : Except Err (Option Pose) :=
  match sensorFrames T with
  | .error e => .error e
  | .ok frames =>
    if (tlrRotations T frames).isEmpty then .ok none
    else .ok (some ⟨((tlrPositions T frames).foldl Vec3.add Vec3.zero).divBy ((tlrPositions T frames).length : Nat),
                    (tlrRotations T frames).foldl Quat.add Quat.zero⟩)

/-! ## velocities (`_get_box_velocity` of perception_eval, `NuScenes.box_velocity` of the devkit) -/

def secsOf (T : Tables) (sampleToken : String) : Except Err Rat :=
  (lookup Sample.token T.samples sampleToken).map (·.secs)

/-- `max_time_diff` (1.5 s), doubled for the centred difference -/
def maxTimeDiff (cur : Annotation) : Rat := if cur.prev != "" && cur.next != "" then 3 else 3 / 2

/-- Both functions: no neighbour at all → no estimate; otherwise `first` = the `prev` record (or the
annotation itself), `last` = the `next` record (or itself), the difference of their translations over
the difference of their sample times in seconds, and no estimate when that time difference exceeds
`maxTimeDiff`. `objectFrame = true` is `_get_box_velocity`: the displacement is expressed in the
axes of `first` (`np.linalg.inv(object2map)` — the translation row written to `object2map[3, :3]`
does not reach the first three components); `false` is the devkit's `box_velocity` (global axes). -/
def velocityOf (T : Tables) (objectFrame : Bool) (cur : Annotation) : Except Err (Option Vec3) :=
  if cur.prev == "" && cur.next == "" then .ok none
  else
    match (if cur.prev == "" then .ok cur else lookup Annotation.token T.annotations cur.prev) with
    | .error e => .error e
    | .ok first =>
      match (if cur.next == "" then .ok cur else lookup Annotation.token T.annotations cur.next) with
      | .error e => .error e
      | .ok last =>
        match secsOf T last.sampleToken with
        | .error e => .error e
        | .ok tl =>
          match secsOf T first.sampleToken with
          | .error e => .error e
          | .ok tf =>
            let d := last.translation.sub first.translation
            let d := if objectFrame then rotate first.rotation.conj d else d
            .ok (if tl - tf ≤ maxTimeDiff cur then some (d.divBy (tl - tf)) else none)

/-! ## tracking history (`PredictHelper._iterate`, direction `prev`, `seconds = 3.0`) -/

/-- `seconds + BUFFER` in microseconds -/
def windowUs : Nat := 3150000
/-- `int(expected_samples_per_sec * seconds)` -/
def maxPast : Nat := 6

def timeOf (T : Tables) (sampleToken : String) : Except Err Nat :=
  (lookup Sample.token T.samples sampleToken).map (·.timestamp)

def absDiff (a b : Nat) : Nat := if a ≤ b then b - a else a - b

/-- the `while` loop of `_iterate`; `elapsed` is `time_elapsed` in µs, `acc` the records collected so
far (newest first at the END, as `annotations.append`), `fuel` bounds the walk along `prev` -/
def iterate (T : Tables) (start : Nat) : Nat → Annotation → Nat → List Annotation → Except Err (List Annotation)
  | 0, _, _, acc => .ok acc
  | fuel + 1, cur, elapsed, acc =>
    if elapsed ≤ windowUs ∧ acc.length < maxPast then
      if cur.prev == "" then .ok acc
      else
        match lookup Annotation.token T.annotations cur.prev with
        | .error e => .error e
        | .ok nxt =>
          match timeOf T nxt.sampleToken with
          | .error e => .error e
          | .ok t =>
            let el := absDiff t start
            iterate T start fuel nxt el (if el < windowUs then acc ++ [nxt] else acc)
    else .ok acc

/-- `helper.get_sample_annotation(instance_token, sample_token)`: `inst_sample_to_ann` is filled by
assignment in table order, so the LAST annotation of that sample and instance answers -/
def startOf (T : Tables) (a : Annotation) : Except Err Annotation :=
  match T.annotations.reverse.find? (fun b => b.sampleToken == a.sampleToken && b.instanceToken == a.instanceToken) with
  | some b => .ok b
  | none => .error "KeyError"

/-- `helper.get_past_for_agent(instance, sample, 3.0, _, just_xy=False)` for the annotation's instance
and sample -/
def pastRecords (T : Tables) (a : Annotation) : Except Err (List Annotation) :=
  match startOf T a with
  | .error e => .error e
  | .ok st =>
    match timeOf T st.sampleToken with
    | .error e => .error e
    | .ok t0 => iterate T t0 T.annotations.length st 0 []

/-- one entry of the history: the record's global pose and size, and `nusc.box_velocity(record)` -/
def pastStateOf (T : Tables) (r : Annotation) : Except Err PastState :=
  (velocityOf T false r).map (fun v => ⟨annPose r, r.size, v⟩)

/-- `_get_tracking_data` when the task is TRACKING, else `None` (its own frame-id test cannot fail:
`_get_sample_boxes` has already rejected any frame id but BASE_LINK and MAP) -/
def trackedOf (T : Tables) (cfg : Config) (a : Annotation) : Except Err (Option (List PastState)) :=
  if cfg.tracking then
    match pastRecords T a with
    | .error e => .error e
    | .ok recs => (mapE (pastStateOf T) recs).map some
  else .ok none

/-! ## one object, one frame, the dataset -/

/-- the visibility of an annotation: `None` when the visibility table is empty -/
def visibilityOf (T : Tables) (a : Annotation) : Except Err (Option String) :=
  if T.visibility.isEmpty then .ok none
  else (lookup Named.token T.visibility a.visibilityToken).map (fun v => some (visibilityOfLevel v.name))

/-- `record["category_name"]` -/
def categoryNameOf (T : Tables) (a : Annotation) : Except Err String := do
  let inst ← lookup Instance.token T.instances a.instanceToken
  let cat ← lookup Named.token T.categories inst.categoryToken
  pure cat.name

def attributeNamesOfTokens (T : Tables) (tokens : List String) : Except Err (List String) :=
  mapE (fun t => (lookup Named.token T.attributes t).map (·.name)) tokens

def attributeNamesOf (T : Tables) (a : Annotation) : Except Err (List String) :=
  attributeNamesOfTokens T a.attributeTokens

/-- `if evaluation_task.is_fp_validation() and semantic_label.is_fp() is False: raise ValueError` -/
def fpCheck (cfg : Config) (label : String) : Except Err Unit :=
  if cfg.fpValidation && label != "FP" then .error "ValueError" else .ok ()

/-- the loop body of `_sample_to_frame` + `_convert_nuscenes_box_to_dynamic_object` -/
def objectOf (T : Tables) (cfg : Config) (time : Nat) (ego : EgoPose) (cs : CalibratedSensor)
    (a : Annotation) : Except Err Obj := do
  let pose ← boxPose cfg.frame ego cs a
  let vis ← visibilityOf T a
  let attrs ← attributeNamesOf T a
  let name ← categoryNameOf T a
  let _ ← fpCheck cfg (convertLabel cfg.merge name)
  let vel ← velocityOf T true a
  let tracked ← trackedOf T cfg a
  pure { uuid := a.instanceToken, label := convertLabel cfg.merge name, name := name, attributes := attrs,
         size := a.size, points := a.numLidarPts, visibility := vis, frame := cfg.frame, time := time,
         pose := pose, velocity := vel, tracked := tracked }

/-- `_sample_to_frame(nusc, helper, sample_token, task, converter, frame_id, frame_name=str(n))` -/
def sampleToFrame (T : Tables) (cfg : Config) (n : Nat) (s : Sample) : Except Err Frame := do
  let sd ← lidarOf T s.token
  -- `_get_sample_boxes` rejects any other frame id before anything else is looked at
  if cfg.frame = "BASE_LINK" ∨ cfg.frame = "MAP" then
    let ego ← lookup EgoPose.token T.egoPoses sd.egoPoseToken
    let cs ← lookup CalibratedSensor.token T.calibratedSensors sd.calibratedSensorToken
    let _ ← sensorFrames T
    let objs ← mapE (objectOf T cfg s.timestamp ego cs) (annsOf T s.token)
    pure { unixTime := s.timestamp, frameName := toString n, objects := objs,
           ego2map := ⟨ego.translation, ego.rotation⟩ }
  else throw "ValueError"

/-- `for n, sample_token in enumerate(sample_tokens)` -/
def loadFrom (T : Tables) (cfg : Config) : Nat → List Sample → Except Err (List Frame)
  | _, [] => .ok []
  | n, s :: rest =>
    match sampleToFrame T cfg n s with
    | .error e => .error e
    | .ok f =>
      match loadFrom T cfg (n + 1) rest with
      | .error e => .error e
      | .ok fs => .ok (f :: fs)

/-- `load_all_datasets([path], task, converter, frame_id)` for a 3-D task -/
def loadDataset (T : Tables) (cfg : Config) : Except Err (List Frame) :=
  if T.samples.isEmpty then .error "DatasetLoadingError"
  else loadFrom T cfg 0 T.samples

/-! ## 2-D tasks (`_sample_to_frame_2d`) -/

/-- Python `int(x)` of a JSON number: truncation toward zero -/
def truncInt (r : Rat) : Int := if 0 ≤ r then r.floor else -((-r).floor)

/-- `roi = (int(b0), int(b1), int(b2) - int(b0), int(b3) - int(b1))` for DETECTION2D / TRACKING2D, else `None` -/
def roiOf (task : String) (o : ObjectAnn) : Option Roi :=
  if task = "DETECTION2D" ∨ task = "TRACKING2D" then
    some ⟨truncInt o.x0, truncInt o.y0, truncInt o.x1 - truncInt o.x0, truncInt o.y1 - truncInt o.y0⟩
  else none

/-- the first loop of `_sample_to_frame_2d`: the requested frame ids that have key-frame data in the
sample, with that `sample_data` record, in the order requested -/
def camerasOf (T : Tables) (sampleToken : String) (frames : List String) : List (String × SampleData) :=
  frames.filterMap (fun f => (dataOf T sampleToken (cameraType f)).map (fun sd => (f, sd)))

/-- `_get_transforms(nusc, sample_data_token)` is run for every camera found; the LAST one's result is kept -/
def transforms2D (T : Tables) : List (String × SampleData) → Option Pose → Except Err (Option Pose)
  | [], acc => .ok acc
  | (_, sd) :: rest, _ =>
    match lookup EgoPose.token T.egoPoses sd.egoPoseToken with
    | .error e => .error e
    | .ok ego =>
      match sensorFrames T with
      | .error e => .error e
      | .ok _ => transforms2D T rest (some ⟨ego.translation, ego.rotation⟩)

/-- `frame_id_mapping[token]`: the dict is filled in request order, the last assignment wins -/
def frameOfToken (cams : List (String × SampleData)) (sdToken : String) : Option String :=
  (cams.reverse.find? (fun c => c.2.token == sdToken)).map (·.1)

/-- `[ann for ann in nuim.object_ann if ann["sample_data_token"] in sample_data_tokens]` -/
def objectAnnsOf (T : Tables) (cams : List (String × SampleData)) : List ObjectAnn :=
  T.objectAnns.filter (fun o => (cams.map (·.2.token)).contains o.sampleDataToken)

/-- the characters after the last `':'` (`acc`: the current segment, reversed) -/
def lastSegmentChars : List Char → List Char → List Char
  | [], acc => acc.reverse
  | c :: cs, acc => if c == ':' then lastSegmentChars cs [] else lastSegmentChars cs (c :: acc)

/-- `instance_name.split(":")[-1]` -/
def lastSegment (s : String) : String := String.ofList (lastSegmentChars s.toList [])

/-- the traffic-light uuid: the regulatory-element id of the FIRST instance record with the token
(`for instance_record in nusc.instance: if … : … break`); when none matches, Python keeps the value
`uuid` had in the previous iteration (`stale`), and the very first iteration raises `UnboundLocalError` -/
def tlrUuid (T : Tables) (stale : Option String) (o : ObjectAnn) : Except Err String :=
  match T.instances.find? (fun i => i.token == o.instanceToken) with
  | some i => .ok (lastSegment i.instanceName)
  | none =>
    match stale with
    | some u => .ok u
    | none => .error "UnboundLocalError"

/-- one iteration of the annotation loop of `_sample_to_frame_2d` -/
def object2DOf (T : Tables) (cfg : Config2D) (time : Nat) (cams : List (String × SampleData))
    (stale : Option String) (o : ObjectAnn) : Except Err Obj2D :=
  match lookup Named.token T.categories o.categoryToken with
  | .error e => .error e
  | .ok cat =>
    match attributeNamesOfTokens T o.attributeTokens with
    | .error e => .error e
    | .ok attrs =>
      match (if cfg.family = "traffic_light" then tlrUuid T stale o else .ok o.instanceToken) with
      | .error e => .error e
      | .ok uuid =>
        match frameOfToken cams o.sampleDataToken with
        | none => .error "KeyError"
        | some fr =>
          .ok { uuid := uuid, label := convertWith (pairTable2D cfg) cat.name, name := cat.name,
                attributes := attrs, roi := roiOf cfg.task o, frame := fr, time := time }

/-- the annotation loop; `stale` is the Python variable `uuid` surviving from the previous iteration -/
def objects2DLoop (T : Tables) (cfg : Config2D) (time : Nat) (cams : List (String × SampleData)) :
    Option String → List ObjectAnn → Except Err (List Obj2D)
  | _, [] => .ok []
  | stale, o :: rest =>
    match object2DOf T cfg time cams stale o with
    | .error e => .error e
    | .ok obj =>
      match objects2DLoop T cfg time cams (some obj.uuid) rest with
      | .error e => .error e
      | .ok objs => .ok (obj :: objs)

/-- the distinct elements in order of first occurrence (a canonical enumeration of Python's `set(xs)`) -/
def dedupFirst : List String → List String
  | [] => []
  | x :: l => x :: (dedupFirst l).filter (fun y => y != x)

/-- `_merge_duplicated_traffic_lights` for one uuid: all candidates' labels equal → the first
candidate's label; otherwise exactly two distinct labels are allowed (`AssertionError`) and the
first candidate whose label is not UNKNOWN is taken -/
def mergeOne (time : Nat) (objs : List Obj2D) (uuid : String) : Except Err Obj2D :=
  let cands := objs.filter (fun o => o.uuid == uuid)
  match cands with
  | [] => .error "IndexError"
  | c0 :: _ =>
    let pick : Except Err Obj2D :=
      if cands.all (fun c => c.label == c0.label) then .ok c0
      else if (dedupFirst (cands.map (·.label))).length = 2 then
        match cands.find? (fun c => c.label != "UNKNOWN") with
        | some c => .ok c
        | none => .error "IndexError"
      else .error "AssertionError"
    pick.map (fun c => { uuid := uuid, label := c.label, name := c.name, attributes := c.attributes,
                         roi := none, frame := "CAM_TRAFFIC_LIGHT", time := time })

/-- `_merge_duplicated_traffic_lights`: Python iterates over `set(uuids)` whose order is unspecified;
the model answers in order of first occurrence (the harness compares up to order) -/
def mergeTrafficLights (time : Nat) (objs : List Obj2D) : Except Err (List Obj2D) :=
  mapE (mergeOne time objs) (dedupFirst (objs.map (·.uuid)))

/-- `_sample_to_frame_2d(nusc, nuim, sample_token, task, converter, frame_ids, frame_name=str(n))` -/
def sampleToFrame2D (T : Tables) (cfg : Config2D) (n : Nat) (s : Sample) : Except Err Frame2D :=
  let cams := camerasOf T s.token cfg.frames
  match transforms2D T cams none with
  | .error e => .error e
  | .ok tf =>
    match objects2DLoop T cfg s.timestamp cams none (objectAnnsOf T cams) with
    | .error e => .error e
    | .ok objs =>
      match (if cfg.family = "traffic_light" ∧ cfg.task = "CLASSIFICATION2D"
             then mergeTrafficLights s.timestamp objs else .ok objs) with
      | .error e => .error e
      | .ok objs' => .ok { unixTime := s.timestamp, frameName := toString n, objects := objs', ego2map := tf }

def loadFrom2D (T : Tables) (cfg : Config2D) : Nat → List Sample → Except Err (List Frame2D)
  | _, [] => .ok []
  | n, s :: rest =>
    match sampleToFrame2D T cfg n s with
    | .error e => .error e
    | .ok f =>
      match loadFrom2D T cfg (n + 1) rest with
      | .error e => .error e
      | .ok fs => .ok (f :: fs)

/-- `load_all_datasets([path], task, converter, frame_ids)` for a 2-D task -/
def loadDataset2D (T : Tables) (cfg : Config2D) : Except Err (List Frame2D) :=
  if T.samples.isEmpty then .error "DatasetLoadingError"
  else loadFrom2D T cfg 0 T.samples

/-! ## audit round 2: velocities as PYTHON computes them when the two sample times coincide

`velocityOf` above ends in `d.divBy (tl - tf)` with Lean's total division (`x / 0 = 0`).  Python divides a numpy
array by the float `time_diff`: for `time_diff = 0.0` the result is, component by component, `inf` / `-inf` (sign of
the displacement component) or `nan` (component 0) — a `RuntimeWarning`, no exception; `0 <= max_time_diff` always
passes the bound.  `velocityPy` makes that outcome explicit; `Vel.leanView` maps it back to what `velocityOf` answers
(`velocityOf_eq_leanView`, for all tables).  The two agree wherever `tl ≠ tf`. -/

/-- a velocity estimate as Python computes it -/
inductive Vel where
  /-- no estimate: `None` (`_get_box_velocity`) / the all-`nan` vector (`box_velocity`) -/
  | none
  /-- the displacement divided by a non-zero time difference -/
  | finite (v : Vec3)
  /-- time difference exactly 0: numpy's `d / 0.0`, carried as the displacement `d` (see `Comp.ofRat`) -/
  | div0 (d : Vec3)
deriving DecidableEq, Repr, Inhabited

/-- one component of numpy's `d / 0.0` -/
inductive Comp where
  | posInf | negInf | nan
deriving DecidableEq, Repr

def Comp.ofRat (c : Rat) : Comp := if 0 < c then .posInf else if c < 0 then .negInf else .nan

/-- the three float components Python returns for `Vel.div0 d` -/
def Vel.div0Comps (d : Vec3) : List Comp := [Comp.ofRat d.x, Comp.ofRat d.y, Comp.ofRat d.z]

/-- what the total-division model `velocityOf` answers for a Python outcome -/
def Vel.leanView : Vel → Option Vec3
  | .none => Option.none
  | .finite v => some v
  | .div0 d => some (d.divBy 0)

/-- the estimate, when it is an ordinary one -/
def Vel.toOption : Vel → Option Vec3
  | .finite v => some v
  | _ => Option.none

def Vel.ofOption : Option Vec3 → Vel
  | some v => .finite v
  | Option.none => .none

def Vel.isDiv0 : Vel → Bool
  | .div0 _ => true
  | _ => false

/-- `_get_box_velocity` (`objectFrame = true`) / `NuScenes.box_velocity` (`false`) with Python's outcome for a zero time
difference made explicit; everything else exactly as `velocityOf` -/
def velocityPy (T : Tables) (objectFrame : Bool) (cur : Annotation) : Except Err Vel :=
  if cur.prev == "" && cur.next == "" then .ok .none
  else
    match (if cur.prev == "" then .ok cur else lookup Annotation.token T.annotations cur.prev) with
    | .error e => .error e
    | .ok first =>
      match (if cur.next == "" then .ok cur else lookup Annotation.token T.annotations cur.next) with
      | .error e => .error e
      | .ok last =>
        match secsOf T last.sampleToken with
        | .error e => .error e
        | .ok tl =>
          match secsOf T first.sampleToken with
          | .error e => .error e
          | .ok tf =>
            let d := last.translation.sub first.translation
            let d := if objectFrame then rotate first.rotation.conj d else d
            .ok (if tl - tf ≤ maxTimeDiff cur then
                   (if tl - tf = 0 then .div0 d else .finite (d.divBy (tl - tf)))
                 else .none)

/-- what the nuScenes schema says about the `prev` / `next` links of `sample_annotation` ("the annotation of the same
instance that precedes / follows this in time"): the linked record lies in a sample with a strictly earlier / later
time.  Not part of `WellFormed` (referential integrity); the velocity theorems that exclude the `div0` outcome carry it
as a hypothesis. -/
structure TimeOrdered (T : Tables) : Prop where
  prev_earlier : ∀ a ∈ T.annotations, a.prev ≠ "" → ∀ b, lookup Annotation.token T.annotations a.prev = .ok b →
    ∀ ta tb, secsOf T a.sampleToken = .ok ta → secsOf T b.sampleToken = .ok tb → tb < ta
  next_later : ∀ a ∈ T.annotations, a.next ≠ "" → ∀ b, lookup Annotation.token T.annotations a.next = .ok b →
    ∀ ta tb, secsOf T a.sampleToken = .ok ta → secsOf T b.sampleToken = .ok tb → ta < tb

/-- the decidable form of `TimeOrdered` used for concrete tables -/
def timeOrderedB (T : Tables) : Bool :=
  T.annotations.all fun a =>
    (a.prev == "" ||
      match lookup Annotation.token T.annotations a.prev, secsOf T a.sampleToken with
      | .ok b, .ok ta => (match secsOf T b.sampleToken with | .ok tb => decide (tb < ta) | .error _ => true)
      | _, _ => true) &&
    (a.next == "" ||
      match lookup Annotation.token T.annotations a.next, secsOf T a.sampleToken with
      | .ok b, .ok ta => (match secsOf T b.sampleToken with | .ok tb => decide (ta < tb) | .error _ => true)
      | _, _ => true)

/-! ## audit round 2: non-unit quaternions (C16-3)

`rotate` / `moveInv` / `applyPose` above use the homogeneous rotation-matrix formula and the conjugate; they are what
pyquaternion / the devkit compute on UNIT quaternions (which is what pose tables hold, and what the generated datasets
contain).  On a non-unit quaternion pyquaternion normalises first (`rotation_matrix` calls `_normalise()`), so the
rotation applied is `R(q/|q|) = homogeneous(q) / |q|²` — exact over ℚ.  The normalising variants below model that; the
orientation is kept as the un-normalised product (the same rotation: a positive multiple).  They are NOT used by
`loadDataset` (kept as built); `Lemmas/DatasetVelocity.lean` proves they coincide with the plain ones on unit
quaternions and that the round trip holds for every non-zero quaternion. -/

/-- `Quaternion(q).rotation_matrix · v` for any non-zero `q` -/
def rotateN (q : Quat) (v : Vec3) : Vec3 := (rotate q v).divBy q.normSq

/-- `box.translate(-t); box.rotate(Quaternion(q).inverse)` for any non-zero `q` -/
def moveInvN (t : Vec3) (q : Quat) (p : Pose) : Pose :=
  ⟨rotateN q.conj (p.pos.sub t), q.conj.mul p.rot⟩

/-- `HomogeneousMatrix(pos, rot).transform(position, rotation)` for any non-zero `rot` -/
def applyPoseN (t : Pose) (p : Pose) : Pose :=
  ⟨(rotateN t.rot p.pos).add t.pos, t.rot.mul p.rot⟩

end PEval.Dataset
