import PEval.Gen.Labels
import PEval.Model.Basic
import PEval.Model.Enums
/-!
Model of the 3-D dataset loader (`perception_eval/common/dataset.py`: `load_all_datasets`,
`_load_dataset`; `common/dataset_utils.py`: `_sample_to_frame`, `_get_sample_boxes`,
`_get_transforms` (the ego→map matrix), `_convert_nuscenes_box_to_dynamic_object`,
`_get_tracking_data`; `common/label.py`: `LabelConverter.convert_label`; `common/schema.py`:
`Visibility.from_value`).

The nuScenes devkit is an EXTERNAL CONTRACT (DESIGN 4.6); what is modelled of it is its table
semantics, checked against the real devkit on generated dataset directories by the harness:

* `nusc.get(table, token)`            = the record of that table carrying the token (`KeyError` if none);
* `sample["anns"]`                    = the sample's annotations in annotation-table order;
* `sample["data"][channel]`           = the LAST key-frame `sample_data` of the sample whose calibrated
                                        sensor's sensor has that channel (dict assignment in table order);
* `record["category_name"]`           = name of the category of the annotation's instance;
* `nusc.get_boxes(sd)` (key frame)    = one box per annotation: annotated translation / size / rotation;
* `nusc.get_sample_data(sd)`          = those boxes moved by the inverse ego pose of `sd`, then by the
                                        inverse pose of `sd`'s calibrated sensor
                                        (`Box.translate(-t); Box.rotate(q.inverse)` twice);
* `PredictHelper.get_past_for_agent(.., seconds=3.0, just_xy=False)` = walk along `prev`, keeping the
                                        records less than 3.15 s back, at most 6 (`_iterate`).

Numbers are exact rationals; full 3-D rotations are quaternions over ℚ acting through the
homogeneous rotation-matrix formula (DESIGN 4.2). `Quaternion.inverse` is modelled by the conjugate
(equal on unit quaternions, which is what pose tables hold).
-/
namespace PEval.Dataset
open PEval

/-! ## a small rational quaternion algebra -/

structure Vec3 where
  x : Rat
  y : Rat
  z : Rat
deriving DecidableEq, Repr, Inhabited

structure Quat where
  w : Rat
  x : Rat
  y : Rat
  z : Rat
deriving DecidableEq, Repr, Inhabited

namespace Vec3
def zero : Vec3 := ⟨0, 0, 0⟩
def add (a b : Vec3) : Vec3 := ⟨a.x + b.x, a.y + b.y, a.z + b.z⟩
def sub (a b : Vec3) : Vec3 := ⟨a.x - b.x, a.y - b.y, a.z - b.z⟩
end Vec3

namespace Quat
def one : Quat := ⟨1, 0, 0, 0⟩
/-- Hamilton product -/
def mul (p q : Quat) : Quat :=
  ⟨p.w * q.w - p.x * q.x - p.y * q.y - p.z * q.z,
   p.w * q.x + p.x * q.w + p.y * q.z - p.z * q.y,
   p.w * q.y - p.x * q.z + p.y * q.w + p.z * q.x,
   p.w * q.z + p.x * q.y - p.y * q.x + p.z * q.w⟩
def conj (q : Quat) : Quat := ⟨q.w, -q.x, -q.y, -q.z⟩
def normSq (q : Quat) : Rat := q.w * q.w + q.x * q.x + q.y * q.y + q.z * q.z
end Quat

/-- `q.rotation_matrix · v` by the homogeneous rotation-matrix formula (a rotation when `normSq q = 1`) -/
def rotate (q : Quat) (v : Vec3) : Vec3 :=
  ⟨(q.w * q.w + q.x * q.x - q.y * q.y - q.z * q.z) * v.x + 2 * (q.x * q.y - q.w * q.z) * v.y + 2 * (q.x * q.z + q.w * q.y) * v.z,
   2 * (q.x * q.y + q.w * q.z) * v.x + (q.w * q.w - q.x * q.x + q.y * q.y - q.z * q.z) * v.y + 2 * (q.y * q.z - q.w * q.x) * v.z,
   2 * (q.x * q.z - q.w * q.y) * v.x + 2 * (q.y * q.z + q.w * q.x) * v.y + (q.w * q.w - q.x * q.x - q.y * q.y + q.z * q.z) * v.z⟩

/-- position and orientation -/
structure Pose where
  pos : Vec3
  rot : Quat
deriving DecidableEq, Repr, Inhabited

/-- `HomogeneousMatrix(pos, rot).transform(position, rotation)`: `R·p + t`, `R·R'` -/
def applyPose (t : Pose) (p : Pose) : Pose :=
  ⟨(rotate t.rot p.pos).add t.pos, t.rot.mul p.rot⟩

/-- `box.translate(-t); box.rotate(q.inverse)` of the devkit: the pose seen from the frame `(t, q)` -/
def moveInv (t : Vec3) (q : Quat) (p : Pose) : Pose :=
  ⟨rotate q.conj (p.pos.sub t), q.conj.mul p.rot⟩

/-! ## the tables -/

structure Sample where
  token : String
  timestamp : Nat
deriving DecidableEq, Repr

structure Sensor where
  token : String
  channel : String
deriving DecidableEq, Repr

structure CalibratedSensor where
  token : String
  sensorToken : String
  translation : Vec3
  rotation : Quat
deriving DecidableEq, Repr

structure EgoPose where
  token : String
  translation : Vec3
  rotation : Quat
deriving DecidableEq, Repr

structure SampleData where
  token : String
  sampleToken : String
  egoPoseToken : String
  calibratedSensorToken : String
  isKeyFrame : Bool
deriving DecidableEq, Repr

structure Named where   -- category, attribute: (token, name); visibility: (token, level)
  token : String
  name : String
deriving DecidableEq, Repr

structure Instance where
  token : String
  categoryToken : String
deriving DecidableEq, Repr

structure Annotation where
  token : String
  sampleToken : String
  instanceToken : String
  visibilityToken : String
  attributeTokens : List String
  translation : Vec3
  size : Vec3            -- (width, length, height), stored as x y z
  rotation : Quat
  prev : String          -- "" = none
  numLidarPts : Nat
deriving DecidableEq, Repr

structure Tables where
  samples : List Sample
  sensors : List Sensor
  calibratedSensors : List CalibratedSensor
  egoPoses : List EgoPose
  sampleData : List SampleData
  categories : List Named
  attributes : List Named
  visibility : List Named
  instances : List Instance
  annotations : List Annotation
deriving Repr

/-- the requested configuration -/
structure Config where
  tracking : Bool        -- `evaluation_task == EvaluationTask.TRACKING`
  frame : String         -- member name of `FrameID`
  merge : Bool           -- `merge_similar_labels`
deriving DecidableEq, Repr

/-! ## the loader's outputs -/

structure PastState where
  pose : Pose
  size : Vec3
deriving DecidableEq, Repr

structure Obj where
  uuid : String
  label : String               -- member name of `AutowareLabel`
  name : String                -- `Label.name`: the category name as annotated
  attributes : List String
  size : Vec3
  points : Nat
  visibility : Option String   -- member name of `Visibility`; `none` = Python `None`
  frame : String
  time : Nat
  pose : Pose
  tracked : Option (List PastState)
deriving DecidableEq, Repr

structure Frame where
  unixTime : Nat
  frameName : String
  objects : List Obj
  ego2map : Pose               -- the `BASE_LINK -> MAP` matrix stored with the frame
deriving DecidableEq, Repr

/-! ## generic helpers -/

/-- `nusc.get(table, token)` -/
def lookup {α} (tok : α → String) (tbl : List α) (t : String) : Except Err α :=
  match tbl.find? (fun r => tok r == t) with
  | some r => .ok r
  | none => .error "KeyError"

/-- a Python `for` loop whose body may raise: stops at the first exception -/
def mapE {α β} (f : α → Except Err β) : List α → Except Err (List β)
  | [] => .ok []
  | a :: l =>
    match f a with
    | .error e => .error e
    | .ok b =>
      match mapE f l with
      | .error e => .error e
      | .ok bs => .ok (b :: bs)

/-! ## label conversion and visibility -/

def pairTable (merge : Bool) : List (String × String) :=
  if merge then Gen.autowarePairsMerged else Gen.autowarePairs

/-- `LabelConverter.convert_label(name).label` for the `autoware` prefix: lower-case, first match,
unknown fallback -/
def convertLabel (merge : Bool) (name : String) : String :=
  match (pairTable merge).find? (fun p => name.toLower == p.2) with
  | some p => p.1
  | none => "UNKNOWN"

/-- `Visibility.from_value(level)` never raises (alias table, then the fallback member) -/
def visibilityOfLevel (level : String) : String :=
  match Enums.visibilityFromValue level with
  | .ok m => m
  | .error _ => Gen.visibilityAliasFallback

/-! ## devkit views of the tables -/

/-- `sample["anns"]`, resolved -/
def annsOf (T : Tables) (sampleToken : String) : List Annotation :=
  T.annotations.filter (fun a => a.sampleToken == sampleToken)

/-- `record["channel"]` of a sample_data record (decoration done by `NuScenes.__init__`) -/
def channelOf (T : Tables) (sd : SampleData) : Except Err String := do
  let cs ← lookup CalibratedSensor.token T.calibratedSensors sd.calibratedSensorToken
  let s ← lookup Sensor.token T.sensors cs.sensorToken
  pure s.channel

/-- `sample["data"].get(channel)`: the last key-frame record of the sample with that channel -/
def dataOf (T : Tables) (sampleToken channel : String) : Option SampleData :=
  T.sampleData.reverse.find? (fun sd =>
    sd.isKeyFrame && sd.sampleToken == sampleToken && (channelOf T sd == .ok channel))

/-- `_sample_to_frame`: `LIDAR_TOP` if the sample has it, else `LIDAR_CONCAT`, else `ValueError` -/
def lidarOf (T : Tables) (sampleToken : String) : Except Err SampleData :=
  match dataOf T sampleToken "LIDAR_TOP" with
  | some sd => .ok sd
  | none =>
    match dataOf T sampleToken "LIDAR_CONCAT" with
    | some sd => .ok sd
    | none => .error "ValueError"

def annPose (a : Annotation) : Pose := ⟨a.translation, a.rotation⟩

/-- `_get_sample_boxes`: `nusc.get_boxes` for MAP, `nusc.get_sample_data` for BASE_LINK -/
def boxPose (frame : String) (ego : EgoPose) (cs : CalibratedSensor) (a : Annotation) : Except Err Pose :=
  if frame = "BASE_LINK" then
    .ok (moveInv cs.translation cs.rotation (moveInv ego.translation ego.rotation (annPose a)))
  else if frame = "MAP" then .ok (annPose a)
  else .error "ValueError"

/-! ## tracking history (`PredictHelper._iterate`, direction `prev`, `seconds = 3.0`) -/

/-- `seconds + BUFFER` in microseconds -/
def windowUs : Nat := 3150000
/-- `int(expected_samples_per_sec * seconds)` -/
def maxPast : Nat := 6

def timeOf (T : Tables) (sampleToken : String) : Except Err Nat :=
  (lookup Sample.token T.samples sampleToken).map (·.timestamp)

def absDiff (a b : Nat) : Nat := if a ≤ b then b - a else a - b

/-- the `while` loop of `_iterate`; `elapsed` is `time_elapsed` in µs, `acc` the records collected so
far (newest first at the END, as `annotations.append`), `fuel` bounds the walk along `prev` -/
def iterate (T : Tables) (start : Nat) : Nat → Annotation → Nat → List Annotation → Except Err (List Annotation)
  | 0, _, _, acc => .ok acc
  | fuel + 1, cur, elapsed, acc =>
    if elapsed ≤ windowUs ∧ acc.length < maxPast then
      if cur.prev == "" then .ok acc
      else
        match lookup Annotation.token T.annotations cur.prev with
        | .error e => .error e
        | .ok nxt =>
          match timeOf T nxt.sampleToken with
          | .error e => .error e
          | .ok t =>
            let el := absDiff t start
            iterate T start fuel nxt el (if el < windowUs then acc ++ [nxt] else acc)
    else .ok acc

/-- `helper.get_past_for_agent(instance, sample, 3.0, _, just_xy=False)` for the annotation itself -/
def pastRecords (T : Tables) (a : Annotation) : Except Err (List Annotation) :=
  match timeOf T a.sampleToken with
  | .error e => .error e
  | .ok t0 => iterate T t0 T.annotations.length a 0 []

def pastState (a : Annotation) : PastState := ⟨annPose a, a.size⟩

/-- `_get_tracking_data` when the task is TRACKING, else `None` (its own frame-id test cannot fail:
`_get_sample_boxes` has already rejected any frame id but BASE_LINK and MAP) -/
def trackedOf (T : Tables) (cfg : Config) (a : Annotation) : Except Err (Option (List PastState)) :=
  if cfg.tracking then (pastRecords T a).map (fun l => some (l.map pastState))
  else .ok none

/-! ## one object, one frame, the dataset -/

/-- the visibility of an annotation: `None` when the visibility table is empty -/
def visibilityOf (T : Tables) (a : Annotation) : Except Err (Option String) :=
  if T.visibility.isEmpty then .ok none
  else (lookup Named.token T.visibility a.visibilityToken).map (fun v => some (visibilityOfLevel v.name))

/-- `record["category_name"]` -/
def categoryNameOf (T : Tables) (a : Annotation) : Except Err String := do
  let inst ← lookup Instance.token T.instances a.instanceToken
  let cat ← lookup Named.token T.categories inst.categoryToken
  pure cat.name

def attributeNamesOf (T : Tables) (a : Annotation) : Except Err (List String) :=
  mapE (fun t => (lookup Named.token T.attributes t).map (·.name)) a.attributeTokens

/-- the loop body of `_sample_to_frame` + `_convert_nuscenes_box_to_dynamic_object` -/
def objectOf (T : Tables) (cfg : Config) (time : Nat) (ego : EgoPose) (cs : CalibratedSensor)
    (a : Annotation) : Except Err Obj := do
  let pose ← boxPose cfg.frame ego cs a
  let vis ← visibilityOf T a
  let attrs ← attributeNamesOf T a
  let name ← categoryNameOf T a
  let tracked ← trackedOf T cfg a
  pure { uuid := a.instanceToken, label := convertLabel cfg.merge name, name := name, attributes := attrs,
         size := a.size, points := a.numLidarPts, visibility := vis, frame := cfg.frame, time := time,
         pose := pose, tracked := tracked }

/-- `_sample_to_frame(nusc, helper, sample_token, task, converter, frame_id, frame_name=str(n))` -/
def sampleToFrame (T : Tables) (cfg : Config) (n : Nat) (s : Sample) : Except Err Frame := do
  let sd ← lidarOf T s.token
  -- `_get_sample_boxes` rejects any other frame id before anything else is looked at
  if cfg.frame = "BASE_LINK" ∨ cfg.frame = "MAP" then
    let ego ← lookup EgoPose.token T.egoPoses sd.egoPoseToken
    let cs ← lookup CalibratedSensor.token T.calibratedSensors sd.calibratedSensorToken
    let objs ← mapE (objectOf T cfg s.timestamp ego cs) (annsOf T s.token)
    pure { unixTime := s.timestamp, frameName := toString n, objects := objs,
           ego2map := ⟨ego.translation, ego.rotation⟩ }
  else throw "ValueError"

/-- `for n, sample_token in enumerate(sample_tokens)` -/
def loadFrom (T : Tables) (cfg : Config) : Nat → List Sample → Except Err (List Frame)
  | _, [] => .ok []
  | n, s :: rest =>
    match sampleToFrame T cfg n s with
    | .error e => .error e
    | .ok f =>
      match loadFrom T cfg (n + 1) rest with
      | .error e => .error e
      | .ok fs => .ok (f :: fs)

/-- `load_all_datasets([path], task, converter, frame_id)` for a 3-D task -/
def loadDataset (T : Tables) (cfg : Config) : Except Err (List Frame) :=
  if T.samples.isEmpty then .error "DatasetLoadingError"
  else loadFrom T cfg 0 T.samples

end PEval.Dataset
