import PEval.Model.Basic
/-!
# Model of `perception_eval/common/threshold.py`  (property C15)

`PyVal` is the fragment of Python values a threshold specification is built from: numbers (`int`
/ `float` and every other `numbers.Real` such as `Fraction` or a numpy scalar, carried as `Rat`),
`bool` (a `numbers.Real` in Python: `isinstance(True, Real)`), `str` (whatever its content: `"0.5"`
is a `str`, not a number), `None`, `list`, and `other` for every remaining kind of object (`bytes`,
`Decimal`, `complex`, arrays …), of which the code can only find out that it is neither.  `setThresholds` follows `set_thresholds` and its four helpers branch by branch;
errors are the class name of the Python exception (`"ThresholdError"`, `"TypeError"`).
-/
namespace PEval.Threshold
open PEval

inductive PyVal where
  | num (q : Rat)
  | bool (b : Bool)
  | str (s : String)
  | none
  | list (xs : List PyVal)
  /-- any other Python object that is neither a `numbers.Real`, a `list`, a `str` nor `None` and
  has no `len()` / iteration: `decimal.Decimal`, `complex`, `numpy.bool_`, 0-dimensional arrays.
  In *entry* positions (an item of a list, or a row) the code only ever asks `isinstance(t, Real)`
  and `isinstance(t, list)` of a value, so there the constructor also stands for `bytes`,
  `bytearray`, `tuple`, `dict` and `numpy` arrays of any dimension (the tag names the kind). -/
  | other (tag : String)
  deriving Repr, Inhabited

mutual
/-- decidable equality (the deriving handler does not cover nested inductives) -/
def PyVal.decEq : (a b : PyVal) → Decidable (a = b)
  | .num p, .num q => if h : p = q then isTrue (by rw [h]) else isFalse (by intro h'; cases h'; exact h rfl)
  | .bool p, .bool q => if h : p = q then isTrue (by rw [h]) else isFalse (by intro h'; cases h'; exact h rfl)
  | .str p, .str q => if h : p = q then isTrue (by rw [h]) else isFalse (by intro h'; cases h'; exact h rfl)
  | .none, .none => isTrue rfl
  | .other p, .other q => if h : p = q then isTrue (by rw [h]) else isFalse (by intro h'; cases h'; exact h rfl)
  | .list xs, .list ys =>
    match PyVal.decEqList xs ys with
    | isTrue h => isTrue (by rw [h])
    | isFalse h => isFalse (by intro h'; cases h'; exact h rfl)
  | .num _, .bool _ | .num _, .str _ | .num _, .none | .num _, .list _ | .num _, .other _
  | .bool _, .num _ | .bool _, .str _ | .bool _, .none | .bool _, .list _ | .bool _, .other _
  | .str _, .num _ | .str _, .bool _ | .str _, .none | .str _, .list _ | .str _, .other _
  | .none, .num _ | .none, .bool _ | .none, .str _ | .none, .list _ | .none, .other _
  | .list _, .num _ | .list _, .bool _ | .list _, .str _ | .list _, .none | .list _, .other _
  | .other _, .num _ | .other _, .bool _ | .other _, .str _ | .other _, .none | .other _, .list _ =>
    isFalse (by intro h; cases h)
def PyVal.decEqList : (a b : List PyVal) → Decidable (a = b)
  | [], [] => isTrue rfl
  | [], _ :: _ => isFalse (by intro h; cases h)
  | _ :: _, [] => isFalse (by intro h; cases h)
  | x :: xs, y :: ys =>
    match PyVal.decEq x y, PyVal.decEqList xs ys with
    | isTrue h1, isTrue h2 => isTrue (by rw [h1, h2])
    | isFalse h1, _ => isFalse (by intro h; cases h; exact h1 rfl)
    | _, isFalse h2 => isFalse (by intro h; cases h; exact h2 rfl)
end
instance : DecidableEq PyVal := PyVal.decEq

/-- `isinstance(t, numbers.Real)` -/
def isReal : PyVal → Bool
  | .num _ => true
  | .bool _ => true
  | _ => false

/-- `isinstance(t, list)` -/
def isList : PyVal → Bool
  | .list _ => true
  | _ => false

/-- `isinstance(t, str)` -/
def isStr : PyVal → Bool
  | .str _ => true
  | _ => false

/-- Python truthiness (`if x:`) -/
def truthy : PyVal → Bool
  | .num q => q != 0
  | .bool b => b
  | .str s => s.length != 0
  | .none => false
  | .list xs => !xs.isEmpty
  | .other _ => true   -- never consulted: the harness places opaque values at the top level only where truthiness is not asked

/-- `len(t)` of a value already known to be a list (0 otherwise; never consulted otherwise) -/
def lenOf : PyVal → Nat
  | .list ys => ys.length
  | _ => 0

/-- the items of a value already known to be a list -/
def itemsOf : PyVal → List PyVal
  | .list ys => ys
  | _ => []

/-- `xs * n` on Python lists -/
def pyMul (xs : List PyVal) (n : Nat) : List PyVal := (List.replicate n xs).flatten

/-- `t * n` of a value already known to be a list -/
def mulVal (t : PyVal) (n : Nat) : PyVal := .list (pyMul (itemsOf t) n)

def thresholdError {α} : Except Err α := .error "ThresholdError"
def typeError {α} : Except Err α := .error "TypeError"

/-- `__get_thresholds(threshold, num_elements)` -/
def getThresholds (v : PyVal) (n : Nat) : Except Err PyVal :=
  match v with
  | .num _ | .bool _ => .ok (.list (List.replicate n v))     -- isinstance(threshold, Real)
  | .none | .other _ => typeError                            -- len(None), len(Decimal(..))
  | .str _ => thresholdError    -- "" is "empty"; the characters of a non-empty str are not Real
  | .list xs =>
    if xs.length == 0 then thresholdError                     -- Empty list is invalid
    else if xs.any (fun t => !isReal t) then thresholdError   -- all elements must be Real
    else if xs.length != 1 && n != xs.length then thresholdError
    else .ok (.list (if xs.length == 1 then pyMul xs n else xs))

/-- `check_thresholds(thresholds, num_elements)` on an arbitrary value (it is also called directly
by the frame configs): iterating a number / `None` is a `TypeError`; the items of a `str` are `str`s. -/
def checkThresholds (v : PyVal) (n : Nat) : Except Err PyVal :=
  match v with
  | .list xs =>
    if xs.any (fun t => !isReal t) then thresholdError
    else if xs.length != n then thresholdError
    else .ok v
  | .str s =>
    if s.length != 0 then thresholdError        -- a character is not Real
    else if n != 0 then thresholdError          -- len("") != n
    else .ok v
  | _ => typeError

/-- `__get_nested_thresholds(threshold, num_elements)` -/
def getNestedThresholds (v : PyVal) (n : Nat) : Except Err PyVal :=
  match v with
  | .num _ | .bool _ => .ok (.list [.list (List.replicate n v)])
  | .none | .other _ => typeError                            -- len(None), len(Decimal(..))
  | .str _ => thresholdError   -- "" is "empty"; threshold[0] of a str is a str: not Real, not a list
  | .list [] => thresholdError
  | .list (x :: xs) =>
    if isReal x then
      if (x :: xs).any (fun t => !isReal t) then thresholdError
      else if (x :: xs).length != n then
        .ok (.list ((x :: xs).map fun t => .list (List.replicate n t)))
      else .ok (.list [.list (x :: xs)])
    else
      if (x :: xs).any (fun t => !isList t) then thresholdError
      else if (x :: xs).any (fun t => lenOf t != n && lenOf t != 1) then thresholdError
      else .ok (.list ((x :: xs).map fun t => if lenOf t == 1 then mulVal t n else t))

/-- `check_nested_thresholds(thresholds, num_elements)` on an arbitrary value: iterating a number /
`None` / an object without `__iter__` is a `TypeError`; the items of a `str` are `str`s. -/
def checkNestedThresholds (v : PyVal) (n : Nat) : Except Err PyVal :=
  match v with
  | .list rows =>
    if rows.any (fun t => !isList t) then thresholdError
    else if rows.any (fun t => lenOf t == 0 || lenOf t != n) then thresholdError
    else if rows.any (fun t => (itemsOf t).any (fun x => !isReal x)) then thresholdError
    else .ok v
  | .str s =>
    if s.length != 0 then thresholdError        -- a character is not a list
    else .ok v                                  -- nothing to iterate over
  | _ => typeError

/-- `set_thresholds(thresholds, target_objects_num, nest)` -/
def setThresholds (v : PyVal) (n : Nat) (nest : Bool) : Except Err PyVal :=
  if nest then
    match getNestedThresholds v n with
    | .ok out => checkNestedThresholds out n
    | .error e => .error e
  else
    match getThresholds v n with
    | .ok out => checkThresholds out n
    | .error e => .error e

end PEval.Threshold
