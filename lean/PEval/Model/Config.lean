import PEval.Model.Basic
import PEval.Model.Threshold
import PEval.Model.Enums
import PEval.Model.Label
import PEval.Gen.Config
import PEval.Gen.Labels
/-!
# Model of the configuration classes (property C15)

Decision functions over a key → `PyVal` association list (`Dict`, the `evaluation_config_dict` or the
keyword arguments of a frame config) following

* `_EvaluationConfigBase.__init__` / `_check_tasks`,
* `PerceptionEvaluationConfig._extract_label_params` / `_extract_params`, `SensingEvaluationConfig`,
* `MetricsScoreConfig.__init__` / `_check_parameters`, `_MetricsConfigBase.__init__`,
* `CriticalObjectFilterConfig.__init__`, `PerceptionPassFailConfig.__init__`

statement by statement (same order of checks, hence the same first error).  The supported-task lists
and the parameter names of the metric configs come from `PEval.Gen.Config`, the sizes of the label
enums from `PEval.Gen.Labels` (both regenerated from /repo on every run).  Objects other than
numbers, `bool`, `str`, `None` and lists are `PyVal.other`; they are meaningful as ENTRIES of a threshold
list (where only `isinstance(., Real)` is asked of them); as the value of a key they are outside the model.
-/
namespace PEval.Config
open PEval PEval.Threshold

abbrev Dict := List (String × PyVal)

/-- `d.get(k)` (absent → `None`) -/
def get (d : Dict) (k : String) : PyVal := (d.lookup k).getD .none

/-- `v is not None` -/
def given : PyVal → Bool
  | .none => false
  | _ => true

/-- `EvaluationTask.is_3d` on the task's string value -/
def is3d (task : String) : Bool :=
  ["detection", "tracking", "prediction", "sensing", "fp_validation"].contains task

/-- `_EvaluationConfigBase._check_tasks`: `KeyError` without the key, `ValueError` for anything that is
not one of the supported task strings -/
def checkTasks (support : List String) (d : Dict) : Except Err String :=
  match d.lookup "evaluation_task" with
  | none => .error "KeyError"
  | some (.str t) => if support.contains t then .ok t else .error "ValueError"
  | some _ => .error "ValueError"

/-- the `matching_label_policy` part of `_extract_label_params`: a truthy value goes through
`MatchingLabelPolicy.from_str` (`name.upper()` → `AttributeError` for a non-string) -/
def matchingPolicy (d : Dict) : Except Err Unit :=
  let p := get d "matching_label_policy"
  if truthy p then
    match p with
    | .str s =>
      match Enums.policyFromStr s with
      | .ok _ => .ok ()
      | .error e => .error e
    | _ => .error "AttributeError"
  else .ok ()

/-- `LabelConverter.__init__`: the label enum chosen by `label_prefix`, returned as its size
(`len([l for l in label_type])`) -/
def labelTypeSize (p : PyVal) : Except Err Nat :=
  match p with
  | .str s =>
    if s == "autoware" then .ok Gen.autowareLabel.length
    else if s == "traffic_light" then .ok Gen.trafficLightLabel.length
    else if s == "blinker" || s == "brake_lamp" then .error "NotImplementedError"
    else .error "ValueError"
  | _ => .error "ValueError"

/-- `len(set_target_lists(target_labels, label_converter))`: `None` / empty → every label of the
label type; `len(number)` is a `TypeError`; `convert_name` calls `name.lower()` (`AttributeError` for a
non-string); a non-empty `str` is iterated character by character -/
def targetLabelCount (v : PyVal) (nAll : Nat) : Except Err Nat :=
  match v with
  | .none => .ok nAll
  | .list xs =>
    if xs.length == 0 then .ok nAll
    else if xs.all isStr then .ok xs.length
    else .error "AttributeError"
  | .str s => if s.length == 0 then .ok nAll else .ok s.length
  | _ => .error "TypeError"

/-- `None if v is None else set_thresholds(v, n, False)` -/
def optFlat (v : PyVal) (n : Nat) : Except Err PyVal :=
  match v with
  | .none => .ok .none
  | _ => setThresholds v n false

/-- the range-bound block of `_extract_params`: (max_x, max_y, max_distance, min_distance) lists -/
def rangeParams (task : String) (d : Dict) (n : Nat) : Except Err (PyVal × PyVal × PyVal × PyVal) :=
  let mx := get d "max_x_position"
  let my := get d "max_y_position"
  let mxd := get d "max_distance"
  let mnd := get d "min_distance"
  if (given mx || given my) && (given mxd || given mnd) then .error "RuntimeError"
  else if given mx && given my then
    match setThresholds mx n false with
    | .error e => .error e
    | .ok xl =>
      match setThresholds my n false with
      | .error e => .error e
      | .ok yl => .ok (xl, yl, .none, .none)
  else if given mxd && given mnd then
    match setThresholds mxd n false with
    | .error e => .error e
    | .ok dl =>
      match setThresholds mnd n false with
      | .error e => .error e
      | .ok ml => .ok (.none, .none, dl, ml)
  else if !is3d task then .ok (.none, .none, .none, .none)
  else .error "RuntimeError"

/-- keys of `f_params` that hold one value per target label (or `None`) -/
def perLabelFilterKeys : List String :=
  ["max_x_position_list", "max_y_position_list", "max_distance_list", "min_distance_list",
   "max_matchable_radii", "min_point_numbers", "confidence_threshold_list"]

/-- the threshold keys of `m_params` as written in `_extract_params` -/
def metricThresholdKeys : List String :=
  ["center_distance_thresholds", "plane_distance_thresholds", "iou_2d_thresholds", "iou_3d_thresholds"]

/-- the keys of `m_params` as written in `_extract_params` -/
def metricParamKeys : List String := "target_labels" :: metricThresholdKeys

/-- `PerceptionEvaluationConfig._extract_params`: number of target labels, `f_params`, `m_params`
(`target_labels` itself is represented by its length) -/
def extractParams (task : String) (nAll : Nat) (d : Dict) : Except Err (Nat × Dict × Dict) :=
  match targetLabelCount (get d "target_labels") nAll with
  | .error e => .error e
  | .ok n =>
    match rangeParams task d n with
    | .error e => .error e
    | .ok (xl, yl, dl, ml) =>
      match optFlat (get d "max_matchable_radii") n with
      | .error e => .error e
      | .ok radii =>
        match optFlat (get d "min_point_numbers") n with
        | .error e => .error e
        | .ok minPts =>
          if task == "detection" && !given minPts then .error "RuntimeError"
          else
            match optFlat (get d "confidence_threshold") n with
            | .error e => .error e
            | .ok conf =>
              .ok (n,
                [("ignore_attributes", get d "ignore_attributes"),
                 ("max_x_position_list", xl), ("max_y_position_list", yl),
                 ("max_distance_list", dl), ("min_distance_list", ml),
                 ("max_matchable_radii", radii), ("min_point_numbers", minPts),
                 ("confidence_threshold_list", conf),
                 ("target_uuids", get d "target_uuids"),
                 ("uuid_matching_first", (d.lookup "uuid_matching_first").getD (.bool false))],
                metricThresholdKeys.map fun k => (k, get d k))

/-- `MetricsScoreConfig._check_parameters(config, params)`: the keys handed over must be parameter
names of the metrics config class -/
def checkParameters (valid : List String) (keys : List String) : Except Err Unit :=
  if keys.all (fun k => valid.contains k) then .ok () else .error "MetricsParameterError"

/-- `x = set_thresholds(v, n, True) if v else []` -/
def optNested (v : PyVal) (n : Nat) : Except Err PyVal :=
  if truthy v then setThresholds v n true else .ok (.list [])

/-- `_MetricsConfigBase.__init__`: the four threshold lists in the order they are normalised -/
def metricsConfigBase (m : Dict) (n : Nat) : Except Err Dict :=
  match optNested (get m "center_distance_thresholds") n with
  | .error e => .error e
  | .ok c =>
    match optNested (get m "plane_distance_thresholds") n with
    | .error e => .error e
    | .ok p =>
      match optNested (get m "iou_2d_thresholds") n with
      | .error e => .error e
      | .ok i2 =>
        match optNested (get m "iou_3d_thresholds") n with
        | .error e => .error e
        | .ok i3 =>
          .ok [("center_distance_thresholds", c), ("plane_distance_thresholds", p),
               ("iou_2d_thresholds", i2), ("iou_3d_thresholds", i3)]

/-- which metrics config class `MetricsScoreConfig.__init__` consults for a task: its parameter names -/
def metricParamNames (task : String) : Option (List String) :=
  if task == "detection2d" || task == "detection" then some Gen.detectionMetricsParams
  else if task == "tracking2d" || task == "tracking" then some Gen.trackingMetricsParams
  else if task == "prediction" then some Gen.predictionMetricsParams
  else if task == "classification2d" then some Gen.classificationMetricsParams
  else none

/-- `MetricsScoreConfig.__init__(task, **m_params)`: `none` for the tasks without a metrics config -/
def metricsScoreConfig (task : String) (m : Dict) (n : Nat) : Except Err (Option Dict) :=
  match metricParamNames task with
  | none => .ok none
  | some valid =>
    match checkParameters valid ("target_labels" :: m.map (·.1)) with
    | .error e => .error e
    | .ok () =>
      if task == "prediction" then .error "NotImplementedError"
      else
        match metricsConfigBase m n with
        | .error e => .error e
        | .ok r => .ok (some r)

/-- `[FrameID.from_value(f) for f in frame_id]` succeeds -/
def framesOk (frames : List String) : Bool :=
  frames.all fun f => match Enums.frameFromValue f with | .ok _ => true | .error _ => false

/-- what an accepted configuration exposes -/
structure Accepted where
  task : String
  nLabels : Nat
  filtering : Dict
  metrics : Option Dict
  deriving Repr, DecidableEq

/-- `PerceptionEvaluationConfig(dataset_paths, frame_id, result_root_directory, evaluation_config_dict)` -/
def perceptionConfig (d : Dict) (frames : List String) : Except Err Accepted :=
  match checkTasks Gen.perceptionSupportTasks d with
  | .error e => .error e
  | .ok task =>
    match matchingPolicy d with
    | .error e => .error e
    | .ok () =>
      match d.lookup "label_prefix" with
      | none => .error "KeyError"
      | some pre =>
        match labelTypeSize pre with
        | .error e => .error e
        | .ok nAll =>
          match extractParams task nAll d with
          | .error e => .error e
          | .ok (n, f, m) =>
            if !framesOk frames then .error "ValueError"
            else if is3d task && frames.length != 1 then .error "ValueError"
            else
              match metricsScoreConfig task m n with
              | .error e => .error e
              | .ok mc => .ok { task := task, nLabels := n, filtering := f, metrics := mc }

/-- `SensingEvaluationConfig(...)`: `filtering` = `filtering_params`, `metrics` = `metrics_params` -/
def sensingConfig (d : Dict) (frames : List String) : Except Err Accepted :=
  match checkTasks Gen.sensingSupportTasks d with
  | .error e => .error e
  | .ok task =>
    match labelTypeSize ((d.lookup "label_prefix").getD (.str "autoware")) with
    | .error e => .error e
    | .ok _ =>
      if !framesOk frames then .error "ValueError"
      else if is3d task && frames.length != 1 then .error "ValueError"
      else .ok { task := task, nLabels := 0,
                 filtering := [("target_uuids", get d "target_uuids")],
                 metrics := some [("box_scale_0m", (d.lookup "box_scale_0m").getD (.num 1)),
                                  ("box_scale_100m", (d.lookup "box_scale_100m").getD (.num 1)),
                                  ("min_points_threshold", (d.lookup "min_points_threshold").getD (.num 1))] }

/-- `None if v is None else check_thresholds(v, n)` -/
def optCheck (v : PyVal) (n : Nat) : Except Err PyVal :=
  match v with
  | .none => .ok .none
  | _ => checkThresholds v n

/-- `CriticalObjectFilterConfig(evaluator_config, **a)`; `is2d` / `nAll` describe the evaluator config
(task dimension, size of its label enum).  Result: number of target labels, `filtering_params`. -/
def criticalFilterConfig (is2d : Bool) (nAll : Nat) (a : Dict) : Except Err (Nat × Dict) :=
  match targetLabelCount (get a "target_labels") nAll with
  | .error e => .error e
  | .ok n =>
    let mx := get a "max_x_position_list"
    let my := get a "max_y_position_list"
    let mxd := get a "max_distance_list"
    let mnd := get a "min_distance_list"
    let range : Except Err (PyVal × PyVal × PyVal × PyVal) :=
      if truthy mx && truthy my then
        match checkThresholds mx n with
        | .error e => .error e
        | .ok xl =>
          match checkThresholds my n with
          | .error e => .error e
          | .ok yl => .ok (xl, yl, .none, .none)
      else if truthy mxd && truthy mnd then
        match checkThresholds mxd n with
        | .error e => .error e
        | .ok dl =>
          match checkThresholds mnd n with
          | .error e => .error e
          | .ok ml => .ok (.none, .none, dl, ml)
      else if is2d then .ok (.none, .none, .none, .none)
      else .error "RuntimeError"
    match range with
    | .error e => .error e
    | .ok (xl, yl, dl, ml) =>
      match optCheck (get a "min_point_numbers") n with
      | .error e => .error e
      | .ok minPts =>
        match optCheck (get a "confidence_threshold_list") n with
        | .error e => .error e
        | .ok conf =>
          .ok (n, [("max_x_position_list", xl), ("max_y_position_list", yl),
                   ("max_distance_list", dl), ("min_distance_list", ml),
                   ("min_point_numbers", minPts), ("confidence_threshold_list", conf)])

/-- `PerceptionPassFailConfig(evaluator_config, **a)` -/
def passFailConfig (nAll : Nat) (a : Dict) : Except Err (Nat × Dict) :=
  match targetLabelCount (get a "target_labels") nAll with
  | .error e => .error e
  | .ok n =>
    match optCheck (get a "matching_threshold_list") n with
    | .error e => .error e
    | .ok mt =>
      match optCheck (get a "confidence_threshold_list") n with
      | .error e => .error e
      | .ok conf => .ok (n, [("matching_threshold_list", mt), ("confidence_threshold_list", conf)])

/-! ## audit round 2: the target-label LIST of a configuration (not only its length)

`targetLabelCount` above stands for `len(set_target_lists(..))`.  The functions below model the list itself, through
the converter model of C14 (`PEval.Label`), so that "the number of target labels" of the theorems is the length of
the converted target-label list of the SAME configuration (`targetLabelCount_eq_length`). -/

/-- the text of a `str` value ("" for anything else; only consulted on values known to be `str`) -/
def strOf : PyVal → String
  | .str s => s
  | _ => ""

/-- `set_target_lists(v, label_converter)` as the list of label member names: `None` / empty → every member of the
label family; a list of strings → `convert_name` of every entry; a non-empty `str` is iterated character by
character; `len(number)` is a `TypeError`; `name.lower()` of a non-string entry an `AttributeError` -/
def targetLabelList (v : PyVal) (t : Label.Table) (family : String) : Except Err (List String) :=
  match v with
  | .none => .ok (Label.setTargetLists none t family)
  | .list xs =>
    if xs.length == 0 then .ok (Label.setTargetLists (some []) t family)
    else if xs.all isStr then .ok (Label.setTargetLists (some (xs.map strOf)) t family)
    else .error "AttributeError"
  | .str s =>
    if s.length == 0 then .ok (Label.setTargetLists (some []) t family)
    else .ok (Label.setTargetLists (some (s.toList.map fun c => String.singleton c)) t family)
  | _ => .error "TypeError"

/-- `e_cfg.get("merge_similar_labels", False)` as `_get_autoware_pairs` tests it (`if merge_similar_labels:`) -/
def mergeFlag (d : Dict) : Bool := truthy ((d.lookup "merge_similar_labels").getD (.bool false))

/-- the converter a configuration builds: `LabelConverter(evaluation_task, merge_similar_labels, label_prefix)`
(`task` is the task's string value; the table and the label family, or the constructor's exception) -/
def converterOf (task : String) (d : Dict) : Except Err (Label.Table × String) :=
  match d.lookup "label_prefix" with
  | none => .error "KeyError"
  | some (.str p) => Label.tableFor p (mergeFlag d) ((Enums.setTask task).getD task)
  | some _ => .error "ValueError"

/-- `PerceptionEvaluationConfig(...).target_labels` (label member names), with the exceptions raised on the way to
it in the order of the constructor: task check, matching policy, label converter, `set_target_lists` -/
def configTargetLabels (d : Dict) : Except Err (List String) :=
  match checkTasks Gen.perceptionSupportTasks d with
  | .error e => .error e
  | .ok task =>
    match matchingPolicy d with
    | .error e => .error e
    | .ok () =>
      match converterOf task d with
      | .error e => .error e
      | .ok (t, fam) => targetLabelList (get d "target_labels") t fam

/-- DEFECTIVE variant of `_extract_params` (used only in an `example`): `target_labels` is not consulted, every
per-label list is sized by the whole label enum.  All lists of its result still share one length (so the statement
"all exposed lists have length `nLabels`" holds of it); that length is not the number of target labels. -/
def extractParams_ignoreTargets (task : String) (nAll : Nat) (d : Dict) : Except Err (Nat × Dict × Dict) :=
  extractParams task nAll (d.filter (fun kv => kv.1 != "target_labels"))

end PEval.Config
