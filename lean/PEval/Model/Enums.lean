import PEval.Gen.Enums
import PEval.Model.Basic
/-!
Model of the string-accepting constructors of the configuration enums
(`perception_eval/common/evaluation_task.py`, `schema.py`, `shape.py`, `object_matching.py`,
`transform.py`).  Members are represented by their *member names* (strings); the `(name, value)`
tables are regenerated from the source on every run (`PEval.Gen`).  What is hand-modelled here is
the control flow of each parser: first match in definition order, lower- or upper-casing of the
argument, fallback or error.  Python `str.lower()/upper()` are modelled on ASCII only.
-/
namespace PEval.Enums

abbrev Table := List (String × String)   -- (member name, value)

/-- result of a parser: the member (by name), or the kind of exception raised -/
abbrev Res := Except String String

/-- `for _, v in cls.__members__.items(): if v == name: return v` (`v == name` compares the value) -/
def firstByValue (t : Table) (s : String) : Option String :=
  (t.find? (fun p => p.2 == s)).map (·.1)

def values (t : Table) : List String := t.map (·.2)
def names (t : Table) : List String := t.map (·.1)

/-- `EvaluationTask.from_value` -/
def taskFromValue (s : String) : Res :=
  match firstByValue Gen.evaluationTask s with
  | some m => .ok m
  | none => .error "ValueError"

/-- `set_task(task_name)`: returns the member or falls off the end (`None`) -/
def setTask (s : String) : Option String := firstByValue Gen.evaluationTask s

/-- `FrameID.from_value`: lower-cases first -/
def frameFromValue (s : String) : Res :=
  match firstByValue Gen.frameID s.toLower with
  | some m => .ok m
  | none => .error "ValueError"

/-- `Visibility.from_alias` -/
def visibilityFromAlias (s : String) : String :=
  match Gen.visibilityAlias.find? (fun p => p.1 == s) with
  | some p => p.2
  | none => Gen.visibilityAliasFallback

/-- `Visibility.from_value`: a member value, else the alias table, else the fallback member -/
def visibilityFromValue (s : String) : Res :=
  match firstByValue Gen.visibility s with
  | some m => .ok m
  | none => .ok (visibilityFromAlias s)

/-- `SensorModality.from_value` -/
def sensorFromValue (s : String) : Res :=
  match firstByValue Gen.sensorModality s with
  | some m => .ok m
  | none => .error "ValueError"

/-- `ShapeType.from_value` -/
def shapeTypeFromValue (s : String) : Res :=
  match firstByValue Gen.shapeType s with
  | some m => .ok m
  | none => .error "ValueError"

/-- `MatchingLabelPolicy.from_str`: upper-cases, asserts membership of the *name*, indexes by name -/
def policyFromStr (s : String) : Res :=
  let u := s.toUpper
  if (names Gen.matchingLabelPolicy).contains u then .ok u else .error "AssertionError"

/-- an argument that may be given as a string or as a member already -/
inductive Arg where
  | str (s : String)
  | member (name : String)
deriving Repr, DecidableEq

/-- `Shape(shape_type, ...)`: `if isinstance(shape_type, str): shape_type = ShapeType.from_value(shape_type)` -/
def shapeTypeOfArg : Arg → Res
  | .str s => shapeTypeFromValue s
  | .member m => .ok m

/-- `FrameID.from_value(x) if isinstance(x, str) else x` (TransformKey, HomogeneousMatrix) -/
def frameOfArg : Arg → Res
  | .str s => frameFromValue s
  | .member m => .ok m

/-- `TransformKey(src, dst)` -/
def transformKey (src dst : Arg) : Except String (String × String) := do
  let a ← frameOfArg src
  let b ← frameOfArg dst
  pure (a, b)

end PEval.Enums
