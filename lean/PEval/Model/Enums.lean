import PEval.Gen.Enums
import PEval.Model.Basic
/-!
Model of the string-accepting constructors of the configuration enums
(`perception_eval/common/evaluation_task.py`, `schema.py`, `shape.py`, `object_matching.py`,
`transform.py`).  Members are represented by their *member names* (strings); the `(name, value)`
tables are regenerated from the source on every run (`PEval.Gen`).  What is hand-modelled here is
the control flow of each parser: first match in definition order, lower- or upper-casing of the
argument, fallback or error.  Python `str.lower()/upper()` are modelled on ASCII only.
-/
namespace PEval.Enums

abbrev Table := List (String × String)   -- (member name, value)

/-- result of a parser: the member (by name), or the kind of exception raised -/
abbrev Res := Except String String

/-- `for _, v in cls.__members__.items(): if v == name: return v` (`v == name` compares the value) -/
def firstByValue (t : Table) (s : String) : Option String :=
  (t.find? (fun p => p.2 == s)).map (·.1)

def values (t : Table) : List String := t.map (·.2)
def names (t : Table) : List String := t.map (·.1)

/-- `EvaluationTask.from_value` -/
def taskFromValue (s : String) : Res :=
  match firstByValue Gen.evaluationTask s with
  | some m => .ok m
  | none => .error "ValueError"

/-- `set_task(task_name)`: returns the member or falls off the end (`None`) -/
def setTask (s : String) : Option String := firstByValue Gen.evaluationTask s

/-- `FrameID.from_value`: lower-cases first -/
def frameFromValue (s : String) : Res :=
  match firstByValue Gen.frameID s.toLower with
  | some m => .ok m
  | none => .error "ValueError"

/-- `Visibility.from_alias` -/
def visibilityFromAlias (s : String) : String :=
  match Gen.visibilityAlias.find? (fun p => p.1 == s) with
  | some p => p.2
  | none => Gen.visibilityAliasFallback

/-- `Visibility.from_value`: a member value, else the alias table, else the fallback member -/
def visibilityFromValue (s : String) : Res :=
  match firstByValue Gen.visibility s with
  | some m => .ok m
  | none => .ok (visibilityFromAlias s)

/-- `SensorModality.from_value` -/
def sensorFromValue (s : String) : Res :=
  match firstByValue Gen.sensorModality s with
  | some m => .ok m
  | none => .error "ValueError"

/-- `ShapeType.from_value` -/
def shapeTypeFromValue (s : String) : Res :=
  match firstByValue Gen.shapeType s with
  | some m => .ok m
  | none => .error "ValueError"

/-- `MatchingLabelPolicy.from_str`: upper-cases, asserts membership of the *name*, indexes by name -/
def policyFromStr (s : String) : Res :=
  let u := s.toUpper
  if (names Gen.matchingLabelPolicy).contains u then .ok u else .error "AssertionError"

/-- an argument that may be given as a string or as a member already -/
inductive Arg where
  | str (s : String)
  | member (name : String)
deriving Repr, DecidableEq

/-- `Shape(shape_type, ...)`: `if isinstance(shape_type, str): shape_type = ShapeType.from_value(shape_type)` -/
def shapeTypeOfArg : Arg → Res
  | .str s => shapeTypeFromValue s
  | .member m => .ok m

/-- `FrameID.from_value(x) if isinstance(x, str) else x` (TransformKey, HomogeneousMatrix) -/
def frameOfArg : Arg → Res
  | .str s => frameFromValue s
  | .member m => .ok m

/-- `TransformKey(src, dst)` -/
def transformKey (src dst : Arg) : Except String (String × String) := do
  let a ← frameOfArg src
  let b ← frameOfArg dst
  pure (a, b)

/-! ## parse sites that take several strings at once

`set_task_lists`, `set_task_dict` (`common/evaluation_task.py`) and the `frame_id` argument of the
evaluation configs (`config/_evaluation_config_base.py`). -/

/-- the members a single string names: `for task in EvaluationTask: if s == task.value: append(task)`
(no `break`: every member whose value equals the string, in definition order) -/
def membersNamed (t : Table) (s : String) : List String :=
  (t.filter (fun p => p.2 == s)).map (·.1)

/-- `set_task_lists(evaluation_tasks_str)`: the outer loop runs over the given strings in order, the
inner one over the members; a string that names no member adds nothing -/
def setTaskLists (l : List String) : List String :=
  l.flatMap (membersNamed Gen.evaluationTask)

/-- `set_task_dict(evaluation_tasks_dict)` as a list of `(member, item)` in insertion order.  The keys of
a Python dict are pairwise distinct, so together with distinct member values no member is assigned
twice (`setTaskDict_keys_nodup`), i.e. the assignment `task_dict[task] = item` always appends. -/
def setTaskDict {α : Type} (kv : List (String × α)) : List (String × α) :=
  kv.flatMap fun e => (membersNamed Gen.evaluationTask e.1).map fun m => (m, e.2)

/-- the `frame_id` argument of an evaluation config: one string or a sequence of strings -/
inductive FrameIdArg where
  | one (s : String)
  | many (l : List String)
deriving Repr, DecidableEq

/-- `[FrameID.from_value(frame_id)] if isinstance(frame_id, str) else [FrameID.from_value(f) for f in frame_id]`:
the first string that is no frame raises -/
def frameIds : FrameIdArg → Except String (List String)
  | .one s => (frameFromValue s).map fun m => [m]
  | .many l => l.mapM frameFromValue

/-- `_check_tasks`: `if task not in self.support_tasks: raise ValueError`, then `set_task(task)` -/
def checkTask (support : List String) (s : String) : Except String (Option String) :=
  if support.contains s then .ok (setTask s) else .error "ValueError"

/-! ## value-level model: WHAT a parser hands back (audit round 1, item 6)

Above, a member is represented by its name string, so a parser that hands back the member `Visibility.FULL`
and one that hands back the `str` `'FULL'` (defect F12: `for k, v in …: if v == name: return k`) have the same
model.  `PyRet` keeps them apart: the value-level parsers (`…V`) are the code as it is NOW (the loop returns
the member `v`), the `…_F12` variants are the code before fix 5c0bd61 (the loop returned the key `k`, a `str`;
`SensorModality.from_value` fell off the end).  `PyRet` is also the type of an ARGUMENT of a string-or-enum
call site (`Shape`, `TransformKey`, `FrameID.from_task`): a `str`, a member of some enum class, `None`.
The link to the string-level model (`Properties/C20.lean`): `xFromValueV s = (xFromValue s).map (PyRet.member "X")`
(`…V_eq`), so the string-level theorems transfer; erasing the kind (`PyRet.erase`) gives the same string-level result
for the current parsers AND for the F12 variants (`F12_same_erasure`). -/

/-- a Python value as far as the enum parsers and their call sites tell values apart: a member of an enum
class (`enum` = the class name, `name` = the member name), a plain `str`, or `None` -/
inductive PyRet where
  | member (enum : String) (name : String)
  | str (s : String)
  | none
deriving Repr, DecidableEq, Inhabited

/-- the value a call returns, or the kind of exception raised -/
abbrev PyRes := Except String PyRet

/-- what the string-level model keeps of a value -/
def PyRet.erase : PyRet → Option String
  | .member _ n => some n
  | .str s => some s
  | .none => Option.none

/-- `isinstance(x, <enum>)` -/
def PyRet.isMemberOf (enum : String) : PyRet → Bool
  | .member e _ => e == enum
  | _ => false

/-- string-level result of a value-level result (`None` has no string-level counterpart in `Res`: `setTask` uses `Option`) -/
def PyRes.erase : PyRes → Except String (Option String)
  | .ok v => .ok v.erase
  | .error k => .error k

/-- `for _, v in cls.__members__.items(): if v == name: return v` — the loop hands back the MEMBER `v` -/
def firstMemberV (enum : String) (t : Table) (s : String) : Option PyRet :=
  (t.find? (fun p => p.2 == s)).map fun p => PyRet.member enum p.1

/-- F12: `for k, v in cls.__members__.items(): if v == name: return k` — hands back the KEY, a `str` -/
def firstKey_F12 (t : Table) (s : String) : Option PyRet :=
  (t.find? (fun p => p.2 == s)).map fun p => PyRet.str p.1

/-- `EvaluationTask.from_value` -/
def taskFromValueV (s : String) : PyRes :=
  match firstMemberV "EvaluationTask" Gen.evaluationTask s with
  | some v => .ok v
  | none => .error "ValueError"

/-- `set_task(task_name)`: the member, or falls off the end (`None`) -/
def setTaskV (s : String) : PyRet :=
  match firstMemberV "EvaluationTask" Gen.evaluationTask s with
  | some v => v
  | none => .none

/-- `FrameID.from_value` -/
def frameFromValueV (s : String) : PyRes :=
  match firstMemberV "FrameID" Gen.frameID s.toLower with
  | some v => .ok v
  | none => .error "ValueError"

/-- `Visibility.from_alias`: an if / elif chain of `return Visibility.X`.  The alias table holds the NAME of the
member the running `from_alias` answered (the translator writes `repr` instead if the answer is no member, and then
`C20.alias_targets_members` fails), so the answer is a member of `Visibility` -/
def visibilityFromAliasV (s : String) : PyRet := .member "Visibility" (visibilityFromAlias s)

/-- `Visibility.from_value` (now: `return v`) -/
def visibilityFromValueV (s : String) : PyRes :=
  match firstMemberV "Visibility" Gen.visibility s with
  | some v => .ok v
  | none => .ok (visibilityFromAliasV s)

/-- `Visibility.from_value` before 5c0bd61 (`return k`) -/
def visibilityFromValue_F12 (s : String) : PyRes :=
  match firstKey_F12 Gen.visibility s with
  | some v => .ok v
  | none => .ok (visibilityFromAliasV s)

/-- `SensorModality.from_value` (now: `return v`, `raise ValueError` after the loop) -/
def sensorFromValueV (s : String) : PyRes :=
  match firstMemberV "SensorModality" Gen.sensorModality s with
  | some v => .ok v
  | none => .error "ValueError"

/-- `SensorModality.from_value` before 5c0bd61 (`return k`; falls off the end: `None`) -/
def sensorFromValue_F12 (s : String) : PyRes :=
  match firstKey_F12 Gen.sensorModality s with
  | some v => .ok v
  | none => .ok .none

/-- `ShapeType.from_value` (now: `return v`) -/
def shapeTypeFromValueV (s : String) : PyRes :=
  match firstMemberV "ShapeType" Gen.shapeType s with
  | some v => .ok v
  | none => .error "ValueError"

/-- `ShapeType.from_value` before 5c0bd61 (`return k`) -/
def shapeTypeFromValue_F12 (s : String) : PyRes :=
  match firstKey_F12 Gen.shapeType s with
  | some v => .ok v
  | none => .error "ValueError"

/-- `MatchingLabelPolicy.from_str`: `name = name.upper(); assert name in cls.__members__; return cls.__members__[name]` -/
def policyFromStrV (s : String) : PyRes :=
  let u := s.toUpper
  if (names Gen.matchingLabelPolicy).contains u then .ok (.member "MatchingLabelPolicy" u) else .error "AssertionError"

/-- a variant of `from_str` that would hand the (upper-cased) string back instead of indexing `__members__` -/
def policyFromStr_S (s : String) : PyRes :=
  let u := s.toUpper
  if (names Gen.matchingLabelPolicy).contains u then .ok (.str u) else .error "AssertionError"

/-- an `Arg` of the string-level model as a value: a member of the enum class the call site expects -/
def argV (enum : String) : Arg → PyRet
  | .str s => .str s
  | .member m => .member enum m

/-- the three documented spellings of one member `(name, value)` at a string-or-enum call site -/
def spellingsV (enum : String) (p : String × String) : List PyRet :=
  [.str p.2, .str p.2.toUpper, .member enum p.1]

/-! ### `Shape(shape_type, size, footprint)` (`common/shape.py`) -/

/-- `x != ShapeType.BOUNDING_BOX` as Python evaluates it (`__calculate_corners`): for a member identity, for a `str`
the reflected string-aware `ShapeType.__eq__` (`self.value == other`), for `None` always different -/
def neBoundingBox : PyRet → Bool
  | .member e n => !(e == "ShapeType" && n == "BOUNDING_BOX")
  | .str s => !(firstByValue Gen.shapeType s == some "BOUNDING_BOX")
  | .none => true

/-- what `Shape.type` holds after `Shape.__init__`, or the exception raised:
```
if isinstance(shape_type, str): shape_type = ShapeType.from_value(shape_type)
self.type = shape_type
self.footprint = footprint if footprint else self.__calculate_corners(shape_type, size)
```
`footprintTruthy`: an explicit, non-empty footprint polygon was given -/
def shapeInitV (shapeType : PyRet) (footprintTruthy : Bool) : PyRes := do
  let t ← match shapeType with
    | .str s => shapeTypeFromValueV s
    | v => pure v
  if footprintTruthy then pure t
  else if neBoundingBox t then throw "ValueError" else pure t

/-- seeded change C20_G: the conversion moved into the branch that derives the footprint; with an explicit footprint the
argument is stored verbatim -/
def shapeInitV_G (shapeType : PyRet) (footprintTruthy : Bool) : PyRes :=
  if footprintTruthy then pure shapeType
  else do
    let t ← match shapeType with
      | .str s => shapeTypeFromValueV s
      | v => pure v
    if neBoundingBox t then throw "ValueError" else pure t

/-- `Shape.__init__` on top of the F12 parser (`ShapeType.from_value` returning the name string) -/
def shapeInitV_F12 (shapeType : PyRet) (footprintTruthy : Bool) : PyRes := do
  let t ← match shapeType with
    | .str s => shapeTypeFromValue_F12 s
    | v => pure v
  if footprintTruthy then pure t
  else if neBoundingBox t then throw "ValueError" else pure t

/-! ### `TransformKey(src, dst)` / `HomogeneousMatrix(…, src, dst)` (`common/transform.py`) -/

/-- `FrameID.from_value(x) if isinstance(x, str) else x`: anything that is no `str` is stored as it is -/
def frameOfArgV : PyRet → PyRes
  | .str s => frameFromValueV s
  | v => .ok v

/-- `TransformKey(src, dst)`: what `key.src`, `key.dst` hold -/
def transformKeyV (src dst : PyRet) : Except String (PyRet × PyRet) := do
  let a ← frameOfArgV src
  let b ← frameOfArgV dst
  pure (a, b)

/-- seeded change C20_B: `dst` is parsed when `src` is a `str` (wrong variable); `FrameID.from_value(member)` then fails on
`member.lower()` -/
def transformKeyV_B (src dst : PyRet) : Except String (PyRet × PyRet) := do
  let a ← frameOfArgV src
  let b ← match src with
    | .str _ => (match dst with
        | .str d => frameFromValueV d
        | _ => .error "AttributeError")
    | _ => pure dst
  pure (a, b)

/-- seeded change C20_J: both arguments are parsed only when both are `str` -/
def transformKeyV_J (src dst : PyRet) : Except String (PyRet × PyRet) :=
  match src, dst with
  | .str s, .str d => do
    let a ← frameFromValueV s
    let b ← frameFromValueV d
    pure (a, b)
  | a, b => pure (a, b)

/-! ### `FrameID.from_task(task)` (`common/schema.py`) -/

/-- `EvaluationTask.is_3d()` of the member called `m`, as the running code answers (regenerated table) -/
def taskIs3d (m : String) : Bool := Gen.taskIs3d.lookup m == some "true"

/-- the branches of `from_task` once `task` is (or should be) a member:
```
if task.is_2d(): raise ValueError
if task in (EvaluationTask.DETECTION, EvaluationTask.SENSING): return FrameID.BASE_LINK
elif task in (EvaluationTask.TRACKING, EvaluationTask.PREDICTION): return FrameID.MAP
else: raise ValueError
```
a value that is no `EvaluationTask` member has no `is_2d` (`AttributeError`) -/
def frameOfTaskMember : PyRet → PyRes
  | .member e m =>
    if e != "EvaluationTask" then .error "AttributeError"
    else if !(taskIs3d m) then .error "ValueError"
    else if m == "DETECTION" || m == "SENSING" then .ok (.member "FrameID" "BASE_LINK")
    else if m == "TRACKING" || m == "PREDICTION" then .ok (.member "FrameID" "MAP")
    else .error "ValueError"
  | _ => .error "AttributeError"

/-- `FrameID.from_task(task)`: `if isinstance(task, str): task = EvaluationTask.from_value(task)`, then the branches -/
def frameFromTaskV (task : PyRet) : PyRes := do
  let t ← match task with
    | .str s => taskFromValueV s
    | v => pure v
  frameOfTaskMember t

/-- a variant without the conversion of a `str` argument (the branches are run on the argument as given) -/
def frameFromTaskV_noconv (task : PyRet) : PyRes := frameOfTaskMember task

/-! ### the parse sites taking several strings, value level -/

/-- `for task in EvaluationTask: if s == task.value: append(task)` — the MEMBERS are appended -/
def membersNamedV (enum : String) (t : Table) (s : String) : List PyRet :=
  (t.filter (fun p => p.2 == s)).map fun p => PyRet.member enum p.1

/-- `set_task_lists` -/
def setTaskListsV (l : List String) : List PyRet :=
  l.flatMap (membersNamedV "EvaluationTask" Gen.evaluationTask)

/-- a variant of `set_task_lists` that appends `task.name` instead of `task` -/
def setTaskListsV_N (l : List String) : List PyRet :=
  l.flatMap fun s => (Gen.evaluationTask.filter (fun p => p.2 == s)).map fun p => PyRet.str p.1

/-- `set_task_dict`: the keys are members -/
def setTaskDictV {α : Type} (kv : List (String × α)) : List (PyRet × α) :=
  kv.flatMap fun e => (membersNamedV "EvaluationTask" Gen.evaluationTask e.1).map fun m => (m, e.2)

/-- the `frame_id` argument of an evaluation config -/
def frameIdsV : FrameIdArg → Except String (List PyRet)
  | .one s => (frameFromValueV s).map fun m => [m]
  | .many l => l.mapM frameFromValueV

/-- `_check_tasks` -/
def checkTaskV (support : List String) (s : String) : PyRes :=
  if support.contains s then .ok (setTaskV s) else .error "ValueError"

end PEval.Enums
