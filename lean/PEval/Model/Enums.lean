import PEval.Gen.Enums
import PEval.Model.Basic
/-!
Model of the string-accepting constructors of the configuration enums
(`perception_eval/common/evaluation_task.py`, `schema.py`, `shape.py`, `object_matching.py`,
`transform.py`).  Members are represented by their *member names* (strings); the `(name, value)`
tables are regenerated from the source on every run (`PEval.Gen`).  What is hand-modelled here is
the control flow of each parser: first match in definition order, lower- or upper-casing of the
argument, fallback or error.  Python `str.lower()/upper()` are modelled on ASCII only.
-/
namespace PEval.Enums

abbrev Table := List (String × String)   -- (member name, value)

/-- result of a parser: the member (by name), or the kind of exception raised -/
abbrev Res := Except String String

/-- `for _, v in cls.__members__.items(): if v == name: return v` (`v == name` compares the value) -/
def firstByValue (t : Table) (s : String) : Option String :=
  (t.find? (fun p => p.2 == s)).map (·.1)

def values (t : Table) : List String := t.map (·.2)
def names (t : Table) : List String := t.map (·.1)

/-- `EvaluationTask.from_value` -/
def taskFromValue (s : String) : Res :=
  match firstByValue Gen.evaluationTask s with
  | some m => .ok m
  | none => .error "ValueError"

/-- `set_task(task_name)`: returns the member or falls off the end (`None`) -/
def setTask (s : String) : Option String := firstByValue Gen.evaluationTask s

/-- `FrameID.from_value`: lower-cases first -/
def frameFromValue (s : String) : Res :=
  match firstByValue Gen.frameID s.toLower with
  | some m => .ok m
  | none => .error "ValueError"

/-- `Visibility.from_alias` -/
def visibilityFromAlias (s : String) : String :=
  match Gen.visibilityAlias.find? (fun p => p.1 == s) with
  | some p => p.2
  | none => Gen.visibilityAliasFallback

/-- `Visibility.from_value`: a member value, else the alias table, else the fallback member -/
def visibilityFromValue (s : String) : Res :=
  match firstByValue Gen.visibility s with
  | some m => .ok m
  | none => .ok (visibilityFromAlias s)

/-- `SensorModality.from_value` -/
def sensorFromValue (s : String) : Res :=
  match firstByValue Gen.sensorModality s with
  | some m => .ok m
  | none => .error "ValueError"

/-- `ShapeType.from_value` -/
def shapeTypeFromValue (s : String) : Res :=
  match firstByValue Gen.shapeType s with
  | some m => .ok m
  | none => .error "ValueError"

/-- `MatchingLabelPolicy.from_str`: upper-cases, asserts membership of the *name*, indexes by name -/
def policyFromStr (s : String) : Res :=
  let u := s.toUpper
  if (names Gen.matchingLabelPolicy).contains u then .ok u else .error "AssertionError"

/-- an argument that may be given as a string or as a member already -/
inductive Arg where
  | str (s : String)
  | member (name : String)
deriving Repr, DecidableEq

/-- `Shape(shape_type, ...)`: `if isinstance(shape_type, str): shape_type = ShapeType.from_value(shape_type)` -/
def shapeTypeOfArg : Arg → Res
  | .str s => shapeTypeFromValue s
  | .member m => .ok m

/-- `FrameID.from_value(x) if isinstance(x, str) else x` (TransformKey, HomogeneousMatrix) -/
def frameOfArg : Arg → Res
  | .str s => frameFromValue s
  | .member m => .ok m

/-- `TransformKey(src, dst)` -/
def transformKey (src dst : Arg) : Except String (String × String) := do
  let a ← frameOfArg src
  let b ← frameOfArg dst
  pure (a, b)

/-! ## parse sites that take several strings at once

`set_task_lists`, `set_task_dict` (`common/evaluation_task.py`) and the `frame_id` argument of the
evaluation configs (`config/_evaluation_config_base.py`). -/

/-- the members a single string names: `for task in EvaluationTask: if s == task.value: append(task)`
(no `break`: every member whose value equals the string, in definition order) -/
def membersNamed (t : Table) (s : String) : List String :=
  (t.filter (fun p => p.2 == s)).map (·.1)

/-- `set_task_lists(evaluation_tasks_str)`: the outer loop runs over the given strings in order, the
inner one over the members; a string that names no member adds nothing -/
def setTaskLists (l : List String) : List String :=
  l.flatMap (membersNamed Gen.evaluationTask)

/-- `set_task_dict(evaluation_tasks_dict)` as a list of `(member, item)` in insertion order.  The keys of
a Python dict are pairwise distinct, so together with distinct member values no member is assigned
twice (`setTaskDict_keys_nodup`), i.e. the assignment `task_dict[task] = item` always appends. -/
def setTaskDict {α : Type} (kv : List (String × α)) : List (String × α) :=
  kv.flatMap fun e => (membersNamed Gen.evaluationTask e.1).map fun m => (m, e.2)

/-- the `frame_id` argument of an evaluation config: one string or a sequence of strings -/
inductive FrameIdArg where
  | one (s : String)
  | many (l : List String)
deriving Repr, DecidableEq

/-- `[FrameID.from_value(frame_id)] if isinstance(frame_id, str) else [FrameID.from_value(f) for f in frame_id]`:
the first string that is no frame raises -/
def frameIds : FrameIdArg → Except String (List String)
  | .one s => (frameFromValue s).map fun m => [m]
  | .many l => l.mapM frameFromValue

/-- `_check_tasks`: `if task not in self.support_tasks: raise ValueError`, then `set_task(task)` -/
def checkTask (support : List String) (s : String) : Except String (Option String) :=
  if support.contains s then .ok (setTask s) else .error "ValueError"

end PEval.Enums
