import PEval.Driver.Util
import PEval.Model.Heading
import PEval.Model.HeadingQuat
/-! Driver handler for C09 (heading weight of APH, yaw error).

`{"op":"pair","te":τe,"tg":τg|null,"t0":τ0}` (half-turns, rationals) →
weight / error of the pair in the ego frame (`w`, `err`), with the roles swapped (`wS`, `errS`), in the
map frame obtained with ego yaw `τ0` (`wM`, `errM`, swapped `wMS`, `errMS`), the map yaws, the
circular distance `d` and the two headings.
`{"op":"yawdir","q":[w,x,y,z,…]}` → `yawDir` / `radiansDir` of every quaternion and of its negative. -/
open Lean

namespace PEval.Driver.C09
open PEval.Heading

def handle : Json → Except String Json := fun j => do
  let op ← getStr j "op"
  match op with
  | "pair" =>
    let te ← getRat j "te"
    let tg? ← getOptRat j "tg"
    let t0 ← getRat j "t0"
    match tg? with
    | none =>
      pure (Json.mkObj [("w", jRat (aphValue te none)), ("err", jOptRat (headingErrorOpt te none))])
    | some tg =>
      let me := wrapYaw (te + t0)
      let mg := wrapYaw (tg + t0)
      pure (Json.mkObj [
        ("w", jRat (aphValue te (some tg))), ("err", jOptRat (headingErrorOpt te (some tg))),
        ("wS", jRat (aphWeight tg te)), ("errS", jRat (headingError tg te)),
        ("wM", jRat (aphWeightMap t0 te tg)), ("errM", jRat (headingErrorMap t0 te tg)),
        ("wMS", jRat (aphWeightMap t0 tg te)), ("errMS", jRat (headingErrorMap t0 tg te)),
        ("me", jRat me), ("mg", jRat mg),
        ("d", jRat (circDist te tg)),
        ("he", jRat (headingBev te)), ("hg", jRat (headingBev tg)),
        ("dom", Json.bool (decide (InDom te) && decide (InDom tg) && decide (InDom t0)))])
  | "analyzer" =>
    -- the analyzer's yaw error column: pairs (te[i], tg[i]), ego yaw t0 of the map rendering
    let tes ← getRatList j "te"
    let tgs ← getRatList j "tg"
    let t0 ← getRat j "t0"
    let row := fun (p : Rat × Rat) => Json.mkObj [
      ("err", jRat (analyzerYawError p.1 p.2)), ("errM", jRat (analyzerYawErrorMap t0 p.1 p.2)),
      ("d", jRat (circDist p.1 p.2))]
    pure (Json.mkObj [("pairs", jList row (tes.zip tgs))])
  | "prefix" =>
    -- the pre-fix (F3) weight, used only by the mutation notes / search messages
    let te ← getRat j "te"
    let tg ← getRat j "tg"
    let ne ← getBool j "ne"
    let ng ← getBool j "ng"
    pure (Json.mkObj [("w", jRat (aphWeightPreFix te ne tg ng))])
  | "yawdir" =>
    -- quaternion level: the two arguments of arctan2 in yaw_pitch_roll[0], for q and for −q; `q` is a flat list w,x,y,z,w,x,y,z,…
    let qs ← getRatList j "q"
    let rec quats : List Rat → List PEval.Transform.Quat
      | w :: x :: y :: z :: rest => ⟨w, x, y, z⟩ :: quats rest
      | _ => []
    let row := fun (q : PEval.Transform.Quat) => Json.mkObj [
      ("c", jRat (yawDir q).c), ("s", jRat (yawDir q).s),
      ("cn", jRat (yawDir (-q)).c), ("sn", jRat (yawDir (-q)).s),
      ("rc", jRat (radiansDir q).c), ("rs", jRat (radiansDir q).s),
      ("rcn", jRat (radiansDir (-q)).c), ("rsn", jRat (radiansDir (-q)).s)]
    pure (Json.mkObj [("dirs", jList row (quats qs))])
  | o => throw s!"unknown op {o}"

end PEval.Driver.C09
