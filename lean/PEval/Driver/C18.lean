import PEval.Driver.Util
import PEval.Model.Transform
/-!
Driver handler for C18 (rigid transforms and the transform registry).

* `{"op":"chain","mats":[M…],"via":[…],"probe":{"pos":[3],"q":[4]}}` — the matrices are built in order
  (`{"err":k,"at":i}` if one is rejected); for each: `.matrix`, labels, inverse, the transformed probe
  (position only / position + rotation) and the two round trips through the inverse; then the
  composites `C₂ = M₁∘M₀`, `C₃ = M₂∘C₂` … (`via[i]` = `"dot"`: `Mᵢ.dot(C)`, otherwise `C.transform(Mᵢ)`),
  stopping at the first error.
* `{"op":"registry","mats":[M…],"queries":[{"src":A,"dst":A,"arg":X}…]}` — `TransformDict(mats).transform`.
* `{"op":"regseq","mats":[M…],"ops":[O…],"probes":[{"src":A,"dst":A}…],"parg":X}` — an operation sequence on
  one registry: `O = {"op":"set","mat":M}` (`reg[(M.src, M.dst)] = M`) `| {"op":"del","src":A,"dst":A}`
  `| {"op":"copy"}` (continue on `deepcopy(reg)`, the original is kept) `| {"op":"query","src","dst","arg":X}`.
  Answer: `steps[0]` after construction, `steps[i]` after the i-th operation, each
  `{"res": null | {"err":k} | answer, "probes":[answer of the current contents to every probe key with `parg`]}`,
  and `olds` = `[{"probes":[…]}…]`, the probe answers of every registry left behind by a `copy`, asked at the end.
  With `"paths":["get","__getitem__","__contains__","load_key"]` (any subset; also accepted by `registry`) every step /
  answer list is accompanied by `look` = for every probe key (query key) `{path: answer}`: the registered matrix,
  `{"none":true}`, `{"bool":b}`, `{"key":[src,dst]}` or `{"err":k}`.

`M = {"pos":[3],"q":[4],"src":A,"dst":A}`, `A = {"member":name} | {"str":s}`,
`X = {"kind":"pos","pos"} | {"kind":"pose","pos","q"} | {"kind":"mat", …M} | {"kind":"noargs"|"toomany"|"unknownkw"|"posandmat"}`.
Rotations are answered as 3×3 rotation matrices (the sign of a quaternion is not observable).
-/
open Lean

namespace PEval.Driver.C18
open PEval.Transform PEval.Enums

def getV3 (j : Json) (k : String) : Except String V3 := do
  match ← getRatList j k with
  | [x, y, z] => pure ⟨x, y, z⟩
  | _ => throw s!"{k}: expected 3 rationals"

def getQuat (j : Json) (k : String) : Except String Quat := do
  match ← getRatList j k with
  | [w, x, y, z] => pure ⟨w, x, y, z⟩
  | _ => throw s!"{k}: expected 4 rationals"

def getArg (j : Json) (k : String) : Except String Arg := do
  let a ← j.getObjVal? k
  match a.getObjValAs? String "str" with
  | .ok s => pure (.str s)
  | .error _ => do
    let m ← a.getObjValAs? String "member"
    pure (.member m)

/-- decode a matrix spec and run the constructor (inner `Except` = the Python exception) -/
def getHM (j : Json) : Except String (Except String HM) := do
  let pos ← getV3 j "pos"
  let q ← getQuat j "q"
  let s ← getArg j "src"
  let d ← getArg j "dst"
  pure (HM.mk' pos q s d)

def jV3 (v : V3) : Json := Json.arr #[jRat v.x, jRat v.y, jRat v.z]
def jV4 (v : V4) : Json := Json.arr #[jRat v.a, jRat v.b, jRat v.c, jRat v.d]
def jMat3 (m : Mat3) : Json := Json.arr #[jV3 m.r0, jV3 m.r1, jV3 m.r2]
def jMat4 (m : Mat4) : Json := Json.arr #[jV4 m.r0, jV4 m.r1, jV4 m.r2, jV4 m.r3]

def jHM (a : HM) : Json :=
  Json.mkObj [("mat", jMat4 (toMat a)), ("pos", jV3 a.pos), ("rot", jMat3 (rotMat a.rot)),
    ("src", a.src), ("dst", a.dst)]

def jPose (pr : V3 × Quat) : Json := Json.mkObj [("pos", jV3 pr.1), ("rot", jMat3 (rotMat pr.2))]

def jTArg : TArg → Json
  | .pos p => Json.mkObj [("pos", jV3 p)]
  | .pose p r => jPose (p, r)
  | .mat m => jHM m
  | _ => Json.mkObj [("malformed", true)]

def jRes : Except String TArg → Json
  | .ok x => jTArg x
  | .error e => Json.mkObj [("err", e)]

/-- everything observed of one matrix -/
def info (a : HM) (p : V3) (r : Quat) : Json :=
  let ai := inv a
  Json.mkObj [
    ("m", jHM a),
    ("inv", jHM ai),
    ("tf_pos", jRes (a.transform (.pos p))),
    ("tf_pose", jRes (a.transform (.pose p r))),
    ("rt1", jPose (transformPose ai (transformPose a (p, r)))),
    ("rt2", jPose (transformPose a (transformPose ai (p, r))))]

def buildAll : List (Except String HM) → Nat → Except (String × Nat) (List HM)
  | [], _ => .ok []
  | .error e :: _, i => .error (e, i)
  | .ok m :: rest, i => (buildAll rest (i + 1)).map (m :: ·)

/-- composites along the chain, stopping at the first error -/
def composites (p : V3) (r : Quat) : HM → List (HM × String) → List Json
  | _, [] => []
  | acc, (m, via) :: rest =>
    let c : Except String HM :=
      if via == "dot" then dot m acc
      else match acc.transform (.mat m) with
        | .ok (.mat c) => .ok c
        | .ok _ => .error "driver: not a matrix"
        | .error e => .error e
    match c with
    | .ok c => info c p r :: composites p r c rest
    | .error e => [Json.mkObj [("err", e)]]

def getTArg (j : Json) : Except String (Except String TArg) := do
  let kind ← getStr j "kind"
  match kind with
  | "pos" => pure (.ok (.pos (← getV3 j "pos")))
  | "pose" => pure (.ok (.pose (← getV3 j "pos") (← getQuat j "q")))
  | "mat" => pure ((← getHM j).map .mat)
  | "noargs" => pure (.ok .noArgs)
  | "toomany" => pure (.ok .tooMany)
  | "unknownkw" => pure (.ok .unknownKw)
  | "posandmat" => pure (.ok .posAndMat)
  | k => throw s!"unknown arg kind {k}"

/-- the answers of the contents `d` to every probe key with the shared argument -/
def probeAll (d : List HM) (probes : List (Arg × Arg)) (x : TArg) : Json :=
  Json.arr (probes.map (fun st => jRes (dictTransform d st.1 st.2 x))).toArray

structure SeqState where
  cur : List HM
  olds : List (List HM)
  steps : Array Json

def jErr (e : String) : Json := Json.mkObj [("err", e)]

/-- the answers of the other access paths (`paths` names the ones the class has) to one key -/
def jLook (d : List HM) (paths : List String) (s t : Arg) : Json :=
  Json.mkObj (paths.filterMap fun p =>
    match p with
    | "get" => some (p, match dictGet d s t with
        | .ok (some m) => jHM m
        | .ok none => Json.mkObj [("none", true)]
        | .error e => jErr e)
    | "__getitem__" => some (p, match dictGetItem d s t with
        | .ok m => jHM m
        | .error e => jErr e)
    | "__contains__" => some (p, match dictContains d s t with
        | .ok b => Json.mkObj [("bool", b)]
        | .error e => jErr e)
    | "load_key" => some (p, match transformKey s t with
        | .ok k => Json.mkObj [("key", Json.arr #[k.1, k.2])]
        | .error e => jErr e)
    | _ => none)

def lookAll (d : List HM) (paths : List String) (probes : List (Arg × Arg)) : Json :=
  Json.arr (probes.map (fun st => jLook d paths st.1 st.2)).toArray

def getPaths (j : Json) : List String :=
  match getStrList j "paths" with
  | .ok l => l
  | .error _ => []

/-- one operation on the registry, then the probe set on the new contents -/
def seqStep (paths : List String) (probes : List (Arg × Arg)) (x : TArg) (st : SeqState) (oj : Json) : Except String SeqState := do
  let op ← getStr oj "op"
  let (res, cur, olds) ← (match op with
    | "set" => do
      match ← getHM (← oj.getObjVal? "mat") with
      | .error e => pure (jErr e, st.cur, st.olds)
      | .ok m => pure (Json.null, dictSet st.cur m, st.olds)
    | "del" => do
      let s ← getArg oj "src"
      let t ← getArg oj "dst"
      match transformKey s t with
      | .error e => pure (jErr e, st.cur, st.olds)
      | .ok k =>
        match dictDel st.cur k with
        | .error e => pure (jErr e, st.cur, st.olds)
        | .ok d => pure (Json.null, d, st.olds)
    | "copy" => pure (Json.null, st.cur, st.olds ++ [st.cur])
    | "query" => do
      let s ← getArg oj "src"
      let t ← getArg oj "dst"
      match ← getTArg (← oj.getObjVal? "arg") with
      | .error e => pure (Json.mkObj [("arg_err", e)], st.cur, st.olds)
      | .ok a => pure (jRes (dictTransform st.cur s t a), st.cur, st.olds)
    | o => throw s!"unknown registry operation {o}" : Except String (Json × List HM × List (List HM)))
  pure { cur := cur, olds := olds,
         steps := st.steps.push (Json.mkObj [("res", res), ("probes", probeAll cur probes x),
           ("look", lookAll cur paths probes)]) }

def handle : Json → Except String Json := fun j => do
  let op ← getStr j "op"
  let specs ← getArr j "mats"
  let built ← specs.toList.mapM getHM
  match buildAll built 0 with
  | .error (e, i) => pure (Json.mkObj [("err", e), ("at", jNat i)])
  | .ok mats =>
    match op with
    | "chain" => do
      let pj ← j.getObjVal? "probe"
      let p ← getV3 pj "pos"
      let r ← getQuat pj "q"
      let via ← getStrList j "via"
      let comps := match mats with
        | [] => []
        | a :: rest => composites p r a (rest.zip via)
      pure (Json.mkObj [("mats", jList (fun a => info a p r) mats), ("comps", Json.arr comps.toArray)])
    | "registry" => do
      let qs ← getArr j "queries"
      let answers ← qs.toList.mapM (fun qj => do
        let s ← getArg qj "src"
        let d ← getArg qj "dst"
        let x ← getTArg (← qj.getObjVal? "arg")
        match x with
        | .error e => pure (Json.mkObj [("arg_err", e)])
        | .ok x => pure (jRes (dictTransform mats s d x)))
      let paths := getPaths j
      let look ← qs.toList.mapM (fun qj => do
        let s ← getArg qj "src"
        let d ← getArg qj "dst"
        pure (jLook mats paths s d))
      pure (Json.mkObj [("answers", Json.arr answers.toArray), ("look", Json.arr look.toArray)])
    | "regseq" => do
      let ops ← getArr j "ops"
      let pj ← getArr j "probes"
      let probes ← pj.toList.mapM (fun q => do
        let s ← getArg q "src"
        let t ← getArg q "dst"
        pure (s, t))
      match ← getTArg (← j.getObjVal? "parg") with
      | .error e => throw s!"probe argument rejected: {e}"
      | .ok x =>
        let paths := getPaths j
        let st0 : SeqState := ⟨mats, [], #[Json.mkObj [("res", Json.null), ("probes", probeAll mats probes x),
          ("look", lookAll mats paths probes)]]⟩
        let st ← ops.toList.foldlM (seqStep paths probes x) st0
        pure (Json.mkObj [("steps", Json.arr st.steps),
          ("olds", Json.arr (st.olds.map (fun d => Json.mkObj [("probes", probeAll d probes x),
            ("look", lookAll d paths probes)])).toArray)])
    | o => throw s!"unknown op {o}"

end PEval.Driver.C18
