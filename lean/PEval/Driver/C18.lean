import PEval.Driver.Util
import PEval.Model.Transform
/-!
Driver handler for C18 (rigid transforms and the transform registry).

* `{"op":"chain","mats":[M…],"via":[…],"probe":{"pos":[3],"q":[4]}}` — the matrices are built in order
  (`{"err":k,"at":i}` if one is rejected); for each: `.matrix`, labels, inverse, the transformed probe
  (position only / position + rotation) and the two round trips through the inverse; then the
  composites `C₂ = M₁∘M₀`, `C₃ = M₂∘C₂` … (`via[i]` = `"dot"`: `Mᵢ.dot(C)`, otherwise `C.transform(Mᵢ)`),
  stopping at the first error.
* `{"op":"registry","mats":[M…],"queries":[{"src":A,"dst":A,"arg":X}…]}` — `TransformDict(mats).transform`.

`M = {"pos":[3],"q":[4],"src":A,"dst":A}`, `A = {"member":name} | {"str":s}`,
`X = {"kind":"pos","pos"} | {"kind":"pose","pos","q"} | {"kind":"mat", …M} | {"kind":"noargs"|"toomany"|"unknownkw"|"posandmat"}`.
Rotations are answered as 3×3 rotation matrices (the sign of a quaternion is not observable).
-/
open Lean

namespace PEval.Driver.C18
open PEval.Transform PEval.Enums

def getV3 (j : Json) (k : String) : Except String V3 := do
  match ← getRatList j k with
  | [x, y, z] => pure ⟨x, y, z⟩
  | _ => throw s!"{k}: expected 3 rationals"

def getQuat (j : Json) (k : String) : Except String Quat := do
  match ← getRatList j k with
  | [w, x, y, z] => pure ⟨w, x, y, z⟩
  | _ => throw s!"{k}: expected 4 rationals"

def getArg (j : Json) (k : String) : Except String Arg := do
  let a ← j.getObjVal? k
  match a.getObjValAs? String "str" with
  | .ok s => pure (.str s)
  | .error _ => do
    let m ← a.getObjValAs? String "member"
    pure (.member m)

/-- decode a matrix spec and run the constructor (inner `Except` = the Python exception) -/
def getHM (j : Json) : Except String (Except String HM) := do
  let pos ← getV3 j "pos"
  let q ← getQuat j "q"
  let s ← getArg j "src"
  let d ← getArg j "dst"
  pure (HM.mk' pos q s d)

def jV3 (v : V3) : Json := Json.arr #[jRat v.x, jRat v.y, jRat v.z]
def jV4 (v : V4) : Json := Json.arr #[jRat v.a, jRat v.b, jRat v.c, jRat v.d]
def jMat3 (m : Mat3) : Json := Json.arr #[jV3 m.r0, jV3 m.r1, jV3 m.r2]
def jMat4 (m : Mat4) : Json := Json.arr #[jV4 m.r0, jV4 m.r1, jV4 m.r2, jV4 m.r3]

def jHM (a : HM) : Json :=
  Json.mkObj [("mat", jMat4 (toMat a)), ("pos", jV3 a.pos), ("rot", jMat3 (rotMat a.rot)),
    ("src", a.src), ("dst", a.dst)]

def jPose (pr : V3 × Quat) : Json := Json.mkObj [("pos", jV3 pr.1), ("rot", jMat3 (rotMat pr.2))]

def jTArg : TArg → Json
  | .pos p => Json.mkObj [("pos", jV3 p)]
  | .pose p r => jPose (p, r)
  | .mat m => jHM m
  | _ => Json.mkObj [("malformed", true)]

def jRes : Except String TArg → Json
  | .ok x => jTArg x
  | .error e => Json.mkObj [("err", e)]

/-- everything observed of one matrix -/
def info (a : HM) (p : V3) (r : Quat) : Json :=
  let ai := inv a
  Json.mkObj [
    ("m", jHM a),
    ("inv", jHM ai),
    ("tf_pos", jRes (a.transform (.pos p))),
    ("tf_pose", jRes (a.transform (.pose p r))),
    ("rt1", jPose (transformPose ai (transformPose a (p, r)))),
    ("rt2", jPose (transformPose a (transformPose ai (p, r))))]

def buildAll : List (Except String HM) → Nat → Except (String × Nat) (List HM)
  | [], _ => .ok []
  | .error e :: _, i => .error (e, i)
  | .ok m :: rest, i => (buildAll rest (i + 1)).map (m :: ·)

/-- composites along the chain, stopping at the first error -/
def composites (p : V3) (r : Quat) : HM → List (HM × String) → List Json
  | _, [] => []
  | acc, (m, via) :: rest =>
    let c : Except String HM :=
      if via == "dot" then dot m acc
      else match acc.transform (.mat m) with
        | .ok (.mat c) => .ok c
        | .ok _ => .error "driver: not a matrix"
        | .error e => .error e
    match c with
    | .ok c => info c p r :: composites p r c rest
    | .error e => [Json.mkObj [("err", e)]]

def getTArg (j : Json) : Except String (Except String TArg) := do
  let kind ← getStr j "kind"
  match kind with
  | "pos" => pure (.ok (.pos (← getV3 j "pos")))
  | "pose" => pure (.ok (.pose (← getV3 j "pos") (← getQuat j "q")))
  | "mat" => pure ((← getHM j).map .mat)
  | "noargs" => pure (.ok .noArgs)
  | "toomany" => pure (.ok .tooMany)
  | "unknownkw" => pure (.ok .unknownKw)
  | "posandmat" => pure (.ok .posAndMat)
  | k => throw s!"unknown arg kind {k}"

def handle : Json → Except String Json := fun j => do
  let op ← getStr j "op"
  let specs ← getArr j "mats"
  let built ← specs.toList.mapM getHM
  match buildAll built 0 with
  | .error (e, i) => pure (Json.mkObj [("err", e), ("at", jNat i)])
  | .ok mats =>
    match op with
    | "chain" => do
      let pj ← j.getObjVal? "probe"
      let p ← getV3 pj "pos"
      let r ← getQuat pj "q"
      let via ← getStrList j "via"
      let comps := match mats with
        | [] => []
        | a :: rest => composites p r a (rest.zip via)
      pure (Json.mkObj [("mats", jList (fun a => info a p r) mats), ("comps", Json.arr comps.toArray)])
    | "registry" => do
      let qs ← getArr j "queries"
      let answers ← qs.toList.mapM (fun qj => do
        let s ← getArg qj "src"
        let d ← getArg qj "dst"
        let x ← getTArg (← qj.getObjVal? "arg")
        match x with
        | .error e => pure (Json.mkObj [("arg_err", e)])
        | .ok x => pure (jRes (dictTransform mats s d x)))
      pure (Json.mkObj [("answers", Json.arr answers.toArray)])
    | o => throw s!"unknown op {o}"

end PEval.Driver.C18
