import PEval.Driver.Util
import PEval.Model.Lookup
/-!
Driver handler for C17 (ground-truth lookup and interpolation).

Requests: `{"op": "now" | "interp" | "manager" | "direct", "frames": [...], "t": int, "thr": int,
"interpolate": bool}`; a frame is `{"id", "time", "ego": null | {"c","s","tau","trans":[x,y,z]},
"objs": [{"id","uuid","time","frame","pos":[..],"tau","size":[..],"vel": null | [..]}]}`.
`direct` calls `interpolate_ground_truth_frames(frames[0], frames[1], t)`.
-/
open Lean

namespace PEval.Driver.C17
open PEval.Lookup PEval.Driver

def asVec3 (j : Json) : Except String Vec3 := do
  let a ← j.getArr?
  match a.toList with
  | [x, y, z] => pure ⟨← asRat x, ← asRat y, ← asRat z⟩
  | _ => throw "expected 3 rationals"

def getVec3 (j : Json) (k : String) : Except String Vec3 := do asVec3 (← j.getObjVal? k)

def asFrameId : String → FrameId
  | "base_link" => .baseLink
  | "map" => .map
  | _ => .other

def asObj (j : Json) : Except String Obj := do
  let vel ← match j.getObjVal? "vel" with
    | .ok .null => pure none
    | .ok v => (asVec3 v).map some
    | .error _ => pure none
  pure { id := ← getNat j "id", uuid := ← getNat j "uuid", time := ← getInt j "time",
         frame := asFrameId (← getStr j "frame"), pos := ← getVec3 j "pos", tau := ← getRat j "tau",
         size := ← getVec3 j "size", vel := vel }

def asPose (j : Json) : Except String Pose := do
  pure { c := ← getRat j "c", s := ← getRat j "s", tau := ← getRat j "tau", trans := ← getVec3 j "trans" }

def asFrame (j : Json) : Except String Frame := do
  let ego ← match j.getObjVal? "ego" with
    | .ok .null => pure none
    | .ok v => (asPose v).map some
    | .error _ => pure none
  let objs ← match j.getObjVal? "objs" with
    | .ok (.arr a) => a.toList.mapM asObj
    | _ => pure []
  pure { id := ← getNat j "id", time := ← getInt j "time", ego := ego, objs := objs }

def jVec3 (v : Vec3) : Json := Json.arr #[jRat v.x, jRat v.y, jRat v.z]

def frameIdStr : FrameId → String
  | .baseLink => "base_link"
  | .map => "map"
  | .other => "other"

def jObj (o : Obj) : Json :=
  Json.mkObj [("id", jNat o.id), ("uuid", jNat o.uuid), ("time", jInt o.time),
    ("frame", frameIdStr o.frame), ("pos", jVec3 o.pos), ("tau", jRat o.tau), ("size", jVec3 o.size),
    ("vel", match o.vel with | none => Json.null | some v => jVec3 v)]

def jInterp (f : InterpFrame) : Json :=
  Json.mkObj [("base", jNat f.baseId), ("time", jInt f.time), ("ego_trans", jVec3 f.egoTrans),
    ("ego_tau", jRat f.egoTau), ("objs", jList jObj f.objs)]

def jOutcome : Except Err Outcome → Json
  | .error k => Json.mkObj [("err", k)]
  | .ok .nothing => Json.mkObj [("none", true)]
  | .ok (.orig f) => Json.mkObj [("orig", jNat f.id)]
  | .ok (.interp f) => Json.mkObj [("interp", jInterp f)]

def jNeighbours (n : Neighbours) : Json :=
  Json.mkObj [("before", jOptNat (n.before.map (·.id))), ("after", jOptNat (n.after.map (·.id))),
    ("dt_before", jInt n.dtBefore), ("dt_after", jInt n.dtAfter)]

def handle : Json → Except String Json := fun j => do
  let op ← getStr j "op"
  let fs ← (← getArr j "frames").toList.mapM asFrame
  let t ← getInt j "t"
  match op with
  | "now" =>
    let thr ← getInt j "thr"
    pure (match getNowFrame fs t thr with
      | .error k => Json.mkObj [("err", k)]
      | .ok none => Json.mkObj [("none", true)]
      | .ok (some f) => Json.mkObj [("orig", jNat f.id)])
  | "interp" =>
    let thr ← getInt j "thr"
    pure ((jOutcome (getInterpolated fs t thr)).setObjVal! "nb" (jNeighbours (neighbours fs t)))
  | "manager" =>
    let thr ← getInt j "thr"
    let ip ← getBool j "interpolate"
    pure (jOutcome (managerLookup fs t thr ip))
  | "direct" =>
    match fs with
    | [b, a] =>
      pure (match interpolateFrames b a t with
        | .error k => Json.mkObj [("err", k)]
        | .ok f => Json.mkObj [("interp", jInterp f),
            ("alpha", jRat (alpha b.time a.time t))])
    | _ => throw "direct needs exactly two frames"
  | o => throw s!"unknown op {o}"

end PEval.Driver.C17
