import PEval.Driver.Util
import PEval.Model.Sensing
/-! Driver handler for C12 (sensing: crop, classification, non-detection).

A cloud is a JSON array of rows `[x, y, z]` (rationals as strings) or `[x, y, z, tag]`; by default the tag of a row is its position.
An area is an array of corners `[x, y, z]`. Results name rows by tag. -/
open Lean

namespace PEval.Driver.C12
open PEval.Sensing

def asRow (tag : Nat) (j : Json) : Except String Pt := do
  let a ← j.getArr?
  if a.size < 3 then throw "row needs 3 entries"
  -- an optional 4th entry names the row (a natural number); by default the tag is the position
  let tag := if a.size > 3 then (a[3]!.getNat?.toOption.getD tag) else tag
  pure ⟨← asRat a[0]!, ← asRat a[1]!, ← asRat a[2]!, tag⟩

def asCloud (j : Json) : Except String (List Pt) := do
  let a ← j.getArr?
  let rec go (l : List Json) (i : Nat) : Except String (List Pt) :=
    match l with
    | [] => pure []
    | x :: xs => do
      let p ← asRow i x
      let ps ← go xs (i + 1)
      pure (p :: ps)
  go a.toList 0

def asCorner (j : Json) : Except String Corner := do
  let a ← j.getArr?
  if a.size < 3 then throw "corner needs 3 entries"
  pure ⟨← asRat a[0]!, ← asRat a[1]!, ← asRat a[2]!⟩

def asArea (j : Json) : Except String (List Corner) := do
  let a ← j.getArr?
  a.toList.mapM asCorner

def asBox (j : Json) : Except String Box := do
  pure { cx := ← getRat j "cx", cy := ← getRat j "cy", cz := ← getRat j "cz",
         e1x := ← getRat j "e1x", e1y := ← getRat j "e1y", e2x := ← getRat j "e2x", e2y := ← getRat j "e2y",
         w := ← getRat j "w", l := ← getRat j "l", h := ← getRat j "h" }

def optStr (j : Json) (k : String) : Option String :=
  match j.getObjVal? k with
  | .ok (.str s) => some s
  | _ => none

def optVis (j : Json) : Option Vis :=
  match optStr j "visibility" with
  | some n => some (.member n)
  | none => (optStr j "visibility_str").map Vis.raw

def asObj (j : Json) : Except String Obj := do
  pure { id := ← getNat j "id", uuid := optStr j "uuid", box := ← asBox (← j.getObjVal? "box"),
         dist := ← getRat j "dist", visibility := optVis j }

def asObjs (j : Json) (k : String) : Except String (List Obj) := do
  (← getArr j k).toList.mapM asObj

def asCfg (j : Json) : Except String Cfg := do
  let tu : Option (List String) ← match j.getObjVal? "target_uuids" with
    | .ok (.arr a) => do
      let l ← a.toList.mapM (fun x => x.getStr?)
      pure (some l)
    | _ => pure none
  pure { targetUuids := tu, scale0 := ← getRat j "scale0", scale100 := ← getRat j "scale100",
         minPoints := ← getInt j "min_points" }

def jTags (l : List Pt) : Json := jList (fun p => jNat p.tag) l

def jExcept {α} (f : α → Json) : Except Err α → Json
  | .ok a => f a
  | .error e => Json.mkObj [("err", e)]

def jSRes (r : SRes) : Json :=
  Json.mkObj [("gt", jNat r.gt), ("num", jNat r.num), ("inside", jTags r.inside),
              ("detected", r.isDetected), ("occluded", r.isOccluded)]

def jFrame (fr : FrameRes) : Json :=
  Json.mkObj [("success", jList jSRes fr.success), ("fail", jList jSRes fr.fail),
              ("warning", jList jSRes fr.warning), ("non_detection", jList jTags fr.nonDetection)]

def handle : Json → Except String Json := fun j => do
  let op ← getStr j "op"
  match op with
  | "crop_raw" =>
    let cols ← getNat j "cols"
    let cloud ← asCloud (← j.getObjVal? "cloud")
    let area ← asArea (← j.getObjVal? "area")
    pure (Json.mkObj [
      ("inside", jExcept jTags (crop cols cloud area true)),
      ("outside", jExcept jTags (crop cols cloud area false)),
      ("wn", jList (fun p => jNat (wn area p)) cloud)])
  | "crop_box" =>
    let cols ← getNat j "cols"
    let cloud ← asCloud (← j.getObjVal? "cloud")
    let box ← asBox (← j.getObjVal? "box")
    let ks ← getRatList j "scales"
    pure (Json.mkObj [("results", jList (fun k => Json.mkObj [
      ("inside", jExcept jTags (cropBox cols cloud box k true)),
      ("outside", jExcept jTags (cropBox cols cloud box k false)),
      ("num", jExcept jNat (insideNum cols cloud box k)),
      ("exist", jExcept (fun (b : Bool) => (b : Json)) (pointExist cols cloud box k)),
      ("corners", jList (fun (c : Corner) => Json.arr #[jRat c.x, jRat c.y, jRat c.z]) (boxCorners box k))]) ks)])
  | "scale" =>
    let cfg ← asCfg (← j.getObjVal? "cfg")
    let d ← getRat j "dist"
    pure (Json.mkObj [("scale", jRat (scaleFactor cfg d))])
  | "frame" =>
    let cfg ← asCfg (← j.getObjVal? "cfg")
    let cols ← getNat j "cols"
    let objs ← asObjs j "objs"
    let cloud ← asCloud (← j.getObjVal? "cloud")
    let nds ← (← getArr j "nd_clouds").toList.mapM asCloud
    pure (jExcept jFrame (evaluateFrame cfg cols objs cloud nds))
  | "manager" =>
    let mcfg ← asCfg (← j.getObjVal? "mcfg")
    let fcfg ← asCfg (← j.getObjVal? "fcfg")
    let cols ← getNat j "cols"
    let objs ← asObjs j "objs"
    let cloud ← asCloud (← j.getObjVal? "cloud")
    let areas ← (← getArr j "areas").toList.mapM asArea
    pure (Json.mkObj [
      ("frame", jExcept jFrame (addFrameResult mcfg fcfg cols objs cloud areas)),
      ("crop", jExcept (jList jTags) (managerCrop mcfg cols objs cloud areas))])
  | o => throw s!"unknown op {o}"

end PEval.Driver.C12
