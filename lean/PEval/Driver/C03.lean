import PEval.Driver.Util
import PEval.Model.PassFail
/-! Driver handler for C03 (per-frame TP/FP/FN/TN accounting).

Request  `{"op":"frame", "gts":[GT…], "results":[{"est":n,"ec":b,"gt":GT|null,"lab":b,"thr":q|null,"score":q|null}…]}`
with `GT = {"id":n,"fp":b,"crit":b,"key":n}`; `gts` is the manager-filtered ground-truth list, `results`
the matcher's output. Response: the four lists, the filtered inputs, the counters, the per-result
status of the surviving results (for the branch histogram) and the decidable well-formedness flags. -/
open Lean

namespace PEval.Driver.C03
open PEval.PassFail

def getGT (j : Json) : Except String GT := do
  pure { id := ← getNat j "id", isFP := ← getBool j "fp", crit := ← getBool j "crit", eqKey := ← getNat j "key" }

def getRes (j : Json) : Except String Res := do
  let g ← match j.getObjVal? "gt" with
    | .ok .null => pure none
    | .ok v => (getGT v).map some
    | .error _ => pure none
  pure { est := ← getNat j "est", estCrit := ← getBool j "ec", gt := g, labelOk := ← getBool j "lab",
         thr := ← getOptRat j "thr", score := ← getOptRat j "score" }

def jPair (r : Res) : Json :=
  Json.arr #[jNat r.est, jOptNat (r.gt.map (·.id))]

def statusName (r : Res) : String :=
  match getStatus r with
  | (.TP, some .TP) => "TP"
  | (.FP, some .TN) => "TN"
  | (.FP, some .FP) => "FPFP"
  | (.FP, some .FN) => "FN"
  | (.FP, none) => "nogt"
  | _ => "other"

def handle : Json → Except String Json := fun j => do
  let op ← getStr j "op"
  match op with
  | "frame" =>
    let gts ← (← getArr j "gts").toList.mapM getGT
    let rs ← (← getArr j "results").toList.mapM getRes
    let f : Frame := { results := rs, gts := gts }
    let p := evaluateFrame f
    pure (Json.mkObj [
      ("tp", jList jPair p.tp), ("fp", jList jPair p.fp),
      ("tn", jList (fun g : GT => jNat g.id) p.tn), ("fn", jList (fun g : GT => jNat g.id) p.fn),
      ("results", jList jPair p.results), ("gts", jList (fun g : GT => jNat g.id) p.gts),
      ("ns", jNat (numSuccess p)), ("nf", jNat (numFail p)),
      ("status", jList (fun r => Json.str (statusName r)) p.results),
      ("matched_fp", jNat (matchedFP p.fp).length),
      ("wf", decide (MatcherWF f)), ("gts_distinct", decide (GtsDistinct gts))])
  | o => throw s!"unknown op {o}"

end PEval.Driver.C03
