import PEval.Driver.Util
import PEval.Driver.C01
import PEval.Driver.C04
import PEval.Model.PassFail
import PEval.Model.Pipeline
import PEval.Model.CriticalFrame
import PEval.Driver.C10
/-! Driver handler for C03 (per-frame TP/FP/FN/TN accounting).

Request  `{"op":"frame", "gts":[GT…], "results":[{"est":n,"ec":b,"gt":GT|null,"lab":b,"thr":q|null,"score":q|null}…]}`
with `GT = {"id":n,"fp":b,"crit":b,"key":n}`; `gts` is the manager-filtered ground-truth list, `results`
the matcher's output. Response: the four lists, the filtered inputs, the counters, the per-result
status of the surviving results (for the branch histogram) and the decidable well-formedness flags.

Request `{"op":"pipeline", …}`: one WHOLE frame for the composed model `Pipeline.detectFrame`
(matcher → critical filter + pass/fail → per-label metrics):
matcher configuration as in the C01 driver (`policy`, `mode`, `targets`, `thresholds`, `fp_validation`),
`"ests":[{"id":n,"label":s,"frame":s,"l":n,"c":q,"crit":b}…]`,
`"gts":[{"id":n,"label":s,"frame":s,"l":n,"crit":b,"key":n}…]` (the manager-filtered lists; `label` the
enum value the matcher reads, `l` the AP model's label number), `"vals":[[q…]…]` the real score-table
values, `"pairs":[{"i":n,"j":n,"pf":q|null,"s":{"center":q|null,"plane":…,"iou2d":…,"iou3d":…},"h":q}…]`
(per pair: plane distance, the four matching values, heading weight; positions in `ests`/`gts`),
`"pf_targets":[n…]`, `"pf_thrs":[q…]|null`, `"crit_targets":[n…]`, `"map_targets":[n…]`,
`"maps":[{"mode":s,"thrs":[q…]}…]`.
Response: `matched` (pairs by id), the four lists, filtered inputs, counters, `maps` (as the C04 driver
prints a `Map`), `wf` / `gts_distinct` / `ids_distinct` / `coherent` flags; or `{"err":kind}`.

Request `{"op":"critframe", …}`: one frame for `CritFrame.evaluateFrameWith` (the critical filter COMPUTED from
positions, frame ids, transforms and `filtering_params`, both call sites of `evaluate_frame`):
`"wiring":"code"|"f2"|"f2gt"`, `"transforms":null|[{"frame":s,"c":q,"s":q,"tx":q,"ty":q}…]`,
`"crit":{…}` (as the C10 driver's `params`), `"objs":[{"id":n,"label":s,"name":s,"attrs":[s…],"score":q,"pc":n|null,
"uuid":s|null,"frame":s,"pos":[q,q]|null,"key":n}…]`, `"gts":[id…]`, `"results":[{"est":id,"gt":id|null,"lab":b,
"thr":q|null,"score":q|null}…]`.  Response: the four lists, the kept lists, the counters, `sites_agree`; or `{"err":kind}`. -/
open Lean

namespace PEval.Driver.C03
open PEval.PassFail

def getGT (j : Json) : Except String GT := do
  pure { id := ← getNat j "id", isFP := ← getBool j "fp", crit := ← getBool j "crit", eqKey := ← getNat j "key" }

def getRes (j : Json) : Except String Res := do
  let g ← match j.getObjVal? "gt" with
    | .ok .null => pure none
    | .ok v => (getGT v).map some
    | .error _ => pure none
  pure { est := ← getNat j "est", estCrit := ← getBool j "ec", gt := g, labelOk := ← getBool j "lab",
         thr := ← getOptRat j "thr", score := ← getOptRat j "score" }

def jPair (r : Res) : Json :=
  Json.arr #[jNat r.est, jOptNat (r.gt.map (·.id))]

def statusName (r : Res) : String :=
  match getStatus r with
  | (.TP, some .TP) => "TP"
  | (.FP, some .TN) => "TN"
  | (.FP, some .FP) => "FPFP"
  | (.FP, some .FN) => "FN"
  | (.FP, none) => "nogt"
  | _ => "other"

/-! ### the composed model -/

structure PairData where
  i : Nat
  j : Nat
  pf : Option Rat
  center : Option Rat
  plane : Option Rat
  iou2d : Option Rat
  iou3d : Option Rat
  h : Rat

def getPair (j : Json) : Except String PairData := do
  let s ← j.getObjVal? "s"
  pure { i := ← getNat j "i", j := ← getNat j "j", pf := ← getOptRat j "pf",
         center := ← getOptRat s "center", plane := ← getOptRat s "plane",
         iou2d := ← getOptRat s "iou2d", iou3d := ← getOptRat s "iou3d", h := ← getRat j "h" }

def PairData.score (p : PairData) : PEval.AP.Mode → Option Rat
  | .centerDistance => p.center
  | .planeDistance => p.plane
  | .iou2d => p.iou2d
  | .iou3d => p.iou3d

def getMapCfg (j : Json) : Except String PEval.Pipeline.MapCfg := do
  pure { mode := ← PEval.Driver.C04.getMode j, thrs := ← getRatList j "thrs" }

def decodeFrame (j : Json) : Except String PEval.Pipeline.Frame := do
  let cfg ← PEval.Driver.C01.decodeCfg j
  let ests ← getArr j "ests"
  let gts ← getArr j "gts"
  let eObjs ← ests.toList.mapM fun e => do
    pure (PEval.Matching.Obj.mk (← getStr e "label") (← getStr e "frame"))
  let gObjs ← gts.toList.mapM fun g => do
    pure (PEval.Matching.Obj.mk (← getStr g "label") (← getStr g "frame"))
  let eAttr : Array PEval.Pipeline.EstAttr ← ests.mapM fun e => do
    pure { id := ← getNat e "id", label := ← getNat e "l", conf := ← getRat e "c", crit := ← getBool e "crit" }
  let gAttr : Array PEval.Pipeline.GtAttr ← gts.mapM fun g => do
    pure { id := ← getNat g "id", label := ← getNat g "l", crit := ← getBool g "crit", eqKey := ← getNat g "key" }
  let rows ← getArr j "vals"
  let vals : Array (Array Rat) ← rows.mapM fun r => do
    match r with
    | .arr a => a.mapM asRat
    | _ => throw "vals: expected rows"
  if vals.size != ests.size then throw "vals: wrong number of rows"
  for r in vals do
    if r.size != gts.size then throw "vals: wrong number of columns"
  let pairs ← (← getArr j "pairs").toList.mapM getPair
  let look (i k : Nat) : Option PairData := pairs.find? (fun p => p.i == i && p.j == k)
  let pfThrs ← match PEval.Driver.C01.optField j "pf_thrs" with
    | none => pure none
    | some _ => (getRatList j "pf_thrs").map some
  pure {
    cfg := cfg
    scene := { ests := eObjs, gts := gObjs, val := fun i k => ((vals[i]?).bind (·[k]?)).getD 0 }
    est := fun i => (eAttr[i]?).getD ⟨0, 0, 0, false⟩
    gt := fun k => (gAttr[k]?).getD ⟨0, 0, false, 0⟩
    pfTargets := ← getNatList j "pf_targets"
    pfThrs := pfThrs
    pfScore := fun i k => (look i k).bind (·.pf)
    apScore := fun m i k => (look i k).bind (·.score m)
    hw := fun i k => ((look i k).map (·.h)).getD 0
    critTargets := ← getNatList j "crit_targets"
    mapTargets := ← getNatList j "map_targets"
    maps := ← (← getArr j "maps").toList.mapM getMapCfg }

def jMatched (f : PEval.Pipeline.Frame) (r : PEval.Matching.Res) : Json :=
  Json.arr #[jNat (f.est r.1).id, jOptNat (r.2.map fun k => (f.gt k).id)]

/-! ### the critical filter on objects with positions -/

open PEval.CritFrame in
def getCObj (j : Json) : Except String CObj := do
  let pc ← match PEval.Driver.C10.optField j "pc" with
    | none => pure none
    | some v => do pure (some (← v.getInt?))
  let uuid ← match PEval.Driver.C10.optField j "uuid" with
    | none => pure none
    | some v => do pure (some (← v.getStr?))
  pure { id := ← getNat j "id", label := ← getStr j "label", name := ← getStr j "name",
         attributes := ← getStrList j "attrs", score := ← getRat j "score", pcNum := pc, uuid := uuid,
         is2d := false, frame := ← getStr j "frame", pos := ← PEval.Driver.C10.getPos j "pos",
         eqKey := ← getNat j "key" }

def getTransforms (j : Json) : Except String (Option PEval.CritFrame.Transforms) :=
  match PEval.Driver.C10.optField j "transforms" with
  | none => pure none
  | some v => do
    let a ← v.getArr?
    let l ← a.toList.mapM fun t => do
      pure ((← getStr t "frame"), (⟨← getRat t "c", ← getRat t "s", ← getRat t "tx", ← getRat t "ty"⟩ : PEval.Filter.Pose))
    pure (some l)

open PEval.CritFrame in
def decodeCritFrame (j : Json) : Except String PEval.CritFrame.Frame := do
  let objs ← (← getArr j "objs").toList.mapM getCObj
  let find (i : Nat) : Except String CObj :=
    match objs.find? (fun o => o.id == i) with
    | some o => pure o
    | none => throw s!"critframe: unknown object id {i}"
  let gts ← (← getNatList j "gts").mapM find
  let results ← (← getArr j "results").toList.mapM fun r => do
    let g ← match PEval.Driver.C10.optField r "gt" with
      | none => pure none
      | some v => do pure (some (← find (← v.getNat?)))
    pure ({ est := ← find (← getNat r "est"), gt := g, labelOk := ← getBool r "lab",
            thr := ← getOptRat r "thr", score := ← getOptRat r "score" } : CRes)
  pure { results := results, gts := gts, transforms := ← getTransforms j,
         critical := ← PEval.Driver.C10.getParams (← j.getObjVal? "crit") }

def handle : Json → Except String Json := fun j => do
  let op ← getStr j "op"
  match op with
  | "critframe" =>
    let f ← decodeCritFrame j
    let w ← match (← getStr j "wiring") with
      | "code" => pure PEval.CritFrame.wiring
      | "f2" => pure PEval.CritFrame.wiringF2
      | "f2gt" => pure PEval.CritFrame.wiringF2gt
      | x => throw s!"unknown wiring {x}"
    match PEval.CritFrame.evaluateFrameWith w f with
    | .error e => pure (Json.mkObj [("err", Json.str e)])
    | .ok o =>
      let p := o.pf
      let agree := f.results.all fun r =>
        match r.gt with
        | none => true
        | some g => !PEval.CritFrame.estFlag (w.resSite f) r ||
            (PEval.CritFrame.gtFlagRes (w.resSite f) g == PEval.CritFrame.gtFlagList (w.gtSite f) g)
      pure (Json.mkObj [
        ("tp", jList jPair p.tp), ("fp", jList jPair p.fp),
        ("tn", jList (fun g : GT => jNat g.id) p.tn), ("fn", jList (fun g : GT => jNat g.id) p.fn),
        ("results", jList jPair p.results), ("gts", jList (fun g : GT => jNat g.id) p.gts),
        ("kept_results", jList (fun r : PEval.CritFrame.CRes => Json.arr #[jNat r.est.id, jOptNat (r.gt.map (·.id))]) o.keptResults),
        ("kept_gts", jList (fun g : PEval.CritFrame.CObj => jNat g.id) o.keptGts),
        ("ns", jNat (numSuccess p)), ("nf", jNat (numFail p)), ("sites_agree", agree)])
  | "pipeline" =>
    let f ← decodeFrame j
    let flags : List (String × Json) := [
      ("gts_distinct", decide (GtsDistinct (PEval.Pipeline.pfGts f))),
      ("ids_distinct", decide (((List.range f.scene.gts.length).map (fun k => (f.gt k).id)).Nodup)),
      ("coherent", PEval.Pipeline.labelsCoherent f)]
    match PEval.Pipeline.detectFrame f with
    | .error e => pure (Json.mkObj ([("err", Json.str e)] ++ flags))
    | .ok o =>
      let p := o.pf
      pure (Json.mkObj ([
        ("matched", jList (jMatched f) o.matched),
        ("tp", jList jPair p.tp), ("fp", jList jPair p.fp),
        ("tn", jList (fun g : GT => jNat g.id) p.tn), ("fn", jList (fun g : GT => jNat g.id) p.fn),
        ("results", jList jPair p.results), ("gts", jList (fun g : GT => jNat g.id) p.gts),
        ("ns", jNat (numSuccess p)), ("nf", jNat (numFail p)),
        ("maps", jList PEval.Driver.C04.jMapOut o.maps),
        ("wf", decide (MatcherWF (PEval.Pipeline.pfFrame f o.matched)))] ++ flags))
  | "frame" =>
    let gts ← (← getArr j "gts").toList.mapM getGT
    let rs ← (← getArr j "results").toList.mapM getRes
    let f : Frame := { results := rs, gts := gts }
    let p := evaluateFrame f
    pure (Json.mkObj [
      ("tp", jList jPair p.tp), ("fp", jList jPair p.fp),
      ("tn", jList (fun g : GT => jNat g.id) p.tn), ("fn", jList (fun g : GT => jNat g.id) p.fn),
      ("results", jList jPair p.results), ("gts", jList (fun g : GT => jNat g.id) p.gts),
      ("ns", jNat (numSuccess p)), ("nf", jNat (numFail p)),
      ("status", jList (fun r => Json.str (statusName r)) p.results),
      ("matched_fp", jNat (matchedFP p.fp).length),
      ("wf", decide (MatcherWF f)), ("gts_distinct", decide (GtsDistinct gts))])
  | o => throw s!"unknown op {o}"

end PEval.Driver.C03
