import PEval.Driver.Util
import PEval.Model.Label
/-! Driver handler for C14 (label conversion). -/
open Lean

namespace PEval.Driver.C14
open PEval.Label

def handle : Json → Except String Json := fun j => do
  let op ← getStr j "op"
  let pre ← getStr j "prefix"
  let merge ← getBool j "merge"
  let task ← getStr j "task"
  match tableFor pre merge task with
  | .error k => pure (Json.mkObj [("err", k)])
  | .ok (t, family) =>
    match op with
    | "convert" => do
      let s ← getStr j "s"
      pure (Json.mkObj [("label", convertLabel t s), ("name_label", convertName t s)])
    | "targets" => do
      let targets : Option (List String) ←
        match j.getObjVal? "targets" with
        | .ok .null => pure none
        | .ok _ => (getStrList j "targets").map some
        | .error _ => pure none
      pure (Json.mkObj [("labels", jList Json.str (setTargetLists targets t family))])
    | o => throw s!"unknown op {o}"

end PEval.Driver.C14
