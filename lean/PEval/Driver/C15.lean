import PEval.Driver.Util
import PEval.Model.Threshold
import PEval.Model.Config
/-!
Driver handler for C15 (threshold normalisation, configuration validation).

`PyVal` on the wire: `null` = `None`, JSON booleans = `bool`, arrays = `list`, `{"q": "p/q"}` = a
number, `{"s": "..."}` = a `str`, `{"x": "tag"}` = any other object (`PyVal.other`).  Dictionaries travel as arrays of `[key, value]` pairs.
-/
open Lean

namespace PEval.Driver.C15
open PEval.Threshold PEval.Config

partial def decodeVal (j : Json) : Except String PyVal :=
  match j with
  | .null => pure .none
  | .bool b => pure (.bool b)
  | .arr a => do
    let xs ← a.toList.mapM decodeVal
    pure (.list xs)
  | .obj _ =>
    match j.getObjVal? "q" with
    | .ok r => do
      let q ← asRat r
      pure (.num q)
    | .error _ =>
      match j.getObjValAs? String "s" with
      | .ok s => pure (.str s)
      | .error _ => do
        let t ← j.getObjValAs? String "x"
        pure (.other t)
  | _ => throw "bad PyVal"

partial def encodeVal : PyVal → Json
  | .none => Json.null
  | .bool b => Json.bool b
  | .num q => Json.mkObj [("q", jRat q)]
  | .str s => Json.mkObj [("s", Json.str s)]
  | .other t => Json.mkObj [("x", Json.str t)]
  | .list xs => Json.arr (xs.map encodeVal).toArray

def decodeDict (j : Json) : Except String Dict := do
  let a ← j.getArr?
  a.toList.mapM fun p => do
    let kv ← p.getArr?
    match kv.toList with
    | [k, v] => do
      let ks ← k.getStr?
      let vv ← decodeVal v
      pure (ks, vv)
    | _ => throw "bad pair"

def encodeDict (d : Dict) : Json :=
  Json.arr (d.map fun (k, v) => Json.arr #[Json.str k, encodeVal v]).toArray

def resVal : Except String PyVal → Json
  | .ok v => Json.mkObj [("ok", encodeVal v)]
  | .error e => Json.mkObj [("err", e)]

def resAccepted : Except String Accepted → Json
  | .ok a => Json.mkObj [("ok", Json.mkObj [
      ("task", a.task), ("n", jNat a.nLabels), ("filtering", encodeDict a.filtering),
      ("metrics", match a.metrics with | none => Json.null | some m => encodeDict m)])]
  | .error e => Json.mkObj [("err", e)]

def resFrame : Except String (Nat × Dict) → Json
  | .ok (n, f) => Json.mkObj [("ok", Json.mkObj [("n", jNat n), ("filtering", encodeDict f)])]
  | .error e => Json.mkObj [("err", e)]

def handle : Json → Except String Json := fun j => do
  let op ← getStr j "op"
  match op with
  | "set_thresholds" => do
    let v ← decodeVal (← j.getObjVal? "v")
    let n ← getNat j "n"
    let nest ← getBool j "nest"
    pure (resVal (setThresholds v n nest))
  | "check_thresholds" => do
    let v ← decodeVal (← j.getObjVal? "v")
    let n ← getNat j "n"
    pure (resVal (checkThresholds v n))
  | "check_nested_thresholds" => do
    let v ← decodeVal (← j.getObjVal? "v")
    let n ← getNat j "n"
    pure (resVal (checkNestedThresholds v n))
  | "perception_config" => do
    let d ← decodeDict (← j.getObjVal? "d")
    let frames ← getStrList j "frames"
    pure (resAccepted (perceptionConfig d frames))
  | "config_targets" => do
    -- audit round 2: the converted target-label list of a perception configuration (label member names)
    let d ← decodeDict (← j.getObjVal? "d")
    pure (match configTargetLabels d with
      | .ok L => Json.mkObj [("ok", jList Json.str L)]
      | .error e => Json.mkObj [("err", e)])
  | "sensing_config" => do
    let d ← decodeDict (← j.getObjVal? "d")
    let frames ← getStrList j "frames"
    pure (resAccepted (sensingConfig d frames))
  | "critical_config" => do
    let a ← decodeDict (← j.getObjVal? "args")
    let is2d ← getBool j "is2d"
    let nAll ← getNat j "nAll"
    pure (resFrame (criticalFilterConfig is2d nAll a))
  | "passfail_config" => do
    let a ← decodeDict (← j.getObjVal? "args")
    let nAll ← getNat j "nAll"
    pure (resFrame (passFailConfig nAll a))
  | o => throw s!"unknown op {o}"

end PEval.Driver.C15
