import PEval.Driver.Util
import PEval.Model.Filter
/-! Driver handler for C10 (object filtering).

Requests: `{"op": "filter_objects", "params": {…}, "objects": [obj…]}` and
`{"op": "filter_results", "params": {…}, "results": [{"id", "est": obj, "gt": obj|null}…]}`.
Response: `{"kept": [ids in order]}` or `{"err": kind}`, plus `"near"` (ids of the objects one of whose
float-sensitive comparisons has a non-zero margin below the request's `"eps"`), `"flags"`
(`[id, is_fp, is_unknown]` per object) and `"trace"` (the model branches each object exercised). -/
open Lean

namespace PEval.Driver.C10
open PEval.Filter

def optField (j : Json) (k : String) : Option Json :=
  match j.getObjVal? k with
  | .ok .null => none
  | .ok v => some v
  | .error _ => none

def optList {α} (j : Json) (k : String) (f : Json → Except String α) : Except String (Option (List α)) :=
  match optField j k with
  | none => pure none
  | some v => do
    let a ← v.getArr?
    let l ← a.toList.mapM f
    pure (some l)

def getPos (j : Json) (k : String) : Except String (Option Pos) :=
  match optField j k with
  | none => pure none
  | some v => do
    let a ← v.getArr?
    match a.toList with
    | x :: y :: _ => do pure (some ⟨← asRat x, ← asRat y⟩)
    | _ => throw s!"bad position {k}"

def getObj (j : Json) : Except String Obj := do
  let attrs ← getStrList j "attrs"
  let pc ← match optField j "pc" with
    | none => pure none
    | some v => do pure (some (← v.getInt?))
  let uuid ← match optField j "uuid" with
    | none => pure none
    | some v => do pure (some (← v.getStr?))
  pure { id := ← getNat j "id", label := ← getStr j "label", name := ← getStr j "name", attributes := attrs,
         score := ← getRat j "score", pcNum := pc, uuid := uuid, is2d := ← getBool j "is2d",
         frame := ← getStr j "frame", pos := ← getPos j "pos", egoPos := ← getPos j "ego" }

def getParams (j : Json) : Except String Params := do
  pure { isGt := ← getBool j "is_gt",
         targets := ← optList j "targets" (·.getStr?),
         ignoreAttrs := ← optList j "ignore" (·.getStr?),
         maxX := ← optList j "max_x" asRat, maxY := ← optList j "max_y" asRat,
         maxDist := ← optList j "max_dist" asRat, minDist := ← optList j "min_dist" asRat,
         conf := ← optList j "conf" asRat,
         minPts := ← optList j "min_pts" (·.getInt?),
         uuids := ← optList j "uuids" (·.getStr?),
         hasTransforms := ← getBool j "has_transforms" }

def flagsJson (os : List Obj) : Json :=
  jList (fun o => Json.arr #[jNat o.id, Json.bool (isFP o.label), Json.bool (isUnknown o.label)]) os

/-! ### which branches of the model an object exercised (evidence only)

`trace` calls the model's own stage functions in the model's order and names the branch each took;
its last entry is checked against `isTarget` (`TRACE-MISMATCH` would show in the histogram). -/

def thrTag {α} (P : Params) (o : Obj) (l : List α) : String :=
  match getLabelThreshold P.targets o.label l with
  | .ok none => if P.targets.isNone then "threshold:None(target_labels None)" else "threshold:None(label not in targets)"
  | .ok (some _) => "threshold:list entry"
  | .error e => s!"threshold:raise {e}"

def boundTag (P : Params) (u : Bool) (o : Obj) (unk : Option Rat) (l : List Rat) : String :=
  if u then (match unk with | some _ => "bound:relaxed value" | none => "bound:nan(mean of [])") else thrTag P o l

def stageTags (name : String) (P : Params) (u : Bool) (o : Obj) (ok : Bool) (l? : Option (List Rat))
    (unk : List Rat → Option Rat) (r : Except Err Bool) : List String :=
  match ok, l? with
  | _, none => [s!"{name}:not configured"]
  | false, some _ => [s!"{name}:short-circuited"]
  | true, some l =>
    [match r with | .ok b => s!"{name}:{b}" | .error e => s!"{name}:raise {e}", s!"{name}:{boundTag P u o (unk l) l}"]

def resTag (r : Except Err Bool) : String :=
  match r with | .ok b => s!"{b}" | .error e => s!"raise {e}"

def trace (P : Params) (o : Obj) : List String :=
  if isFP o.label then ["fp label:True"] else
  let u := useUnknown P o
  let ok0 := stageLabel P u o
  let ok1 := stageAttr P u o ok0
  let t := [s!"relaxed:{u}", s!"role:{if P.isGt then "gt" else "est"}",
    (match P.targets with
      | none => "label:target_labels None" | some [] => "label:target_labels []"
      | some _ => if u then "label:skipped(relaxed)" else s!"label:{ok0}"),
    (match P.ignoreAttrs with
      | none => "attr:not configured"
      | some ks => if u then "attr:skipped(relaxed)" else s!"attr:{!containsAny o ks}")]
  let r1 := stage P u o ok1 P.conf (fun _ => some 0) (fun t => decide (t < o.score))
  let t := t ++ stageTags "conf" P u o ok1 P.conf (fun _ => some 0) r1
  match r1 with
  | .error _ => t ++ ["final:raise"]
  | .ok ok2 =>
  let rp := position P o
  let t := t ++ [match rp with
    | .ok (some _) => if o.frame == "base_link" then "position:own (base_link)" else "position:through the transform"
    | .ok none => if o.pos.isNone then "position:unavailable (no position)" else "position:unavailable (no transforms)"
    | .error e => s!"position:raise {e}"]
  match rp with
  | .error _ => t ++ ["final:raise"]
  | .ok none => t ++ [s!"uuid:{if ok2 && P.isGt then (match P.uuids with | none => "not configured" | some _ => toString (stageUuid P o ok2)) else "skipped"}",
      s!"final:{resTag (isTarget P o)}"]
  | .ok (some p) =>
    let r2 := stage P u o ok2 P.maxX mean (fun t => decide (absR p.x < t))
    let t := t ++ stageTags "max_x" P u o ok2 P.maxX mean r2
    match r2 with
    | .error _ => t ++ ["final:raise"]
    | .ok ok3 =>
    let r3 := stage P u o ok3 P.maxY mean (fun t => decide (absR p.y < t))
    let t := t ++ stageTags "max_y" P u o ok3 P.maxY mean r3
    match r3 with
    | .error _ => t ++ ["final:raise"]
    | .ok ok4 =>
    let r4 := stage P u o ok4 P.maxDist mean (fun t => distLt p.d2 t)
    let t := t ++ stageTags "max_dist" P u o ok4 P.maxDist mean r4
    match r4 with
    | .error _ => t ++ ["final:raise"]
    | .ok ok5 =>
    let r5 := stage P u o ok5 P.minDist mean (fun t => distGt p.d2 t)
    let t := t ++ stageTags "min_dist" P u o ok5 P.minDist mean r5
    match r5 with
    | .error _ => t ++ ["final:raise"]
    | .ok ok6 =>
    let r6 := stagePts P u o ok6
    let t := t ++ [match ok6 && P.isGt, P.minPts with
      | _, none => "points:not configured"
      | false, some _ => "points:skipped"
      | true, some l => s!"points:{resTag r6} {if o.is2d then "(2-D object)" else if o.pcNum.isNone then "(pointcloud_num None)" else thrTag P o l}"]
    match r6 with
    | .error _ => t ++ ["final:raise"]
    | .ok ok7 =>
    t ++ [s!"uuid:{if ok7 && P.isGt then (match P.uuids with | none => "not configured" | some _ => toString (stageUuid P o ok7)) else "skipped"}",
      s!"final:{resTag (isTarget P o)}",
      if isTarget P o == .ok (stageUuid P o ok7) then "trace:consistent" else "TRACE-MISMATCH"]

def traceJson (ps : List (Params × Obj)) : Json :=
  jList (fun (x : Params × Obj) => Json.arr #[jNat x.2.id, jList Json.str (trace x.1 x.2)]) ps

/-- ids of the objects with a non-zero numeric margin below `eps` -/
def nearIds (eps : Rat) (ps : List (Params × Obj)) : List Nat :=
  (ps.filter (fun x => match minNonzero (gaps x.1 x.2) with | some g => decide (g < eps) | none => false)).map (·.2.id)

def respond (r : Except Err (List Nat)) (eps : Rat) (ps : List (Params × Obj)) (extra : List (String × Json) := []) : Json :=
  let base := match r with
    | .ok ids => [("kept", jList jNat ids)]
    | .error e => [("err", Json.str e)]
  Json.mkObj (base ++ [("near", jList jNat (nearIds eps ps)), ("flags", flagsJson (ps.map (·.2))),
    ("trace", traceJson ps)] ++ extra)

def resTrace (P : Params) (r : Res) : String :=
  match isTarget (estParams P) r.est with
  | .error _ => "result:estimate raises"
  | .ok e =>
    match e, r.gt with
    | true, some _ => s!"result:estimate passes, ground truth {resTag (isTarget (gtParams P) (r.gt.getD r.est))}"
    | false, some _ => "result:estimate fails (ground truth not looked at)"
    | e, none => s!"result:no ground truth, estimate {e}, target_uuids truthy {truthy P.uuids}"

def handle : Json → Except String Json := fun j => do
  let op ← getStr j "op"
  let P ← getParams (← j.getObjVal? "params")
  let eps ← getRat j "eps"
  match op with
  | "filter_objects" =>
    let os ← (← getArr j "objects").toList.mapM getObj
    let r := (filterObjects P os).map (·.map (·.id))
    pure (respond r eps (os.map (fun o => (P, o))))
  | "filter_results" =>
    let rs ← (← getArr j "results").toList.mapM (fun x => do
      let est ← getObj (← x.getObjVal? "est")
      let gt ← match optField x "gt" with
        | none => pure none
        | some g => do pure (some (← getObj g))
      pure ({ id := ← getNat x "id", est := est, gt := gt } : Res))
    let r := (filterResults P rs).map (·.map (·.id))
    let ps := rs.flatMap (fun r => (estParams P, r.est) :: (match r.gt with | some g => [(gtParams P, g)] | none => []))
    pure (respond r eps ps [("result_trace", jList (fun r => Json.str (resTrace P r)) rs)])
  | o => throw s!"unknown op {o}"

end PEval.Driver.C10
