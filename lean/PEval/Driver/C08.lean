import PEval.Driver.Util
import PEval.Driver.C04
import PEval.Model.AP
import PEval.Model.APExt
/-! Driver handler for C08 (threshold monotonicity): the TP/FP/TN/FN split under one threshold
list; AP / mAP requests are served by the C04 handler (same model). -/
open Lean

namespace PEval.Driver.C08
open PEval.AP PEval.Driver.C04

def jPair (k1 k2 : String) : Except PEval.Err (List Nat × List Nat) → Json
  | .ok (a, b) => Json.mkObj [(k1, jList jNat a), (k2, jList jNat b)]
  | .error e => Json.mkObj [("err", e)]

def handle : Json → Except String Json := fun j => do
  let op ← getStr j "op"
  match op with
  | "posneg" =>
    let m ← getMode j
    let targets ← getNatList j "targets"
    let ethrs ← match j.getObjVal? "thrs" with
      | .ok .null => pure none
      | .ok (.arr a) => (a.toList.mapM asEThr).map some
      | _ => throw "thrs must be null or a list"
    let rs ← getResList j "results"
    let gts ← (← getArr j "gts").toList.mapM asGt
    -- all thresholds finite: the functions of `Model/AP.lean`; with `inf` among them: their `EThr` versions
    match ethrs with
    | none =>
      pure (Json.mkObj [("pos", jPair "tp" "fp" (getPositive m targets none rs)),
                        ("neg", jPair "tn" "fn" (getNegative m targets none gts rs))])
    | some es =>
      match allFin es with
      | some thrs =>
        pure (Json.mkObj [("pos", jPair "tp" "fp" (getPositive m targets (some thrs) rs)),
                          ("neg", jPair "tn" "fn" (getNegative m targets (some thrs) gts rs))])
      | none =>
        pure (Json.mkObj [("pos", jPair "tp" "fp" (getPositiveE m targets (some es) rs)),
                          ("neg", jPair "tn" "fn" (getNegativeE m targets (some es) gts rs))])
  | _ => PEval.Driver.C04.handle j

end PEval.Driver.C08
