import PEval.Driver.Util
import PEval.Driver.C04
import PEval.Model.AP
/-! Driver handler for C08 (threshold monotonicity): the TP/FP/TN/FN split under one threshold
list; AP / mAP requests are served by the C04 handler (same model). -/
open Lean

namespace PEval.Driver.C08
open PEval.AP PEval.Driver.C04

def jPair (k1 k2 : String) : Except PEval.Err (List Nat × List Nat) → Json
  | .ok (a, b) => Json.mkObj [(k1, jList jNat a), (k2, jList jNat b)]
  | .error e => Json.mkObj [("err", e)]

def handle : Json → Except String Json := fun j => do
  let op ← getStr j "op"
  match op with
  | "posneg" =>
    let m ← getMode j
    let targets ← getNatList j "targets"
    let thrs ← match j.getObjVal? "thrs" with
      | .ok .null => pure none
      | .ok (.arr a) => (a.toList.mapM asRat).map some
      | _ => throw "thrs must be null or a list"
    let rs ← getResList j "results"
    let gts ← (← getArr j "gts").toList.mapM asGt
    pure (Json.mkObj [("pos", jPair "tp" "fp" (getPositive m targets thrs rs)),
                      ("neg", jPair "tn" "fn" (getNegative m targets thrs gts rs))])
  | _ => PEval.Driver.C04.handle j

end PEval.Driver.C08
