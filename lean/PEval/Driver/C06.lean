import PEval.Driver.Util
import PEval.Model.Geometry
/-! Driver handler for C06 (matching scores: center / plane distance, IoU 2-D / 3-D, ROIs). -/
open Lean

namespace PEval.Driver.C06
open PEval.Geometry

def getRats (j : Json) (k : String) (n : Nat) : Except String (List Rat) := do
  let l ← getRatList j k
  if l.length == n then pure l else throw s!"{k}: expected {n} rationals"

def getBox (j : Json) (k : String) : Except String Box := do
  let b ← j.getObjVal? k
  let c ← getRats b "c" 3
  let r ← getRats b "rot" 2
  let s ← getRats b "size" 3
  pure { center := ⟨c.getD 0 0, c.getD 1 0, c.getD 2 0⟩, rot := ⟨r.getD 0 0, r.getD 1 0⟩,
         w := s.getD 0 0, l := s.getD 1 0, h := s.getD 2 0 }

def getRoi (j : Json) (k : String) : Except String Roi := do
  let a ← getArr j k
  let l ← a.toList.mapM (fun x => x.getInt?)
  match l with
  | [x, y, w, h] => pure ⟨x, y, w, h⟩
  | _ => throw s!"{k}: expected 4 integers"

def jV2 (p : V2) : Json := Json.arr #[jRat p.x, jRat p.y]

def jExcept : Except Err Rat → Json
  | .ok r => jRat r
  | .error e => Json.mkObj [("err", e)]

def handle : Json → Except String Json := fun j => do
  let op ← getStr j "op"
  match op with
  | "box" =>
    let est ← getBox j "est"
    let gt ← getBox j "gt"
    let fe := footprint est
    let fg := footprint gt
    let I := interArea fe fg
    let I' := interArea fg fe
    let sk := sortedKeys gt
    let ij := nearestTwo fg
    pure (Json.mkObj [
      ("cd2", jRat (centerDist2 est gt)),
      ("cdbev2", jRat (centerDistBev2 est gt)),
      ("area_est", jRat (areaBev est)),
      ("area_gt", jRat (areaBev gt)),
      ("inter", jRat I),
      ("inter_swapped", jRat I'),
      ("inter_sym", jRat (interSym fe fg)),
      ("hinter", jRat (boxHeightInter est gt)),
      ("iou2d", jExcept (iouCode I (areaBev est) (areaBev gt))),
      ("iou3d", jExcept (iou3dCode I (areaBev est) (areaBev gt) est.h gt.h (boxHeightInter est gt))),
      ("pd2", jRat (planeDist2 est gt)),
      ("sorted_keys", jList jRat sk),
      ("nearest", Json.arr #[jNat ij.1, jNat ij.2]),
      ("fp_est", jList jV2 fe),
      ("fp_gt", jList jV2 fg)])
  | "roi" =>
    let a ← getRoi j "est"
    let b ← getRoi j "gt"
    pure (Json.mkObj [
      ("cd2", jInt (roiCenterDist2 a b)),
      ("center_est", Json.arr #[jInt a.center.1, jInt a.center.2]),
      ("center_gt", Json.arr #[jInt b.center.1, jInt b.center.2]),
      ("area_est", jInt a.area),
      ("area_gt", jInt b.area),
      ("inter", jRat (roiInter a b)),
      ("inter_clip", jRat (interArea a.corners b.corners)),
      ("iou2d", jExcept (roiIoUCode a b))])
  | o => throw s!"unknown op {o}"

end PEval.Driver.C06
