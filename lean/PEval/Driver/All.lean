import PEval.Driver.Util
import PEval.Driver.C20
/-! Dispatch of driver requests to the per-property handlers. -/
open Lean

namespace PEval.Driver

def dispatch (j : Json) : Json :=
  match j.getObjValAs? String "prop" with
  | .ok "ping" => Json.mkObj [("ok", true)]
  | .ok "C20" => wrap C20.handle j
  | .ok p => errJson s!"unknown prop {p}"
  | .error e => errJson e

end PEval.Driver
