import PEval.Driver.Util
import PEval.Model.Classification
/-!
Driver handler for C11 (classification pairing and scores).

request  `{"op":"case","fpv":b,"uf":b,"ests":[obj…],"gts":[obj…],
           "buckets":[{"frames":[[[estId, gtId|null]…]…],"num_gt":n}…]}`
with `obj = {"id":n,"uuid":s|null,"tl":b,"label":s,"frame":s}`.
response `{"err":kind}` or `{"pairs":[[estId, gtId|null]…], "whole":acc, "buckets":[acc…], "summary":[s,s,s,s]}`
where `whole` is the accuracy of the model's own pairing against `len(gts)` and the buckets are
scored from the result lists the harness hands in (ids refer to `ests` / `gts`).

request  `{"op":"buckets","ests":[obj…],"gts":[obj…],"buckets":[…as above…]}` (a scene: the objects of all frames under
scene-wide ids, every bucket = `[[]] ++` the frames' result lists) → `{"buckets":[acc…], "summary":[s,s,s,s]}`.
-/
open Lean

namespace PEval.Driver.C11
open PEval.Classification

def getObj (j : Json) : Except String Obj := do
  let id ← getNat j "id"
  let uuid ← match j.getObjVal? "uuid" with
    | .ok (.str s) => pure (some s)
    | _ => pure none
  let tl ← getBool j "tl"
  let label ← getStr j "label"
  let frame ← getStr j "frame"
  pure { id := id, uuid := uuid, label := { tl := tl, name := label }, frame := frame }

def getObjs (j : Json) (k : String) : Except String (List Obj) := do
  (← getArr j k).toList.mapM getObj

def jScore : Score → Json
  | .val r => jRat r
  | .inf => Json.str "inf"
  | .nan => Json.str "nan"

def jAcc (a : Acc) : Json :=
  Json.mkObj [("num_gt", jNat a.numGT), ("num", jNat a.num), ("tp", jNat a.tp), ("fp", jNat a.fp),
    ("accuracy", jScore a.accuracy), ("precision", jScore a.precision), ("recall", jScore a.recall),
    ("f1", jScore a.f1)]

def jRes (r : Res) : Json :=
  Json.arr #[jNat r.est.id, match r.gt with | none => Json.null | some g => jNat g.id]

def findObj (os : List Obj) (i : Nat) : Except String Obj :=
  match os.find? (fun o => o.id == i) with
  | some o => .ok o
  | none => .error s!"unknown object id {i}"

def getRes (ests gts : List Obj) (j : Json) : Except String Res := do
  match j with
  | .arr #[a, b] =>
    let e ← findObj ests (← a.getNat?)
    match b with
    | .null => pure { est := e, gt := none }
    | _ => pure { est := e, gt := some (← findObj gts (← b.getNat?)) }
  | _ => throw "result must be [estId, gtId|null]"

def getBucket (ests gts : List Obj) (j : Json) : Except String Acc := do
  let frames ← (← getArr j "frames").toList.mapM fun f => do
    match f with
    | .arr xs => xs.toList.mapM (getRes ests gts)
    | _ => throw "frame must be a list"
  let n ← getNat j "num_gt"
  pure (accuracyNested frames n)

def handle : Json → Except String Json := fun j => do
  let op ← getStr j "op"
  match op with
  | "case" =>
    let fpv ← getBool j "fpv"
    let uf ← getBool j "uf"
    let ests ← getObjs j "ests"
    let gts ← getObjs j "gts"
    match objectResults fpv uf ests gts with
    | .error k => pure (Json.mkObj [("err", k)])
    | .ok rs =>
      let buckets ← (← getArr j "buckets").toList.mapM (getBucket ests gts)
      let (a, p, r, f) := summarize buckets
      pure (Json.mkObj [("pairs", jList jRes rs), ("whole", jAcc (accuracy rs gts.length)),
        ("buckets", jList jAcc buckets), ("summary", Json.arr #[jScore a, jScore p, jScore r, jScore f])])
  | "buckets" =>
    -- scoring only (a scene: the frames' buckets pooled); ids refer to `ests` / `gts`, which are not paired here
    let ests ← getObjs j "ests"
    let gts ← getObjs j "gts"
    let buckets ← (← getArr j "buckets").toList.mapM (getBucket ests gts)
    let (a, p, r, f) := summarize buckets
    pure (Json.mkObj [("buckets", jList jAcc buckets), ("summary", Json.arr #[jScore a, jScore p, jScore r, jScore f])])
  | o => throw s!"unknown op {o}"

end PEval.Driver.C11
