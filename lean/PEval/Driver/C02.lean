import PEval.Driver.C01
/-! Driver handler for C02: the same model function as C01 (`Matching.getObjectResults`); dispatch is
by property id, so C02 has its own entry. -/
open Lean

namespace PEval.Driver.C02

def handle : Json → Except String Json := PEval.Driver.C01.handle

end PEval.Driver.C02
