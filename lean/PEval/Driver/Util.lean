import Lean.Data.Json
/-!
JSON helpers shared by the per-property driver handlers (`PEval/Driver/Cxx.lean`).
Rationals travel as strings "p/q" (or "p"); `null` stands for Python `None` / NaN / inf
where the protocol of the property says so.
-/
open Lean

namespace PEval.Driver

def parseRat (s : String) : Option Rat :=
  match s.splitOn "/" with
  | [n] => n.toInt?.map (fun i => (i : Rat))
  | [n, d] => do
      let a ← n.toInt?
      let b ← d.toNat?
      if b == 0 then none else pure ((a : Rat) / (b : Rat))
  | _ => none

def ratToString (r : Rat) : String :=
  if r.den == 1 then toString r.num else s!"{r.num}/{r.den}"

def jRat (r : Rat) : Json := Json.str (ratToString r)

def jOptRat : Option Rat → Json
  | none => Json.null
  | some r => jRat r

def getStr (j : Json) (k : String) : Except String String := j.getObjValAs? String k
def getNat (j : Json) (k : String) : Except String Nat := j.getObjValAs? Nat k
def getInt (j : Json) (k : String) : Except String Int := j.getObjValAs? Int k
def getBool (j : Json) (k : String) : Except String Bool := j.getObjValAs? Bool k
def getArr (j : Json) (k : String) : Except String (Array Json) := j.getObjValAs? (Array Json) k

def asRat (j : Json) : Except String Rat :=
  match j with
  | .str s => match parseRat s with
    | some r => .ok r
    | none => .error s!"bad rational {s}"
  | .num n => .ok ((n.mantissa : Rat) / ((10 : Rat) ^ n.exponent))
  | _ => .error "expected rational"

def asOptRat (j : Json) : Except String (Option Rat) :=
  match j with
  | .null => .ok none
  | _ => (asRat j).map some

def getRat (j : Json) (k : String) : Except String Rat := do
  asRat (← j.getObjVal? k)

def getOptRat (j : Json) (k : String) : Except String (Option Rat) :=
  match j.getObjVal? k with
  | .ok v => asOptRat v
  | .error _ => .ok none

def getRatList (j : Json) (k : String) : Except String (List Rat) := do
  let a ← getArr j k
  a.toList.mapM asRat

def getNatList (j : Json) (k : String) : Except String (List Nat) := do
  let a ← getArr j k
  a.toList.mapM (fun x => x.getNat?)

def getStrList (j : Json) (k : String) : Except String (List String) := do
  let a ← getArr j k
  a.toList.mapM (fun x => x.getStr?)

def jList {α} (f : α → Json) (l : List α) : Json := Json.arr (l.map f).toArray
def jNat (n : Nat) : Json := Json.num (JsonNumber.fromNat n)
def jInt (n : Int) : Json := Json.num (JsonNumber.fromInt n)
def jOptNat : Option Nat → Json
  | none => Json.null
  | some n => jNat n

def errJson (msg : String) : Json := Json.mkObj [("ok", false), ("driver_error", msg)]

/-- run a handler in `Except String`, turning a protocol error into an error response -/
def wrap (f : Json → Except String Json) (j : Json) : Json :=
  match f j with
  | .ok r => r
  | .error e => errJson e

end PEval.Driver
