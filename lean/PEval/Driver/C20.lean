import PEval.Driver.Util
import PEval.Model.Enums
/-! Driver handler for C20 (enum parsers). -/
open Lean

namespace PEval.Driver.C20
open PEval.Enums

def resJson : Res → Json
  | .ok m => Json.mkObj [("member", m)]
  | .error k => Json.mkObj [("err", k)]

def getArg (j : Json) (k : String) : Except String Arg := do
  let a ← j.getObjVal? k
  match a.getObjValAs? String "str" with
  | .ok s => pure (.str s)
  | .error _ => do
    let m ← a.getObjValAs? String "member"
    pure (.member m)

def handle : Json → Except String Json := fun j => do
  let op ← getStr j "op"
  match op with
  | "parse" =>
    let parser ← getStr j "parser"
    let s ← getStr j "s"
    match parser with
    | "task" => pure (resJson (taskFromValue s))
    | "set_task" => pure (match setTask s with
        | some m => Json.mkObj [("member", m)]
        | none => Json.mkObj [("none", true)])
    | "frame" => pure (resJson (frameFromValue s))
    | "visibility" => pure (resJson (visibilityFromValue s))
    | "sensor" => pure (resJson (sensorFromValue s))
    | "shape_type" => pure (resJson (shapeTypeFromValue s))
    | "policy" => pure (resJson (policyFromStr s))
    | p => throw s!"unknown parser {p}"
  | "shape_arg" => do
    let a ← getArg j "arg"
    pure (resJson (shapeTypeOfArg a))
  | "transform_key" => do
    let a ← getArg j "src"
    let b ← getArg j "dst"
    pure (match transformKey a b with
      | .ok (x, y) => Json.mkObj [("src", x), ("dst", y)]
      | .error k => Json.mkObj [("err", k)])
  | "task_list" => do
    let items ← (← getArr j "items").toList.mapM fun x => x.getStr?
    pure (Json.mkObj [("members", Json.arr ((setTaskLists items).map Json.str).toArray)])
  | "task_dict" => do
    -- keys in insertion order; the item of key number i is represented by i
    let keys ← (← getArr j "keys").toList.mapM fun x => x.getStr?
    let kv := keys.zipIdx
    pure (Json.mkObj [("items", Json.arr ((setTaskDict kv).map fun e =>
      Json.arr #[Json.str e.1, Json.num (JsonNumber.fromNat e.2)]).toArray)])
  | "frame_ids" => do
    let a ← j.getObjVal? "arg"
    let arg ← match a with
      | .str s => pure (FrameIdArg.one s)
      | .arr xs => do pure (FrameIdArg.many (← xs.toList.mapM fun x => x.getStr?))
      | _ => throw "arg must be a string or a list of strings"
    pure (match frameIds arg with
      | .ok ms => Json.mkObj [("members", Json.arr (ms.map Json.str).toArray)]
      | .error k => Json.mkObj [("err", k)])
  | "check_task" => do
    let support ← (← getArr j "support").toList.mapM fun x => x.getStr?
    let s ← getStr j "s"
    pure (match checkTask support s with
      | .ok (some m) => Json.mkObj [("member", m)]
      | .ok none => Json.mkObj [("none", true)]
      | .error k => Json.mkObj [("err", k)])
  | o => throw s!"unknown op {o}"

end PEval.Driver.C20
