import PEval.Driver.Util
import PEval.Model.Enums
/-! Driver handler for C20 (enum parsers). -/
open Lean

namespace PEval.Driver.C20
open PEval.Enums

def resJson : Res → Json
  | .ok m => Json.mkObj [("member", m)]
  | .error k => Json.mkObj [("err", k)]

def getArg (j : Json) (k : String) : Except String Arg := do
  let a ← j.getObjVal? k
  match a.getObjValAs? String "str" with
  | .ok s => pure (.str s)
  | .error _ => do
    let m ← a.getObjValAs? String "member"
    pure (.member m)

/-! ## value level: the response says WHAT came back (member of which enum / str / None) -/

def retJson : PyRet → Json
  | .member e n => Json.mkObj [("kind", "member"), ("enum", e), ("name", n)]
  | .str s => Json.mkObj [("kind", "str"), ("s", s)]
  | .none => Json.mkObj [("kind", "none")]

def pyResJson : PyRes → Json
  | .ok v => retJson v
  | .error k => Json.mkObj [("err", k)]

/-- `{"str": s}` | `{"member": name, "enum": class}` | `{"none": true}` -/
def getVal (j : Json) (k : String) : Except String PyRet := do
  let a ← j.getObjVal? k
  match a.getObjValAs? String "str" with
  | .ok s => pure (.str s)
  | .error _ =>
    match a.getObjValAs? String "member" with
    | .ok m => do
      let e ← a.getObjValAs? String "enum"
      pure (.member e m)
    | .error _ => pure .none

def pairJson : Except String (PyRet × PyRet) → Json
  | .ok (x, y) => Json.mkObj [("src", retJson x), ("dst", retJson y)]
  | .error k => Json.mkObj [("err", k)]

/-- the value-level ops; `"variant"` selects a defective variant of the model (self-test of the correspondence) -/
def handleV : Json → Except String Json := fun j => do
  let op ← getStr j "op"
  let variant := (j.getObjValAs? String "variant").toOption.getD ""
  match op with
  | "parse_v" =>
    let parser ← getStr j "parser"
    let s ← getStr j "s"
    match parser, variant with
    | "task", _ => pure (pyResJson (taskFromValueV s))
    | "set_task", _ => pure (retJson (setTaskV s))
    | "frame", _ => pure (pyResJson (frameFromValueV s))
    | "visibility", "F12" => pure (pyResJson (visibilityFromValue_F12 s))
    | "visibility", _ => pure (pyResJson (visibilityFromValueV s))
    | "sensor", "F12" => pure (pyResJson (sensorFromValue_F12 s))
    | "sensor", _ => pure (pyResJson (sensorFromValueV s))
    | "shape_type", "F12" => pure (pyResJson (shapeTypeFromValue_F12 s))
    | "shape_type", _ => pure (pyResJson (shapeTypeFromValueV s))
    | "policy", _ => pure (pyResJson (policyFromStrV s))
    | p, _ => throw s!"unknown parser {p}"
  | "shape_init" => do
    let a ← getVal j "arg"
    let fp ← (← j.getObjVal? "footprint").getBool?
    pure (pyResJson (match variant with
      | "G" => shapeInitV_G a fp
      | "F12" => shapeInitV_F12 a fp
      | _ => shapeInitV a fp))
  | "transform_key_v" => do
    let a ← getVal j "src"
    let b ← getVal j "dst"
    pure (pairJson (match variant with
      | "B" => transformKeyV_B a b
      | "J" => transformKeyV_J a b
      | _ => transformKeyV a b))
  | "frame_from_task" => do
    let a ← getVal j "arg"
    pure (pyResJson (match variant with
      | "noconv" => frameFromTaskV_noconv a
      | _ => frameFromTaskV a))
  | "task_list_v" => do
    let items ← (← getArr j "items").toList.mapM fun x => x.getStr?
    pure (Json.mkObj [("members", Json.arr ((setTaskListsV items).map retJson).toArray)])
  | "task_dict_v" => do
    let keys ← (← getArr j "keys").toList.mapM fun x => x.getStr?
    pure (Json.mkObj [("items", Json.arr ((setTaskDictV keys.zipIdx).map fun e =>
      Json.arr #[retJson e.1, Json.num (JsonNumber.fromNat e.2)]).toArray)])
  | "frame_ids_v" => do
    let a ← j.getObjVal? "arg"
    let arg ← match a with
      | .str s => pure (FrameIdArg.one s)
      | .arr xs => do pure (FrameIdArg.many (← xs.toList.mapM fun x => x.getStr?))
      | _ => throw "arg must be a string or a list of strings"
    pure (match frameIdsV arg with
      | .ok ms => Json.mkObj [("members", Json.arr (ms.map retJson).toArray)]
      | .error k => Json.mkObj [("err", k)])
  | "check_task_v" => do
    let support ← (← getArr j "support").toList.mapM fun x => x.getStr?
    let s ← getStr j "s"
    pure (pyResJson (checkTaskV support s))
  | o => throw s!"unknown op {o}"

/-! ## string level (the ops of the first round) -/

def handle : Json → Except String Json := fun j => do
  let op ← getStr j "op"
  match op with
  | "parse" =>
    let parser ← getStr j "parser"
    let s ← getStr j "s"
    match parser with
    | "task" => pure (resJson (taskFromValue s))
    | "set_task" => pure (match setTask s with
        | some m => Json.mkObj [("member", m)]
        | none => Json.mkObj [("none", true)])
    | "frame" => pure (resJson (frameFromValue s))
    | "visibility" => pure (resJson (visibilityFromValue s))
    | "sensor" => pure (resJson (sensorFromValue s))
    | "shape_type" => pure (resJson (shapeTypeFromValue s))
    | "policy" => pure (resJson (policyFromStr s))
    | p => throw s!"unknown parser {p}"
  | "shape_arg" => do
    let a ← getArg j "arg"
    pure (resJson (shapeTypeOfArg a))
  | "transform_key" => do
    let a ← getArg j "src"
    let b ← getArg j "dst"
    pure (match transformKey a b with
      | .ok (x, y) => Json.mkObj [("src", x), ("dst", y)]
      | .error k => Json.mkObj [("err", k)])
  | "task_list" => do
    let items ← (← getArr j "items").toList.mapM fun x => x.getStr?
    pure (Json.mkObj [("members", Json.arr ((setTaskLists items).map Json.str).toArray)])
  | "task_dict" => do
    -- keys in insertion order; the item of key number i is represented by i
    let keys ← (← getArr j "keys").toList.mapM fun x => x.getStr?
    let kv := keys.zipIdx
    pure (Json.mkObj [("items", Json.arr ((setTaskDict kv).map fun e =>
      Json.arr #[Json.str e.1, Json.num (JsonNumber.fromNat e.2)]).toArray)])
  | "frame_ids" => do
    let a ← j.getObjVal? "arg"
    let arg ← match a with
      | .str s => pure (FrameIdArg.one s)
      | .arr xs => do pure (FrameIdArg.many (← xs.toList.mapM fun x => x.getStr?))
      | _ => throw "arg must be a string or a list of strings"
    pure (match frameIds arg with
      | .ok ms => Json.mkObj [("members", Json.arr (ms.map Json.str).toArray)]
      | .error k => Json.mkObj [("err", k)])
  | "check_task" => do
    let support ← (← getArr j "support").toList.mapM fun x => x.getStr?
    let s ← getStr j "s"
    pure (match checkTask support s with
      | .ok (some m) => Json.mkObj [("member", m)]
      | .ok none => Json.mkObj [("none", true)]
      | .error k => Json.mkObj [("err", k)])
  | _ => handleV j

end PEval.Driver.C20
