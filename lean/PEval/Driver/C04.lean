import PEval.Driver.Util
import PEval.Model.AP
import PEval.Model.APExt
/-! Driver handler for C04 (AP / APH / mAP / mAPH). The decoders are reused by the C08 handler. -/
open Lean

namespace PEval.Driver.C04
open PEval.AP

def getMode (j : Json) : Except String Mode := do
  match (← getStr j "mode") with
  | "center" => pure .centerDistance
  | "plane" => pure .planeDistance
  | "iou2d" => pure .iou2d
  | "iou3d" => pure .iou3d
  | m => throw s!"unknown mode {m}"

def asPolicy (s : String) : Except String Policy :=
  match s with
  | "DEFAULT" => pure .default
  | "ALLOW_UNKNOWN" => pure .allowUnknown
  | "ALLOW_ANY" => pure .allowAny
  | p => throw s!"unknown policy {p}"

def asGt (j : Json) : Except String Gt := do
  pure { id := (← getNat j "id"), label := (← getNat j "l") }

def asRes (j : Json) : Except String Res := do
  let g ← match j.getObjVal? "g" with
    | .ok .null => pure none
    | .ok v => (asGt v).map some
    | .error _ => pure none
  let nm := match j.getObjValAs? Bool "nm" with
    | .ok b => b
    | .error _ => false
  let s ← getOptRat j "s"
  let pol ← match j.getObjValAs? String "p" with
    | .ok p => asPolicy p
    | .error _ => pure Policy.default
  pure { id := (← getNat j "id"), conf := (← getRat j "c"), label := (← getNat j "l"), gt := g,
         score := if nm then .noMethod else .val s, hw := (← getRat j "h"), policy := pol }

def getResList (j : Json) (k : String) : Except String (List Res) := do
  (← getArr j k).toList.mapM asRes

def jApOut (a : ApOut) : Json :=
  Json.mkObj [("ap", jOptRat a.ap), ("tp_list", jList jRat a.tpList), ("fp_list", jList jRat a.fpList)]

def jExcept {α} (f : α → Json) : Except PEval.Err α → Json
  | .ok a => f a
  | .error e => Json.mkObj [("err", e)]

def jMapOut (o : MapOut) : Json :=
  Json.mkObj [("aps", jList jApOut o.aps), ("aphs", jList jApOut o.aphs),
              ("map", jOptRat o.map), ("maph", jOptRat o.maph)]

def asFrame (j : Json) : Except String (List Res × List Label) := do
  pure ((← getResList j "results"), (← getNatList j "gts"))

/-- a threshold: a rational, or the string "inf" for `float("inf")` -/
def asEThr (j : Json) : Except String EThr :=
  match j with
  | .str "inf" => pure .posInf
  | _ => (asRat j).map .fin

def getEThrList (j : Json) (k : String) : Except String (List EThr) := do
  (← getArr j k).toList.mapM asEThr

/-- all thresholds finite: the list of numbers (then the functions of `Model/AP.lean` are run) -/
def allFin : List EThr → Option (List Rat)
  | [] => some []
  | .fin t :: rest => (allFin rest).map (t :: ·)
  | .posInf :: _ => none

def asResNested (j : Json) : Except String (List (List Res)) := do
  match j with
  | .arr frs => frs.toList.mapM (fun fr => do
      match fr with
      | .arr a => a.toList.mapM asRes
      | _ => throw "results must be a list of lists")
  | _ => throw "results must be a list of lists"

/-- one dict entry `[label, value]` -/
def asEntry {α} (f : Json → Except String α) (j : Json) : Except String (Label × α) := do
  match j with
  | .arr #[k, v] => pure ((← k.getNat?), (← f v))
  | _ => throw "dict entry must be [key, value]"

def handle : Json → Except String Json := fun j => do
  let op ← getStr j "op"
  match op with
  | "ap" =>
    let m ← getMode j
    let targets ← getNatList j "targets"
    let ethrs ← getEThrList j "thrs"
    let G ← getNat j "G"
    let nested ← asResNested (← j.getObjVal? "results")
    match allFin ethrs with
    | some thrs =>
      pure (Json.mkObj [("ap", jExcept jApOut (apOfNested .ap m targets thrs G nested)),
                        ("aph", jExcept jApOut (apOfNested .aph m targets thrs G nested))])
    | none =>
      pure (Json.mkObj [("ap", jExcept jApOut (apOfNestedE .ap m targets ethrs G nested)),
                        ("aph", jExcept jApOut (apOfNestedE .aph m targets ethrs G nested))])
  | "map" =>
    let m ← getMode j
    let is2d ← getBool j "is2d"
    let targets ← getNatList j "targets"
    let ethrs ← getEThrList j "thrs"
    let scene ← getBool j "scene"
    let frames ← (← getArr j "frames").toList.mapM asFrame
    -- frame level: the label list of the critical-object filter that keys the dicts (default: the targets)
    let crit ← match j.getObjVal? "crit" with
      | .ok (.arr a) => a.toList.mapM (fun x => x.getNat?)
      | _ => pure targets
    if scene then
      match allFin ethrs with
      | some thrs => pure (jExcept jMapOut (sceneMap m is2d targets thrs frames))
      | none => pure (jExcept jMapOut (sceneMapE m is2d targets ethrs frames))
    else
      match frames with
      | [fr] =>
        match allFin ethrs, decide (crit = targets) with
        | some thrs, true => pure (jExcept jMapOut (frameMap m is2d targets thrs fr.1 fr.2))
        | _, _ => pure (jExcept jMapOut (frameMapE m is2d crit targets ethrs fr.1 fr.2))
      | _ => throw "frame-level map needs exactly one frame"
  | "mapdict" =>
    -- `Map` on explicitly given dicts: [[label, [[result, ...], ...]], ...] and [[label, count], ...] in insertion order
    let m ← getMode j
    let is2d ← getBool j "is2d"
    let targets ← getNatList j "targets"
    let ethrs ← getEThrList j "thrs"
    let buckets ← (← getArr j "buckets").toList.mapM (asEntry asResNested)
    let nums ← (← getArr j "nums").toList.mapM (asEntry (fun x => x.getNat?))
    match allFin ethrs with
    | some thrs => pure (jExcept jMapOut (mapOf m is2d targets thrs buckets nums))
    | none => pure (jExcept jMapOut (mapOfE m is2d targets ethrs buckets nums))
  | "weights" =>
    -- AP of an abstract ranking given directly by its kinds: "t:<w>" | "f" | "i"
    let G ← getNat j "G"
    let ks ← (← getStrList j "kinds").mapM (fun s =>
      if s == "f" then pure Kind.fp
      else if s == "i" then pure Kind.ignored
      else match s.splitOn ":" with
        | ["t", w] => match parseRat w with
          | some r => pure (Kind.tp r)
          | none => throw s!"bad weight {w}"
        | _ => throw s!"bad kind {s}")
    pure (jApOut (apOfKinds G ks))
  | o => throw s!"unknown op {o}"

end PEval.Driver.C04
