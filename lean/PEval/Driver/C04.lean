import PEval.Driver.Util
import PEval.Model.AP
/-! Driver handler for C04 (AP / APH / mAP / mAPH). The decoders are reused by the C08 handler. -/
open Lean

namespace PEval.Driver.C04
open PEval.AP

def getMode (j : Json) : Except String Mode := do
  match (← getStr j "mode") with
  | "center" => pure .centerDistance
  | "plane" => pure .planeDistance
  | "iou2d" => pure .iou2d
  | "iou3d" => pure .iou3d
  | m => throw s!"unknown mode {m}"

def asPolicy (s : String) : Except String Policy :=
  match s with
  | "DEFAULT" => pure .default
  | "ALLOW_UNKNOWN" => pure .allowUnknown
  | "ALLOW_ANY" => pure .allowAny
  | p => throw s!"unknown policy {p}"

def asGt (j : Json) : Except String Gt := do
  pure { id := (← getNat j "id"), label := (← getNat j "l") }

def asRes (j : Json) : Except String Res := do
  let g ← match j.getObjVal? "g" with
    | .ok .null => pure none
    | .ok v => (asGt v).map some
    | .error _ => pure none
  let nm := match j.getObjValAs? Bool "nm" with
    | .ok b => b
    | .error _ => false
  let s ← getOptRat j "s"
  let pol ← match j.getObjValAs? String "p" with
    | .ok p => asPolicy p
    | .error _ => pure Policy.default
  pure { id := (← getNat j "id"), conf := (← getRat j "c"), label := (← getNat j "l"), gt := g,
         score := if nm then .noMethod else .val s, hw := (← getRat j "h"), policy := pol }

def getResList (j : Json) (k : String) : Except String (List Res) := do
  (← getArr j k).toList.mapM asRes

def jApOut (a : ApOut) : Json :=
  Json.mkObj [("ap", jOptRat a.ap), ("tp_list", jList jRat a.tpList), ("fp_list", jList jRat a.fpList)]

def jExcept {α} (f : α → Json) : Except PEval.Err α → Json
  | .ok a => f a
  | .error e => Json.mkObj [("err", e)]

def jMapOut (o : MapOut) : Json :=
  Json.mkObj [("aps", jList jApOut o.aps), ("aphs", jList jApOut o.aphs),
              ("map", jOptRat o.map), ("maph", jOptRat o.maph)]

def asFrame (j : Json) : Except String (List Res × List Label) := do
  pure ((← getResList j "results"), (← getNatList j "gts"))

def handle : Json → Except String Json := fun j => do
  let op ← getStr j "op"
  match op with
  | "ap" =>
    let m ← getMode j
    let targets ← getNatList j "targets"
    let thrs ← getRatList j "thrs"
    let G ← getNat j "G"
    let nested ← (← getArr j "results").toList.mapM (fun fr => do
      match fr with
      | .arr a => a.toList.mapM asRes
      | _ => throw "results must be a list of lists")
    pure (Json.mkObj [("ap", jExcept jApOut (apOfNested .ap m targets thrs G nested)),
                      ("aph", jExcept jApOut (apOfNested .aph m targets thrs G nested))])
  | "map" =>
    let m ← getMode j
    let is2d ← getBool j "is2d"
    let targets ← getNatList j "targets"
    let thrs ← getRatList j "thrs"
    let scene ← getBool j "scene"
    let frames ← (← getArr j "frames").toList.mapM asFrame
    if scene then
      pure (jExcept jMapOut (sceneMap m is2d targets thrs frames))
    else
      match frames with
      | [fr] => pure (jExcept jMapOut (frameMap m is2d targets thrs fr.1 fr.2))
      | _ => throw "frame-level map needs exactly one frame"
  | "weights" =>
    -- AP of an abstract ranking given directly by its kinds: "t:<w>" | "f" | "i"
    let G ← getNat j "G"
    let ks ← (← getStrList j "kinds").mapM (fun s =>
      if s == "f" then pure Kind.fp
      else if s == "i" then pure Kind.ignored
      else match s.splitOn ":" with
        | ["t", w] => match parseRat w with
          | some r => pure (Kind.tp r)
          | none => throw s!"bad weight {w}"
        | _ => throw s!"bad kind {s}")
    pure (jApOut (apOfKinds G ks))
  | o => throw s!"unknown op {o}"

end PEval.Driver.C04
