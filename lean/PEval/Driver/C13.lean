import PEval.Driver.Util
import PEval.Model.Manager
import PEval.Model.ManagerTracking
/-!
Driver handler for C13 (manager state machine).  One request = one whole operation sequence; the
model is stepped over it with `PEval.Manager.run`.

Request `{"op":"run","nlabels":n,"ncols":k,"dataset":[{"time","name","objects"}],
          "dets":[{"frame":name,"e":i,"c":j,"results":[[{"id","gt","conf","tp":[…]}…]…],"numgt":[…]}],
          "tracks":[{"frame","e","c","prev":index into dets | null,"t":[rat|null…]}],
          "ops":[{"o":"add","frame":index into dataset,"e":i,"c":j} | {"o":"scene"} | {"o":"lookup","t","thr"}]}`.
`dets`/`tracks` are the tables of the abstract single-frame evaluation (`Sem.evalDet`, `Sem.evalTrack`)
as measured by the harness on FRESH real managers.

Request `{"op":"trun", "labels":[n…], "tcfgs":[{"mode":m,"maximize":b,"thr":[rat…]}…], "dataset":…, "ops":…,
          "dets":[{"frame","e","c","results","numgt","tb":[[tres…]…]}]}` with
`tres = {"e":n,"el":n,"g":n|null,"gl":n,"gfp":b,"v":[rat per matching mode],"ok":b,"w":rat}`:
the extended machine `PEval.ManagerTracking.trun` (tracking scores computed by the CLEAR model from the
stored buckets).  Answers: per `add` the frame's tracking scores, per `scene` the scene's.
-/
open Lean

namespace PEval.Driver.C13
open PEval.Manager PEval.Driver

abbrev TrackVal := Except String (List (Option Rat))

structure DetEntry where
  frame : Nat
  e : Nat
  c : Nat
  det : Det

structure TrackEntry where
  frame : Nat
  e : Nat
  c : Nat
  prev : Option Det
  t : List (Option Rat)

def decRes (j : Json) : Except String Res := do
  let id ← getNat j "id"
  let gt : Option Nat := match j.getObjValAs? Nat "gt" with
    | .ok g => some g
    | .error _ => none
  let conf ← getRat j "conf"
  let tp ← getRatList j "tp"
  pure { id := id, gt := gt, conf := conf, tp := tp }

def decDet (j : Json) : Except String Det := do
  let rs ← getArr j "results"
  let results ← rs.toList.mapM (fun b => do
    let a ← b.getArr?
    a.toList.mapM decRes)
  let numGt ← getNatList j "numgt"
  pure { results := results, numGt := numGt }

def decFrame (j : Json) : Except String Frame := do
  pure { time := ← getInt j "time", name := ← getNat j "name", objects := ← getNatList j "objects" }

def decOptRatList (j : Json) (k : String) : Except String (List (Option Rat)) := do
  let a ← getArr j k
  a.toList.mapM asOptRat

def mkSem (nl : Nat) (dets : List DetEntry) (tracks : List TrackEntry) : Sem Nat Nat TrackVal where
  nLabels := nl
  evalDet := fun g e c =>
    match dets.find? (fun d => d.frame == g.name && d.e == e && d.c == c) with
    | some d => d.det
    | none => { results := [], numGt := [] }
  evalTrack := fun g e c prev =>
    match tracks.find? (fun t => t.frame == g.name && t.e == e && t.c == c && decide (t.prev = prev)) with
    | some t => .ok t.t
    | none => .error "no reference tracking evaluation for this predecessor"

def decOp (ds : List Frame) (j : Json) : Except String (Op Nat Nat) := do
  let o ← getStr j "o"
  match o with
  | "add" =>
    let k ← getNat j "frame"
    match ds[k]? with
    | some g => pure (.add g (← getNat j "e") (← getNat j "c"))
    | none => throw "frame index out of range"
  | "scene" => pure .scene
  | "lookup" => pure (.lookup (← getInt j "t") (← getInt j "thr"))
  | x => throw s!"unknown operation {x}"

def jFrame (f : Frame) : Json :=
  Json.mkObj [("time", jInt f.time), ("name", jNat f.name), ("objects", jList jNat f.objects)]

/-- per column: per label AP, and their mean over the valid ones -/
def scoreCols (nl ncols : Nat) (score : Nat → Nat → Option Rat) : Json × Json :=
  let cols := (List.range ncols).map (fun c => (List.range nl).map (fun l => score c l))
  (jList (jList jOptRat) cols, jList (fun col => jOptRat (meanValid col)) cols)

def jOut (nl ncols : Nat) : Out TrackVal → Json
  | .added r =>
    let (aps, maps) := scoreCols nl ncols (fun c l => r.det.score (apOf c) l)
    Json.mkObj (([("o", Json.str "add"), ("frame_name", jNat r.frameName), ("ap", aps), ("map", maps),
      ("numgt", jList jNat ((List.range nl).map r.det.gt)),
      ("ids", jList (jList (fun x => jNat x.id)) ((List.range nl).map r.det.bucket))] : List (String × Json)) ++
      (match r.track with
       | .ok t => [("track", jList jOptRat t)]
       | .error e => [("track_err", Json.str e)]))
  | .scene sc =>
    let (aps, maps) := scoreCols nl ncols (fun c l => sc.score (apOf c) l)
    Json.mkObj [("o", "scene"), ("ap", aps), ("map", maps),
      ("numgt", jList jNat ((List.range nl).map sc.gt)), ("total_gt", jNat sc.totalGt),
      ("n_results", jList jNat ((List.range nl).map (fun l => (sc.pooled l).length))),
      ("used", jList jNat sc.usedFrame)]
  | .frame f =>
    match f with
    | .ok (some fr) => Json.mkObj [("o", "lookup"), ("frame", jNat fr.name)]
    | .ok none => Json.mkObj [("o", "lookup"), ("frame", Json.null)]
    | .error e => Json.mkObj [("o", "lookup"), ("err", Json.str e)]


/-! ### the extended machine (tracking scores concrete) -/

section Tracking
open PEval.ManagerTracking

structure TDetEntry where
  frame : Nat
  e : Nat
  c : Nat
  det : Det
  tb : List (List TRes)

def decTRes (j : Json) : Except String TRes := do
  let e ← getNat j "e"
  let el ← getNat j "el"
  let gj ← j.getObjVal? "g"
  let gt : Option Clear.Gt ← match gj with
    | .null => pure none
    | _ => do
      let gid ← gj.getNat?
      pure (some ⟨gid, ← getNat j "gl", ← getBool j "gfp"⟩)
  pure ⟨e, el, gt, ← getRatList j "v", ← getBool j "ok", ← getRat j "w"⟩

def decTB (j : Json) : Except String (List (List TRes)) := do
  let bs ← getArr j "tb"
  bs.toList.mapM (fun b => do
    let a ← b.getArr?
    a.toList.mapM decTRes)

def decTCfg (j : Json) : Except String TCfg := do
  pure ⟨← getNat j "mode", ← getBool j "maximize", ← getRatList j "thr"⟩

def mkTSem (labels : List Nat) (cfgs : List TCfg) (dets : List TDetEntry) : TSem Nat Nat where
  labels := labels
  cfgs := cfgs
  evalDet := fun g e c =>
    match dets.find? (fun d => d.frame == g.name && d.e == e && d.c == c) with
    | some d => d.det
    | none => { results := [], numGt := [] }
  evalTB := fun g e c =>
    match dets.find? (fun d => d.frame == g.name && d.e == e && d.c == c) with
    | some d => d.tb
    | none => []

def jClear (o : Clear.Out) : Json :=
  Json.mkObj [("predict_num", jNat o.predictNum), ("g", jNat o.g), ("tp", jRat o.acc.tp),
    ("fp", jNat o.acc.fp), ("sw", jNat o.acc.sw), ("score", jRat o.acc.score),
    ("mota", jOptRat o.mota), ("motp", jOptRat o.motp)]

def jTScore (r : TScore) : Json :=
  Json.mkObj [("clears", jList jClear r.1), ("mota", jOptRat r.2.1), ("motp", jOptRat r.2.2.1),
    ("sw", jNat r.2.2.2)]

def jTOut (nl : Nat) : TOut → Json
  | .added r =>
    Json.mkObj [("o", "add"), ("frame_name", jNat r.frameName),
      ("numgt", jList jNat ((List.range nl).map r.det.gt)),
      ("tids", jList (jList (fun (x : TRes) => jNat x.est)) ((List.range nl).map r.bucket)),
      ("track", jList jTScore r.track)]
  | .scene _ acc t =>
    Json.mkObj [("o", "scene"), ("numgt", jList jNat ((List.range nl).map acc.gt)),
      ("n_results", jList jNat ((List.range nl).map (fun l => ((acc.hist l).flatten).length))),
      ("n_frames", jList jNat ((List.range nl).map (fun l => (acc.hist l).length))),
      ("used", jList jNat acc.usedFrame), ("track", jList jTScore t)]
  | .frame f =>
    match f with
    | .ok (some fr) => Json.mkObj [("o", "lookup"), ("frame", jNat fr.name)]
    | .ok none => Json.mkObj [("o", "lookup"), ("frame", Json.null)]
    | .error e => Json.mkObj [("o", "lookup"), ("err", Json.str e)]

end Tracking

def handle : Json → Except String Json := fun j => do
  let op ← getStr j "op"
  match op with
  | "run" =>
    let nl ← getNat j "nlabels"
    let ncols ← getNat j "ncols"
    let ds ← (← getArr j "dataset").toList.mapM decFrame
    let dets ← (← getArr j "dets").toList.mapM (fun d => do
      pure ({ frame := ← getNat d "frame", e := ← getNat d "e", c := ← getNat d "c", det := ← decDet d } : DetEntry))
    let tracks ← (← getArr j "tracks").toList.mapM (fun t => do
      let prev : Option Det ← match t.getObjValAs? Nat "prev" with
        | .ok i => match dets[i]? with
          | some d => pure (some d.det)
          | none => throw "prev index out of range"
        | .error _ => pure none
      pure ({ frame := ← getNat t "frame", e := ← getNat t "e", c := ← getNat t "c", prev := prev,
              t := ← decOptRatList t "t" } : TrackEntry))
    let ops ← (← getArr j "ops").toList.mapM (decOp ds)
    let sem := mkSem nl dets tracks
    let (s, outs) := run sem (fresh ds) ops
    pure (Json.mkObj [("outs", jList (jOut nl ncols) outs), ("dataset", jList jFrame s.dataset),
      ("n_frame_results", jNat s.frameResults.length)])
  | "trun" =>
    let labels ← getNatList j "labels"
    let cfgs ← (← getArr j "tcfgs").toList.mapM decTCfg
    let ds ← (← getArr j "dataset").toList.mapM decFrame
    let dets ← (← getArr j "dets").toList.mapM (fun d => do
      pure ({ frame := ← getNat d "frame", e := ← getNat d "e", c := ← getNat d "c", det := ← decDet d,
              tb := ← decTB d } : TDetEntry))
    let ops ← (← getArr j "ops").toList.mapM (decOp ds)
    let sem := mkTSem labels cfgs dets
    let (s, outs) := PEval.ManagerTracking.trun sem (PEval.ManagerTracking.tfresh ds) ops
    pure (Json.mkObj [("outs", jList (jTOut labels.length) outs), ("dataset", jList jFrame s.dataset),
      ("n_frame_results", jNat s.frameResults.length)])
  | o => throw s!"unknown op {o}"

end PEval.Driver.C13
