import PEval.Driver.Util
import PEval.Model.Clear
/-! Driver handler for C05 (CLEAR tracking metrics).

Requests
* `{"op":"clear","maximize":b,"thresholds":[[label,"t"],…],"g":n,"hist":[[res,…],…]}`
* `{"op":"score","maximize":b,"labels":[{"label":n,"thr":"t","g":n,"hist":[[res…]…]},…]}`
* `{"op":"enum","maximize":b,"thresholds":…,"alphabet":[res…],"frames":[[idx…]…],"prefix":[frame idx…],"depth":n}`
* `{"op":"scene","maximize":b,"targets":[[label,"t"],…],"frames":[[res…]…],"gts":[[n,…],…]}`
with `res = {"e":n,"el":n,"g":n|null,"gl":n,"gfp":b,"v":"p/q","ok":b,"w":"p/q"}`.
-/
open Lean

namespace PEval.Driver.C05
open PEval.Clear

def getRes (j : Json) : Except String Res := do
  let e ← getNat j "e"
  let el ← getNat j "el"
  let gj ← j.getObjVal? "g"
  let gt : Option Gt ← match gj with
    | .null => pure none
    | _ => do
      let gid ← gj.getNat?
      let gl ← getNat j "gl"
      let gfp ← getBool j "gfp"
      pure (some ⟨gid, gl, gfp⟩)
  let v ← getRat j "v"
  let ok ← getBool j "ok"
  let w ← getRat j "w"
  pure ⟨e, el, gt, v, ok, w⟩

def getFrame (j : Json) : Except String (List Res) := do
  let a ← j.getArr?
  a.toList.mapM getRes

def getHist (j : Json) (k : String) : Except String (List (List Res)) := do
  let a ← getArr j k
  a.toList.mapM getFrame

def getPair (j : Json) : Except String (Nat × Rat) := do
  let a ← j.getArr?
  match a.toList with
  | [l, t] => do pure (← l.getNat?, ← asRat t)
  | _ => throw "expected [label, threshold]"

def getPairs (j : Json) (k : String) : Except String (List (Nat × Rat)) := do
  let a ← getArr j k
  a.toList.mapM getPair

def outJson (o : Out) : Json :=
  Json.mkObj [("predict_num", jNat o.predictNum), ("g", jNat o.g), ("tp", jRat o.acc.tp),
    ("fp", jNat o.acc.fp), ("sw", jNat o.acc.sw), ("score", jRat o.acc.score),
    ("mota", jOptRat o.mota), ("motp", jOptRat o.motp)]

def scoreJson (r : List Out × (Option Rat × Option Rat × Nat)) : Json :=
  Json.mkObj [("clears", jList outJson r.1), ("mota", jOptRat r.2.1), ("motp", jOptRat r.2.2.1),
    ("sw", jNat r.2.2.2)]

def getLabelInput (j : Json) : Except String LabelInput := do
  pure ⟨← getNat j "label", ← getRat j "thr", ← getNat j "g", ← getHist j "hist"⟩

/-- natural ground-truth number of an enumerated history: results with a ground truth after the initial frame -/
def naturalG (hist : List (List Res)) : Nat :=
  (hist.drop 1).foldl (fun n f => n + (f.filter (fun r => r.gt.isSome)).length) 0

def compactJson (o : Out) : Json :=
  Json.arr #[jRat o.acc.tp, jNat o.acc.fp, jNat o.acc.sw, jRat o.acc.score, jOptRat o.mota, jOptRat o.motp, jNat o.predictNum]

/-- the bundle order of the harness: the prefix, then recursively every one-frame extension, `fuel` more frames -/
def enumRec (cfg : Cfg) (frames : List (List Res)) : Nat → List (List Res) → List Json
  | 0, hist => [compactJson (evalClear cfg (naturalG hist) hist)]
  | n + 1, hist =>
    compactJson (evalClear cfg (naturalG hist) hist) ::
      frames.flatMap (fun f => enumRec cfg frames n (hist ++ [f]))

def handle : Json → Except String Json := fun j => do
  let op ← getStr j "op"
  match op with
  | "clear" =>
    let cfg : Cfg := ⟨← getBool j "maximize", ← getPairs j "thresholds"⟩
    let g ← getNat j "g"
    let hist ← getHist j "hist"
    pure (outJson (evalClear cfg g hist))
  | "score" =>
    let mx ← getBool j "maximize"
    let ls ← (← getArr j "labels").toList.mapM getLabelInput
    pure (scoreJson (trackingScore mx ls))
  | "scene" =>
    let mx ← getBool j "maximize"
    let targets ← getPairs j "targets"
    let frames ← getHist j "frames"
    let gts ← (← getArr j "gts").toList.mapM (fun row => do
      let a ← row.getArr?
      a.toList.mapM (fun x => x.getNat?))
    let scene := trackingScore mx (sceneInputs targets frames gts)
    let per := frameScores mx targets [] frames gts
    pure (Json.mkObj [("scene", scoreJson scene), ("frames", jList scoreJson per)])
  | "enum" =>
    let cfg : Cfg := ⟨← getBool j "maximize", ← getPairs j "thresholds"⟩
    let alphabet ← (← getArr j "alphabet").mapM getRes
    let frameIdx ← (← getArr j "frames").toList.mapM (fun row => do
      let a ← row.getArr?
      a.toList.mapM (fun x => x.getNat?))
    let mk (idx : List Nat) : Except String (List Res) := idx.mapM (fun i =>
      match alphabet[i]? with
      | some r => pure r
      | none => throw "alphabet index out of range")
    let frames ← frameIdx.mapM mk
    let prefixIdx ← getNatList j "prefix"
    let pre ← prefixIdx.mapM (fun i => match frames[i]? with
      | some f => pure f
      | none => throw "frame index out of range")
    let depth ← getNat j "depth"
    pure (Json.mkObj [("outs", Json.arr (enumRec cfg frames (depth - pre.length) pre).toArray)])
  | o => throw s!"unknown op {o}"

end PEval.Driver.C05
