import PEval.Driver.Util
import PEval.Model.Dataset
/-! Driver handler for C16 (dataset loader): `{"op":"load", <tables>, "configs":[{task,frame,merge}]}`
→ `{"results":[{"frames":[…]} | {"err": kind}]}`; `{"op":"load2d", <tables>, "configs":[{task,family,merge,frames}]}`
for the 2-D tasks; `{"op":"tlr", <tables>}` → `{"tlr": null | {"pos": mean position, "rot": SUM of the sign-aligned
rotations (the stored rotation up to the normalisation)}}` or `{"err": kind}`: the averaged traffic-light camera
(`CAM_TRAFFIC_LIGHT -> BASE_LINK`) that `_get_transforms` stores with every frame. -/
open Lean

namespace PEval.Driver.C16
open PEval.Dataset PEval

def getVec3 (j : Json) (k : String) : Except String Vec3 := do
  match ← getRatList j k with
  | [x, y, z] => pure ⟨x, y, z⟩
  | _ => throw s!"{k}: expected 3 rationals"

def getQuat (j : Json) (k : String) : Except String Quat := do
  match ← getRatList j k with
  | [w, x, y, z] => pure ⟨w, x, y, z⟩
  | _ => throw s!"{k}: expected 4 rationals"

def getTable {α} (j : Json) (k : String) (f : Json → Except String α) : Except String (List α) := do
  (← getArr j k).toList.mapM f

def optStr (j : Json) (k : String) : String := (getStr j k).toOption.getD ""

def decodeTables (j : Json) : Except String Tables := do
  let samples ← getTable j "samples" (fun r => do
    let ts ← getNat r "timestamp"
    -- "secs": the float `1e-6 * timestamp` handed in exactly; absent = exact seconds
    let secs := match getRat r "secs" with
      | .ok x => x
      | .error _ => (ts : Rat) / 1000000
    pure ({ token := ← getStr r "token", timestamp := ts, secs := secs } : Sample))
  let sensors ← getTable j "sensors" (fun r => do
    pure ({ token := ← getStr r "token", channel := ← getStr r "channel" } : Sensor))
  let calibs ← getTable j "calibrated_sensors" (fun r => do
    pure ({ token := ← getStr r "token", sensorToken := ← getStr r "sensor_token",
            translation := ← getVec3 r "translation", rotation := ← getQuat r "rotation" } : CalibratedSensor))
  let egos ← getTable j "ego_poses" (fun r => do
    pure ({ token := ← getStr r "token", translation := ← getVec3 r "translation",
            rotation := ← getQuat r "rotation" } : EgoPose))
  let sdata ← getTable j "sample_data" (fun r => do
    pure ({ token := ← getStr r "token", sampleToken := ← getStr r "sample_token",
            egoPoseToken := ← getStr r "ego_pose_token",
            calibratedSensorToken := ← getStr r "calibrated_sensor_token",
            isKeyFrame := ← getBool r "is_key_frame" } : SampleData))
  let named (k field : String) := getTable j k (fun r => do
    pure ({ token := ← getStr r "token", name := ← getStr r field } : Named))
  let cats ← named "categories" "name"
  let attrs ← named "attributes" "name"
  let vis ← named "visibility" "level"
  let insts ← getTable j "instances" (fun r => do
    pure ({ token := ← getStr r "token", categoryToken := ← getStr r "category_token",
            instanceName := optStr r "instance_name" } : Instance))
  let anns ← getTable j "annotations" (fun r => do
    pure ({ token := ← getStr r "token", sampleToken := ← getStr r "sample_token",
            instanceToken := ← getStr r "instance_token", visibilityToken := ← getStr r "visibility_token",
            attributeTokens := ← getStrList r "attribute_tokens", translation := ← getVec3 r "translation",
            size := ← getVec3 r "size", rotation := ← getQuat r "rotation", prev := ← getStr r "prev",
            next := ← getStr r "next", numLidarPts := ← getNat r "num_lidar_pts" } : Annotation))
  let oanns ← match getArr j "object_anns" with
    | .error _ => pure []
    | .ok arr => arr.toList.mapM (fun r => do
      match ← getRatList r "bbox" with
      | [x0, y0, x1, y1] =>
        pure ({ token := ← getStr r "token", sampleDataToken := ← getStr r "sample_data_token",
                instanceToken := ← getStr r "instance_token", categoryToken := ← getStr r "category_token",
                attributeTokens := ← getStrList r "attribute_tokens", x0 := x0, y0 := y0, x1 := x1, y1 := y1 } : ObjectAnn)
      | _ => throw "bbox: expected 4 rationals")
  pure { samples := samples, sensors := sensors, calibratedSensors := calibs, egoPoses := egos,
         sampleData := sdata, categories := cats, attributes := attrs, visibility := vis,
         instances := insts, annotations := anns, objectAnns := oanns }

def frameMember (s : String) : String :=
  match Enums.frameFromValue s with
  | .ok m => m
  | .error _ => s

def decodeConfig (j : Json) : Except String Config := do
  let task ← getStr j "task"
  pure { tracking := task == "tracking", frame := frameMember (← getStr j "frame"), merge := ← getBool j "merge",
         fpValidation := task == "fp_validation" }

def decodeConfig2D (j : Json) : Except String Config2D := do
  let task ← getStr j "task"
  let member := match Enums.taskFromValue task with
    | .ok m => m
    | .error _ => task
  pure { task := member, family := ← getStr j "family", merge := ← getBool j "merge",
         frames := (← getStrList j "frames").map frameMember }

def jVec (v : Vec3) : Json := Json.arr #[jRat v.x, jRat v.y, jRat v.z]
def jQuat (q : Quat) : Json := Json.arr #[jRat q.w, jRat q.x, jRat q.y, jRat q.z]
def jPose (p : Pose) : List (String × Json) := [("pos", jVec p.pos), ("rot", jQuat p.rot)]

def jOptVec : Option Vec3 → Json
  | some v => jVec v
  | none => Json.null

def jObj (o : Obj) : Json :=
  Json.mkObj ([("uuid", Json.str o.uuid), ("label", Json.str o.label), ("name", Json.str o.name),
    ("attrs", jList Json.str o.attributes), ("size", jVec o.size), ("pts", jNat o.points),
    ("vis", match o.visibility with | some v => Json.str v | none => Json.null),
    ("frame", Json.str o.frame), ("time", jNat o.time),
    ("tracked", match o.tracked with
      | none => Json.null
      | some l => jList (fun (s : PastState) =>
          Json.mkObj (jPose s.pose ++ [("size", jVec s.size), ("vel", jOptVec s.velocity)])) l),
    ("vel", jOptVec o.velocity)]
    ++ jPose o.pose)

def jFrame (f : Frame) : Json :=
  Json.mkObj [("t", jNat f.unixTime), ("name", Json.str f.frameName),
    ("ego2map", Json.mkObj (jPose f.ego2map)), ("objects", jList jObj f.objects)]

def jObj2D (o : Obj2D) : Json :=
  Json.mkObj [("uuid", Json.str o.uuid), ("label", Json.str o.label), ("name", Json.str o.name),
    ("attrs", jList Json.str o.attributes),
    ("roi", match o.roi with
      | some r => Json.arr #[jInt r.x, jInt r.y, jInt r.w, jInt r.h]
      | none => Json.null),
    ("frame", Json.str o.frame), ("time", jNat o.time)]

def jFrame2D (f : Frame2D) : Json :=
  Json.mkObj [("t", jNat f.unixTime), ("name", Json.str f.frameName),
    ("ego2map", match f.ego2map with
      | some p => Json.mkObj (jPose p)
      | none => Json.null),
    ("objects", jList jObj2D f.objects)]

def handle : Json → Except String Json := fun j => do
  let op ← getStr j "op"
  match op with
  | "load" =>
    let T ← decodeTables j
    let cfgs ← (← getArr j "configs").toList.mapM decodeConfig
    let res := cfgs.map (fun cfg =>
      match loadDataset T cfg with
      | .ok frames => Json.mkObj [("frames", jList jFrame frames)]
      | .error k => Json.mkObj [("err", Json.str k)])
    pure (Json.mkObj [("results", Json.arr res.toArray)])
  | "load2d" =>
    let T ← decodeTables j
    let cfgs ← (← getArr j "configs").toList.mapM decodeConfig2D
    let res := cfgs.map (fun cfg =>
      match loadDataset2D T cfg with
      | .ok frames => Json.mkObj [("frames", jList jFrame2D frames)]
      | .error k => Json.mkObj [("err", Json.str k)])
    pure (Json.mkObj [("results", Json.arr res.toArray)])
  | "tlr" =>
    let T ← decodeTables j
    pure (match tlrAverage T with
      | .ok (some p) => Json.mkObj [("tlr", Json.mkObj (jPose p))]
      | .ok none => Json.mkObj [("tlr", Json.null)]
      | .error k => Json.mkObj [("err", Json.str k)])
  | "vel" =>
    -- audit round 2: per annotation, Python's velocity outcome (`velocityPy`): `cur` = `_get_box_velocity`, `dev` = the devkit's
    -- `box_velocity`; null = no estimate, [x,y,z] = finite, {"div0": displacement, "comps": ["inf"|"-inf"|"nan"]} = zero time difference
    let T ← decodeTables j
    let enc (r : Except Err Vel) : Json :=
      match r with
      | .error k => Json.mkObj [("err", Json.str k)]
      | .ok .none => Json.null
      | .ok (.finite v) => jVec v
      | .ok (.div0 d) => Json.mkObj [("div0", jVec d),
          ("comps", jList (fun c => Json.str (match c with | Comp.posInf => "inf" | Comp.negInf => "-inf" | Comp.nan => "nan"))
            (Vel.div0Comps d))]
    pure (Json.mkObj [("vel", jList (fun (a : Annotation) =>
      Json.mkObj [("token", Json.str a.token), ("cur", enc (velocityPy T true a)), ("dev", enc (velocityPy T false a))])
      T.annotations)])
  | o => throw s!"unknown op {o}"

end PEval.Driver.C16
