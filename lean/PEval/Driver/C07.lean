import PEval.Driver.Util
import PEval.Model.FrameChange
import PEval.Model.FrameEval
/-! Driver handler for C07: render a scene in the map frame, score tables in both renderings. -/
open Lean

namespace PEval.Driver.C07
open PEval.Geometry PEval.FrameChange

def getObj (j : Json) : Except String Obj := do
  let x ← getRat j "x"; let y ← getRat j "y"; let z ← getRat j "z"
  let c ← getRat j "c"; let s ← getRat j "s"; let tau ← getRat j "tau"
  let w ← getRat j "w"; let l ← getRat j "l"; let h ← getRat j "h"
  pure { box := { center := ⟨x, y, z⟩, rot := ⟨c, s⟩, w := w, l := l, h := h }, tau := tau }

def rowJson (r : ScoreRow) : Json :=
  Json.mkObj [("center2", jRat r.center2), ("plane2", jRat r.plane2), ("iou2d", jRat r.iou2d),
    ("iou3d", jRat r.iou3d), ("aph", jRat r.aph), ("yaw_err", jRat r.yawErr)]

def objJson (e : Pose) (o : Obj) : Json :=
  let m := o.toMap e
  let p := egoPosMap e m
  Json.mkObj [("x", jRat m.box.center.x), ("y", jRat m.box.center.y), ("z", jRat m.box.center.z),
    ("tau", jRat m.tau), ("ego_x", jRat p.x), ("ego_y", jRat p.y), ("ego_z", jRat (toEgo3 e m.box.center).z),
    ("bev2_ego", jRat (bevDist2Ego o)), ("bev2_map", jRat (bevDist2Map e m))]

/-! the filter criteria (optional part of a request): `"filter": {"mgr": params, "crit": params, "tags": [tag…]}`,
one tag per ground truth; parameters spelled as in the C10 protocol, `null`/absent = `None` -/

def optField (j : Json) (k : String) : Option Json :=
  match j.getObjVal? k with
  | .ok .null => none
  | .ok v => some v
  | .error _ => none

def optList {α} (j : Json) (k : String) (f : Json → Except String α) : Except String (Option (List α)) :=
  match optField j k with
  | none => pure none
  | some v => do
    let a ← v.getArr?
    let l ← a.toList.mapM f
    pure (some l)

def getParams (j : Json) : Except String Filter.Params := do
  pure { isGt := ← getBool j "is_gt",
         targets := ← optList j "targets" (·.getStr?),
         ignoreAttrs := ← optList j "ignore" (·.getStr?),
         maxX := ← optList j "max_x" asRat, maxY := ← optList j "max_y" asRat,
         maxDist := ← optList j "max_dist" asRat, minDist := ← optList j "min_dist" asRat,
         conf := ← optList j "conf" asRat,
         minPts := ← optList j "min_pts" (·.getInt?),
         uuids := ← optList j "uuids" (·.getStr?),
         hasTransforms := true }

def getTag (j : Json) : Except String Tag := do
  let pc ← match optField j "pc" with
    | none => pure none
    | some v => do pure (some (← v.getInt?))
  let uuid ← match optField j "uuid" with
    | none => pure none
    | some v => do pure (some (← v.getStr?))
  pure { id := ← getNat j "id", label := ← getStr j "label", name := ← getStr j "name",
         attributes := ← getStrList j "attrs", score := ← getRat j "score", pcNum := pc, uuid := uuid }

def keptJson (r : Except Err (List Nat)) : Json :=
  match r with
  | .ok ids => Json.mkObj [("ok", jList jNat ids)]
  | .error k => Json.mkObj [("err", Json.str k)]

def filterJson (e : Pose) (gts : List Obj) (j : Json) : Except String (List (String × Json)) :=
  match optField j "filter" with
  | none => pure []
  | some f => do
    let pm ← getParams (← f.getObjVal? "mgr")
    let pc ← getParams (← f.getObjVal? "crit")
    let tags ← (← getArr f "tags").toList.mapM getTag
    let os : List Tagged := (tags.zip gts).map (fun p => ⟨p.1, p.2⟩)
    pure [("gt_kept_ego", keptJson (keptEgo pm pc os)),
          ("gt_kept_map", keptJson (keptMap e pm pc (os.map (Tagged.toMap e))))]

/-! the whole frame (optional part of a request): `"eval": {"mgr": params, "crit": params, "est_attrs": [attr…],
"gt_attrs": [attr…], "policy", "targets", "radii2", "pf_targets", "pf_thr2", "crit_targets", "map_targets",
"maps": [{"mode", "thrs"}…]}` — distances travel squared (`dist := id`), so do the thresholds of the distance modes.
Response: the model's `evalFrame` of the ego rendering and of the map rendering of the same frame. -/

def getAttr (j : Json) : Except String Attr := do
  pure { tag := ← getTag j, mlabel := ← getStr j "mlabel", alabel := ← getNat j "alabel",
         uid := ← getNat j "uid", stamp := ← getNat j "stamp" }

def getPolicy (s : String) : Except String PEval.Matching.Policy :=
  match s with
  | "DEFAULT" => pure .default
  | "ALLOW_UNKNOWN" => pure .allowUnknown
  | "ALLOW_ANY" => pure .allowAny
  | _ => throw s!"bad policy {s}"

def getApMode (s : String) : Except String PEval.AP.Mode :=
  match s with
  | "center" => pure .centerDistance
  | "plane" => pure .planeDistance
  | "iou2d" => pure .iou2d
  | "iou3d" => pure .iou3d
  | _ => throw s!"bad mode {s}"

def apJson (a : PEval.AP.ApOut) : Json := jOptRat a.ap

def mapJson (m : PEval.AP.MapOut) : Json :=
  Json.mkObj [("map", jOptRat m.map), ("maph", jOptRat m.maph), ("aps", jList apJson m.aps), ("aphs", jList apJson m.aphs)]

def pfResJson (r : PEval.PassFail.Res) : Json := Json.arr #[jNat r.est, jOptNat (r.gt.map (·.id))]

def outJson (r : Except Err FrameOut) : Json :=
  match r with
  | .error k => Json.mkObj [("err", Json.str k)]
  | .ok o =>
    Json.mkObj [("ok", Json.mkObj [
      ("kept_est", jList jNat o.keptEst), ("kept_gt", jList jNat o.keptGt),
      ("matched", jList (fun (m : PEval.Matching.Res) =>
        Json.arr #[jNat (o.keptEst.getD m.1 0), jOptNat (m.2.map (fun k => o.keptGt.getD k 0))]) o.out.matched),
      ("pairs", jList pfResJson o.out.pf.results), ("gt_kept", jList (fun (g : PEval.PassFail.GT) => jNat g.id) o.out.pf.gts),
      ("tp", jList pfResJson o.out.pf.tp), ("fp", jList (fun (x : PEval.PassFail.Res) => jNat x.est) o.out.pf.fp),
      ("tn", jList (fun (g : PEval.PassFail.GT) => jNat g.id) o.out.pf.tn),
      ("fn", jList (fun (g : PEval.PassFail.GT) => jNat g.id) o.out.pf.fn),
      ("maps", jList mapJson o.out.maps)])]

def optRatList (j : Json) (k : String) : Except String (Option (List Rat)) := optList j k asRat

def evalJson (e : Pose) (ests gts : List Obj) (j : Json) : Except String (List (String × Json)) :=
  match optField j "eval" with
  | none => pure []
  | some v => do
    let mgr ← getParams (← v.getObjVal? "mgr")
    let crit ← getParams (← v.getObjVal? "crit")
    let ea ← (← getArr v "est_attrs").toList.mapM getAttr
    let ga ← (← getArr v "gt_attrs").toList.mapM getAttr
    let maps ← (← getArr v "maps").toList.mapM (fun m => do
      pure (PEval.Pipeline.MapCfg.mk (← getApMode (← getStr m "mode")) (← getRatList m "thrs")))
    let C : EvalCfg :=
      { mgr := mgr, crit := crit
        matcher := { policy := ← getPolicy (← getStr v "policy"), mode := .centerDistance,
                     targets := some (← getStrList v "targets"), thresholds := ← optRatList v "radii2",
                     fpValidation := false }
        dist := id
        pfTargets := ← getNatList v "pf_targets", pfThrs := ← optRatList v "pf_thr2"
        critTargets := ← getNatList v "crit_targets", mapTargets := ← getNatList v "map_targets"
        maps := maps, trackMode := .centerDistance, trackTargets := [] }
    let f : SFrame :=
      { frameId := .baseLink, pose := e
        ests := (ea.zip ests).map (fun p => ⟨p.1, p.2⟩), gts := (ga.zip gts).map (fun p => ⟨p.1, p.2⟩) }
    pure [("eval_ego", outJson (evalFrame C f)), ("eval_map", outJson (evalFrame C (f.toMap e)))]

/-! the whole HISTORY (optional part of a request): `"history": {"cfg": <as "eval">, "frames": [{"pose", "ests", "gts",
"est_attrs", "gt_attrs"}…], "track": [{"mode", "targets": [[label, thr]…]}…]}` — every frame of a sequence with its own ego
pose.  Response `hist_ego` / `hist_map`: the model's `evalFrame` of EVERY frame (as under "eval") and, per entry of "track",
`trackingOf` = `get_scene_result` of a tracking run: one CLEAR per target label (ground-truth number, TP weight, FP, ID switches,
MOTA, MOTP) and their sum.  Distances travel squared, so MOTP of the distance modes is in squared units (the harness compares
MOTP for the IoU modes only). -/

def getPose (pj : Json) : Except String Pose := do
  let c ← getRat pj "c"; let s ← getRat pj "s"; let tau ← getRat pj "tau"
  let tx ← getRat pj "tx"; let ty ← getRat pj "ty"; let tz ← getRat pj "tz"
  pure { rot := ⟨c, s⟩, tau := tau, t := ⟨tx, ty, tz⟩ }

def getEvalCfg (v : Json) : Except String EvalCfg := do
  let mgr ← getParams (← v.getObjVal? "mgr")
  let crit ← getParams (← v.getObjVal? "crit")
  let maps ← (← getArr v "maps").toList.mapM (fun m => do
    pure (PEval.Pipeline.MapCfg.mk (← getApMode (← getStr m "mode")) (← getRatList m "thrs")))
  pure { mgr := mgr, crit := crit
         matcher := { policy := ← getPolicy (← getStr v "policy"), mode := .centerDistance,
                      targets := some (← getStrList v "targets"), thresholds := ← optRatList v "radii2",
                      fpValidation := false }
         dist := id
         pfTargets := ← getNatList v "pf_targets", pfThrs := ← optRatList v "pf_thr2"
         critTargets := ← getNatList v "crit_targets", mapTargets := ← getNatList v "map_targets"
         maps := maps, trackMode := .centerDistance, trackTargets := [] }

def getHistFrame (j : Json) : Except String (Pose × SFrame) := do
  let e ← getPose (← j.getObjVal? "pose")
  let ests ← (← getArr j "ests").toList.mapM getObj
  let gts ← (← getArr j "gts").toList.mapM getObj
  let ea ← (← getArr j "est_attrs").toList.mapM getAttr
  let ga ← (← getArr j "gt_attrs").toList.mapM getAttr
  pure (e, { frameId := .baseLink, pose := e
             ests := (ea.zip ests).map (fun p => ⟨p.1, p.2⟩), gts := (ga.zip gts).map (fun p => ⟨p.1, p.2⟩) })

def clearJson (o : PEval.Clear.Out) : Json :=
  Json.mkObj [("g", jNat o.g), ("predict", jNat o.predictNum), ("tp", jRat o.acc.tp), ("fp", jNat o.acc.fp),
    ("sw", jNat o.acc.sw), ("mota", jOptRat o.mota), ("motp", jOptRat o.motp)]

def trackingJson (r : Except Err (List PEval.Clear.Out × (Option Rat × Option Rat × Nat))) : Json :=
  match r with
  | .error k => Json.mkObj [("err", Json.str k)]
  | .ok (cs, (mota, motp, sw)) =>
    Json.mkObj [("ok", Json.mkObj [("clears", jList clearJson cs),
      ("sum", Json.mkObj [("mota", jOptRat mota), ("motp", jOptRat motp), ("sw", jNat sw)])])]

def histJson (j : Json) : Except String (List (String × Json)) :=
  match optField j "history" with
  | none => pure []
  | some h => do
    let C ← getEvalCfg (← h.getObjVal? "cfg")
    let hist ← (← getArr h "frames").toList.mapM getHistFrame
    let tracks ← (← getArr h "track").toList.mapM (fun t => do
      let mode ← getApMode (← getStr t "mode")
      let tg ← (← getArr t "targets").toList.mapM (fun x => do
        let a ← x.getArr?
        match a.toList with
        | [l, thr] => pure ((← l.getNat?), (← asRat thr))
        | _ => throw "bad track target")
      pure (mode, tg))
    let one (fs : List SFrame) : Json :=
      Json.mkObj [("frames", jList (fun f => outJson (evalFrame C f)) fs),
        ("tracking", jList (fun (mt : PEval.AP.Mode × List (Nat × Rat)) =>
          trackingJson (trackingOf { C with trackMode := mt.1, trackTargets := mt.2 } fs)) tracks)]
    pure [("hist_ego", one (histEgo hist)), ("hist_map", one (histToMap hist))]

def handle : Json → Except String Json := fun j => do
  let pj ← j.getObjVal? "pose"
  let c ← getRat pj "c"; let s ← getRat pj "s"; let tau ← getRat pj "tau"
  let tx ← getRat pj "tx"; let ty ← getRat pj "ty"; let tz ← getRat pj "tz"
  let e : Pose := { rot := ⟨c, s⟩, tau := tau, t := ⟨tx, ty, tz⟩ }
  let ests ← (← getArr j "ests").toList.mapM getObj
  let gts ← (← getArr j "gts").toList.mapM getObj
  let flt ← filterJson e gts j
  let ev ← evalJson e ests gts j
  let hs ← histJson j
  -- score rows: the whole tables, or (large scenes) only the pairs `[i, j]` listed under "pairs"
  let rows ← match optField j "pairs" with
    | none =>
      pure [("ego", jList (jList rowJson) (tableEgo ests gts)),
            ("map", jList (jList rowJson) (tableMap e (ests.map (Obj.toMap e)) (gts.map (Obj.toMap e))))]
    | some pj => do
      let ps ← (← pj.getArr?).toList.mapM (fun x => do
        let a ← x.getArr?
        match a.toList with
        | [i, k] => pure ((← i.getNat?), (← k.getNat?))
        | _ => throw "bad pair")
      let sel ← ps.mapM (fun (p : Nat × Nat) =>
        match ests[p.1]?, gts[p.2]? with
        | some a, some g => pure (a, g)
        | _, _ => throw "pair index out of range")
      pure [("ego_rows", jList (fun (p : Obj × Obj) => rowJson (scoreRowEgo p.1 p.2)) sel),
            ("map_rows", jList (fun (p : Obj × Obj) => rowJson (scoreRowMap e (p.1.toMap e) (p.2.toMap e))) sel)]
  pure (Json.mkObj (flt ++ ev ++ hs ++ rows ++ [
    ("ests", jList (objJson e) ests), ("gts", jList (objJson e) gts),
    ("same_gts_ego", jList (jList Json.bool) (sameTable gts)),
    ("same_gts_map", jList (jList Json.bool) (sameTable (gts.map (Obj.toMap e)))),
    ("same_ests_ego", jList (jList Json.bool) (sameTable ests)),
    ("same_ests_map", jList (jList Json.bool) (sameTable (ests.map (Obj.toMap e))))]))

end PEval.Driver.C07
