import PEval.Driver.Util
import PEval.Model.FrameChange
/-! Driver handler for C07: render a scene in the map frame, score tables in both renderings. -/
open Lean

namespace PEval.Driver.C07
open PEval.Geometry PEval.FrameChange

def getObj (j : Json) : Except String Obj := do
  let x ← getRat j "x"; let y ← getRat j "y"; let z ← getRat j "z"
  let c ← getRat j "c"; let s ← getRat j "s"; let tau ← getRat j "tau"
  let w ← getRat j "w"; let l ← getRat j "l"; let h ← getRat j "h"
  pure { box := { center := ⟨x, y, z⟩, rot := ⟨c, s⟩, w := w, l := l, h := h }, tau := tau }

def rowJson (r : ScoreRow) : Json :=
  Json.mkObj [("center2", jRat r.center2), ("plane2", jRat r.plane2), ("iou2d", jRat r.iou2d),
    ("iou3d", jRat r.iou3d), ("aph", jRat r.aph), ("yaw_err", jRat r.yawErr)]

def objJson (e : Pose) (o : Obj) : Json :=
  let m := o.toMap e
  let p := egoPosMap e m
  Json.mkObj [("x", jRat m.box.center.x), ("y", jRat m.box.center.y), ("z", jRat m.box.center.z),
    ("tau", jRat m.tau), ("ego_x", jRat p.x), ("ego_y", jRat p.y)]

def handle : Json → Except String Json := fun j => do
  let pj ← j.getObjVal? "pose"
  let c ← getRat pj "c"; let s ← getRat pj "s"; let tau ← getRat pj "tau"
  let tx ← getRat pj "tx"; let ty ← getRat pj "ty"; let tz ← getRat pj "tz"
  let e : Pose := { rot := ⟨c, s⟩, tau := tau, t := ⟨tx, ty, tz⟩ }
  let ests ← (← getArr j "ests").toList.mapM getObj
  let gts ← (← getArr j "gts").toList.mapM getObj
  let te := tableEgo ests gts
  let tm := tableMap e (ests.map (Obj.toMap e)) (gts.map (Obj.toMap e))
  pure (Json.mkObj [
    ("ests", jList (objJson e) ests), ("gts", jList (objJson e) gts),
    ("ego", jList (jList rowJson) te), ("map", jList (jList rowJson) tm),
    ("same_gts_ego", jList (jList Json.bool) (sameTable gts)),
    ("same_gts_map", jList (jList Json.bool) (sameTable (gts.map (Obj.toMap e)))),
    ("same_ests_ego", jList (jList Json.bool) (sameTable ests)),
    ("same_ests_map", jList (jList Json.bool) (sameTable (ests.map (Obj.toMap e))))])

end PEval.Driver.C07
