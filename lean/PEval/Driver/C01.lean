import PEval.Driver.Util
import PEval.Model.Matching
import PEval.Model.MatchDispatch
import PEval.Model.MatchHeap
import PEval.Lemmas.MatchingCertificate
/-! Driver handler for C01 (and, through `C02.lean`, C02): runs `Matching.getObjectResults`.

Request: `{"op":"match","policy":"DEFAULT|ALLOW_UNKNOWN|ALLOW_ANY","mode":"center|plane|iou2d|iou3d",
"targets":null|[label…],"thresholds":null|["p/q"…],"fp_validation":bool,
"est_labels":[…],"est_frames":[…],"gt_labels":[…],"gt_frames":[…],"vals":[["p/q"…]…]}`
(`vals[i][j]` = the real `MatchingMethod.value` of estimate i and ground truth j, exactly).
Response: `{"results":[[i,j|null]…],"stage1":k}` (+ `"table":[[[score|null,valid]…]…]` when
`"want_table":true`) or `{"err":kind}`.

Request `"op":"matchx"` = the same fields plus what the dispatch at the top of `get_object_results` reads:
`"is2d":bool,"uuid_first":bool,"est_tl":[bool…],"est_uuid":[str|null…],"est_roi_none":[bool…]` and the
same three for `gt_`; runs `MatchDispatch.getObjectResultsXE` (= `getObjectResultsX` on lists whose same-frame pairs
all carry what the mode reads, `C01.xe_eq_x_of_readable`) and adds `"path":"geometric|tlr|id|early"`
to the response (the table only on the geometric path).  On the geometric path and the early returns the response also
carries `"heap"`: the run of the heap model `MatchHeap.getObjectResultsH` on the store `[[0..nE-1],[nE..nE+nG-1]]`
(caller's estimate list at address 0, ground-truth list at address 1; object `k` of the estimates is reference `k`,
object `k` of the ground truths reference `nE+k`): `{"ests_after":[…],"gts_after":[…],"results":[[e,g|null]…]|null}` =
the content of the caller's two lists after the call and the results as object references.
Optional request field `"cert":{"s1":[[i,j]…],"s2":[[i,j]…]}` (geometric path, no table error): an order in which the REAL
code's pairs could have been picked (compatible-only stage, label-blind stage); the response then carries
`"admits":bool` = `Matching.checkTwoStage` accepts it (`C02.certificate_sound`: an accepted certificate is a run of the
documented any-best relation, so the real outcome only differs from the model's in the winner of exact ties) and, when
accepted, `"admit_left":[i…]` = the estimates that run leaves unpaired. -/
open Lean

namespace PEval.Driver.C01
open PEval.Matching

def parsePolicy : String → Except String Policy
  | "DEFAULT" => pure .default
  | "ALLOW_UNKNOWN" => pure .allowUnknown
  | "ALLOW_ANY" => pure .allowAny
  | s => throw s!"unknown policy {s}"

def parseMode : String → Except String Mode
  | "center" => pure .centerDistance
  | "plane" => pure .planeDistance
  | "iou2d" => pure .iou2d
  | "iou3d" => pure .iou3d
  | s => throw s!"unknown mode {s}"

def optField (j : Json) (k : String) : Option Json :=
  match j.getObjVal? k with
  | .ok .null => none
  | .ok v => some v
  | .error _ => none

def decodeCfg (j : Json) : Except String Cfg := do
  let policy ← parsePolicy (← getStr j "policy")
  let mode ← parseMode (← getStr j "mode")
  let targets ← match optField j "targets" with
    | none => pure none
    | some _ => (getStrList j "targets").map some
  let thresholds ← match optField j "thresholds" with
    | none => pure none
    | some _ => (getRatList j "thresholds").map some
  let fp ← getBool j "fp_validation"
  pure { policy := policy, mode := mode, targets := targets, thresholds := thresholds, fpValidation := fp }

def decodeScene (j : Json) : Except String Scene := do
  let el ← getStrList j "est_labels"
  let ef ← getStrList j "est_frames"
  let gl ← getStrList j "gt_labels"
  let gf ← getStrList j "gt_frames"
  if el.length != ef.length || gl.length != gf.length then throw "label/frame lists differ in length"
  let rows ← getArr j "vals"
  let vals : Array (Array Rat) ← rows.mapM fun r => do
    match r with
    | .arr a => a.mapM asRat
    | _ => throw "vals: expected rows"
  if vals.size != el.length then throw "vals: wrong number of rows"
  for r in vals do
    if r.size != gl.length then throw "vals: wrong number of columns"
  pure {
    ests := List.zipWith (fun l f => ⟨l, f⟩) el ef
    gts := List.zipWith (fun l f => ⟨l, f⟩) gl gf
    val := fun i k => ((vals[i]?).bind (·[k]?)).getD 0 }

def resJson (r : Res) : Json := Json.arr #[jNat r.1, jOptNat r.2]

/-- the two planes of the model's score table, for the cell-by-cell comparison with the real
`is_better_than` / `is_matchable` / frame test (only meaningful when no exception is raised) -/
def tableJson (c : Cfg) (sc : Scene) : Json :=
  let t := mkTbl c sc
  jList (fun i => jList (fun k => Json.arr #[jOptRat (t.score i k), Json.bool (t.valid i k)])
    (List.range sc.gts.length)) (List.range sc.ests.length)


section matchx
open PEval.MatchDispatch

def boolList (j : Json) (k : String) : Except String (List Bool) := do
  (← getArr j k).toList.mapM fun x => match x with
    | .bool b => pure b
    | _ => throw s!"{k}: expected bool"

def optStrList (j : Json) (k : String) : Except String (List (Option String)) := do
  (← getArr j k).toList.mapM fun x => match x with
    | .null => pure none
    | .str s => pure (some s)
    | _ => throw s!"{k}: expected string or null"

def decodeSide (j : Json) (p : String) (os : List Obj) : Except String (List ObjX) := do
  let tl ← boolList j (p ++ "_tl")
  let uu ← optStrList j (p ++ "_uuid")
  let rn ← boolList j (p ++ "_roi_none")
  if tl.length != os.length || uu.length != os.length || rn.length != os.length then
    throw "matchx: per-object lists differ in length"
  pure (List.zipWith (fun (o : Obj) (t : Bool × Option String × Bool) =>
      ({ label := o.label, tl := t.1, frame := o.frame, uuid := t.2.1, roiNone := t.2.2 } : ObjX))
    os (List.zip tl (List.zip uu rn)))

def decodeSceneX (j : Json) : Except String SceneX := do
  let sc ← decodeScene j
  let is2d ← getBool j "is2d"
  let es ← decodeSide j "est" sc.ests
  let gs ← decodeSide j "gt" sc.gts
  pure { is2d := is2d, ests := es, gts := gs, val := sc.val }

def decodePicks (j : Json) (k : String) : Except String (List (Nat × Nat)) := do
  (← getArr j k).toList.mapM fun x => match x with
    | .arr #[a, b] => do pure ((← a.getNat?), (← b.getNat?))
    | _ => throw s!"{k}: expected [i,j]"

/-- the certificate check of an alternative tie winner (see the module docstring) -/
def certJson (j : Json) (c : Cfg) (sc : Scene) : Except String (List (String × Json)) :=
  match optField j "cert" with
  | none => pure []
  | some cj => do
    let p1 ← decodePicks cj "s1"
    let p2 ← decodePicks cj "s2"
    if (tableError c sc).isSome || sc.ests.isEmpty || sc.gts.isEmpty then pure []
    else
      match checkTwoStage (mkTbl c sc) (List.range sc.ests.length) (List.range sc.gts.length) p1 p2 with
      | some st => pure [("admits", Json.bool true), ("admit_left", jList jNat st.es)]
      | none => pure [("admits", Json.bool false)]

def pathName : Option Path → String
  | none => "early"
  | some .tlr => "tlr"
  | some .byId => "id"
  | some .geometric => "geometric"

end matchx

section heap
open PEval.MatchHeap

/-- the heap model on the canonical store of a scene -/
def heapJson (c : Cfg) (sc : Scene) : Json :=
  let nE := sc.ests.length
  let nG := sc.gts.length
  let w : World :=
    { obj := fun o => if o < nE then sc.ests.getD o ⟨"", ""⟩ else sc.gts.getD (o - nE) ⟨"", ""⟩,
      val := fun a b => sc.val a (b - nE) }
  let h : Heap := ⟨[List.range nE, (List.range nG).map (· + nE)]⟩
  let r := getObjectResultsH c w h 0 1
  let res : Json := match r.1 with
    | .ok rs => jList (fun (x : RRes) => Json.arr #[jNat x.1, jOptNat x.2]) rs
    | .error _ => Json.null
  Json.mkObj [("ests_after", jList jNat (r.2.read 0)), ("gts_after", jList jNat (r.2.read 1)), ("results", res)]

end heap

def handle : Json → Except String Json := fun j => do
  let op ← getStr j "op"
  match op with
  | "match" =>
    let c ← decodeCfg j
    let sc ← decodeScene j
    let wantTable := match getBool j "want_table" with
      | .ok b => b
      | .error _ => false
    let tbl : List (String × Json) :=
      if wantTable then [("table", tableJson c sc)] else []
    match getObjectResults c sc with
    | .ok rs =>
      pure (Json.mkObj ([("results", jList resJson rs), ("stage1", jNat (stage1Count c sc))] ++ tbl))
    | .error k => pure (Json.mkObj [("err", k)])
  | "matchx" =>
    let c ← decodeCfg j
    let sx ← decodeSceneX j
    let uf ← getBool j "uuid_first"
    let wantTable := match getBool j "want_table" with
      | .ok b => b
      | .error _ => false
    let path := MatchDispatch.pathOf sx
    let sc := MatchDispatch.toScene sx
    let tbl : List (String × Json) :=
      if wantTable && path == some .geometric then [("table", tableJson c sc)] else []
    let hp : List (String × Json) :=
      if path == some .geometric || path == none then [("heap", heapJson c sc)] else []
    let cert ← if path == some .geometric then certJson j c sc else pure []
    let pj : List (String × Json) := [("path", Json.str (pathName path))] ++ hp ++ cert
    match MatchDispatch.getObjectResultsXE uf c sx with
    | .ok rs => pure (Json.mkObj ([("results", jList resJson rs)] ++ pj ++ tbl))
    | .error k => pure (Json.mkObj ([("err", Json.str k)] ++ pj))
  | o => throw s!"unknown op {o}"

end PEval.Driver.C01
