import PEval.Driver.Util
import PEval.Model.Analyzer
/-! Driver handler for C19 (analysis tables). -/
open Lean

namespace PEval.Driver.C19
open PEval.Analyzer

def getObj (j : Json) : Except String Obj := do
  pure { uuid := ← getStr j "u", label := ← getStr j "l", x := ← getRat j "x", y := ← getRat j "y",
         yaw := ← getRat j "yaw", width := ← getRat j "w", length := ← getRat j "len",
         vx := ← getOptRat j "vx", vy := ← getOptRat j "vy" }

def getOptObj (j : Json) : Except String (Option Obj) :=
  match j with
  | .null => pure none
  | _ => (getObj j).map some

def getPair (j : Json) : Except String Pair := do
  match j with
  | .arr a =>
    if h : a.size = 2 then pure { est := ← getObj a[0], gt := ← getOptObj a[1] }
    else throw "pair must have two entries"
  | _ => throw "pair must be an array"

def getObjs (j : Json) (k : String) : Except String (List Obj) := do
  (← getArr j k).toList.mapM getObj

def getPairs (j : Json) (k : String) : Except String (List Pair) := do
  (← getArr j k).toList.mapM getPair

def getFrame (j : Json) : Except String Frame := do
  pure { frameNum := ← getNat j "n", tp := ← getPairs j "tp", fp := ← getPairs j "fp",
         tn := ← getObjs j "tn", fn := ← getObjs j "fn", critical := ← getObjs j "critical" }

def parseStatus (s : String) : Except String Status :=
  match s with
  | "TP" => pure .TP | "FP" => pure .FP | "TN" => pure .TN | "FN" => pure .FN
  | o => throw s!"bad status {o}"

def optList {α : Type} (j : Json) (k : String) (f : Json → Except String α) : Except String (Option (List α)) :=
  match j.getObjVal? k with
  | .ok (.arr a) => (a.toList.mapM f).map some
  | _ => pure none

def getSel (j : Json) : Except String (Sel × Option (Rat × Rat)) := do
  let s : Sel := {
    labels := ← optList j "labels" (fun x => x.getStr?)
    scenes := ← optList j "scenes" (fun x => x.getNat?)
    frames := ← optList j "frames" (fun x => x.getNat?)
    areas := ← optList j "areas" (fun x => x.getNat?)
    statuses := ← optList j "statuses" (fun x => do parseStatus (← x.getStr?))
    uuids := ← optList j "uuids" (fun x => x.getStr?) }
  let d ← match j.getObjVal? "distance" with
    | .ok (.arr a) =>
      if h : a.size = 2 then do pure (some (← asRat a[0], ← asRat a[1]))
      else throw "distance must have two entries"
    | _ => pure none
  pure (s, d)

def jCell (c : Cell) : Json :=
  Json.mkObj [("st", c.status.toString), ("u", c.obj.uuid), ("l", c.obj.label), ("x", jRat c.obj.x),
    ("y", jRat c.obj.y), ("yaw", jRat c.obj.yaw), ("area", jOptNat c.area), ("frame", jNat c.frame),
    ("scene", jNat c.scene)]

def jOptCell : Option Cell → Json
  | none => Json.null
  | some c => jCell c

def jRow (r : RowPair) : Json := Json.arr #[jNat r.index, jOptCell r.gt, jOptCell r.est]

def jExceptNat : Except Err Nat → Json
  | .ok n => jNat n
  | .error e => Json.mkObj [("err", e)]

def jSummary : Option Summary → Json
  | none => Json.null
  | some s => Json.mkObj [("average", jRat s.average), ("rms2", jRat s.rms2), ("var", jRat s.var),
      ("max", jRat s.max), ("min", jRat s.min)]

def jAnalysis : Except Err (Option Analysis) → Json
  | .error e => Json.mkObj [("err", e)]
  | .ok none => Json.mkObj [("none", true)]
  | .ok (some a) => Json.mkObj [
      ("ratio", jList (fun (p : String × Ratio) =>
        Json.arr #[p.1, jRat p.2.tp, jRat p.2.fp, jRat p.2.tn, jRat p.2.fn]) a.ratio),
      ("error", jList (fun (p : String × List (Col × Option Summary)) =>
        Json.arr #[p.1, jList (fun (q : Col × Option Summary) => Json.arr #[q.1.name, jSummary q.2]) p.2]) a.error),
      ("cm", match a.confusion with
        | none => Json.null
        | some m => jList (jList jNat) m)]

/-- the selected sub-table itself (`get(**kwargs)` then `filter_by_distance`): pair indices, counts, paired rows -/
def jSelection (labels : List String) (t : Table) (s : Sel) (d : Option (Rat × Rat)) : Json :=
  match selectTable t s d with
  | .error e => Json.mkObj [("err", e)]
  | .ok df => Json.mkObj [
      ("index", jList jNat (df.map (·.index))),
      -- the ROW-wise keyword selection of `get_num_*(**kwargs)` on the full table
      ("rowwise", Json.mkObj [("gt", jNat (getNumGroundTruth t s)), ("est", jNat (getNumEstimation t s)),
        ("tp", jNat (getNumTP t s)), ("fp", jNat (getNumFP t s)), ("tn", jNat (getNumTN t s)),
        ("fn", jNat (getNumFN t s))]),
      ("num", Json.mkObj [("gt", jNat (getNumGroundTruth df)), ("est", jNat (getNumEstimation df)),
        ("tp", jNat (getNumTP df)), ("fp", jNat (getNumFP df)), ("tn", jNat (getNumTN df)),
        ("fn", jNat (getNumFN df))]),
      -- the index (row / column labels) of the confusion matrix of this selection
      ("cm_labels", jList Json.str (confusionIndex labels df)),
      ("paired", jNat (getPairResults df).length)]

def jStatus (s : GtStatus) : Json :=
  Json.mkObj [("uuid", s.uuid), ("total", jList jNat s.total), ("tp", jList jNat s.tp),
    ("fp", jList jNat s.fp), ("tn", jList jNat s.tn), ("fn", jList jNat s.fn)]

def jPt (p : Rat × Rat) : Json := Json.arr #[jRat p.1, jRat p.2]

def jPairIds (p : Pair) : Json :=
  Json.arr #[p.est.uuid, match p.gt with | none => Json.null | some g => Json.str g.uuid]


/-! ### additions: raw objects in either frame (`raw_rows`), status rates -/

def getRawObj (j : Json) : Except String RawObj := do
  let fr ← getStr j "frame"
  let frame ← match fr with
    | "base_link" => pure FrameId.baseLink
    | "map" => pure FrameId.map
    | o => throw s!"bad frame {o}"
  pure { frame := frame, uuid := ← getStr j "u", label := ← getStr j "l",
         pos := ⟨← getRat j "x", ← getRat j "y", ← getRat j "z"⟩, yaw := ← getRat j "yaw",
         width := ← getRat j "w", length := ← getRat j "len", vx := ← getOptRat j "vx", vy := ← getOptRat j "vy" }

def getOptRawObj (j : Json) : Except String (Option RawObj) :=
  match j with
  | .null => pure none
  | _ => (getRawObj j).map some

def getRawPair (j : Json) : Except String RawPair := do
  match j with
  | .arr a =>
    if h : a.size = 2 then pure { est := ← getRawObj a[0], gt := ← getOptRawObj a[1] }
    else throw "pair must have two entries"
  | _ => throw "pair must be an array"

def getPose (j : Json) : Except String FrameChange.Pose := do
  pure { rot := ⟨← getRat j "c", ← getRat j "s"⟩, tau := ← getRat j "tau",
         t := ⟨← getRat j "x", ← getRat j "y", ← getRat j "z"⟩ }

def getRawFrame (j : Json) : Except String RawFrame := do
  pure { ego := ← getPose (← j.getObjVal? "ego"), frameNum := ← getNat j "n",
         tp := ← (← getArr j "tp").toList.mapM getRawPair, fp := ← (← getArr j "fp").toList.mapM getRawPair,
         tn := ← (← getArr j "tn").toList.mapM getRawObj, fn := ← (← getArr j "fn").toList.mapM getRawObj,
         critical := ← (← getArr j "critical").toList.mapM getRawObj }

def jRate : Option Rat → Json
  | none => Json.str "inf"
  | some r => jRat r

def jStatusRates (s : GtStatus) : Json :=
  Json.mkObj [("uuid", s.uuid), ("rates", jList (fun (p : Status × Option Rat) => jRate p.2) s.statusRates)]

def jSceneRates (l : List GtStatus) : Json :=
  match sceneRates l with
  | none => Json.str "inf"
  | some (a, b, c, d) => Json.arr #[jRat a, jRat b, jRat c, jRat d]

def handle : Json → Except String Json := fun j => do
  let op ← getStr j "op"
  match op with
  | "analyze" =>
    let division ← getNat j "division"
    let maxX ← getRat j "max_x"
    let maxY ← getRat j "max_y"
    let labels ← getStrList j "labels"
    let er := (getBool j "empty_raises").toOption.getD true
    let scenes ← (← getArr j "scenes").toList.mapM (fun s => do
      match s with
      | .arr a => a.toList.mapM getFrame
      | _ => throw "scene must be an array")
    let sels ← (← getArr j "sels").toList.mapM getSel
    match generateAreaPoints division maxX maxY with
    | .error e => pure (Json.mkObj [("err", e)])
    | .ok areas =>
      let an := addAll (areaOf areas) scenes
      let t := an.table
      -- `.item()` of `get_area_idx` raising for one of the tabulated positions
      let areaErr := scenes.any fun fs => fs.any fun f =>
        (f.tp ++ f.fp).any (fun p => (getAreaIdx areas p.est.x p.est.y).toBool == false) ||
        (f.tn ++ f.fn).any (fun o => (getAreaIdx areas o.x o.y).toBool == false)
      pure (Json.mkObj [
        ("areas", Json.mkObj [("ur", jList jPt areas.upperRights), ("bl", jList jPt areas.bottomLefts)]),
        ("area_error", areaErr),
        ("num_scene", jNat an.numScene), ("num_frame", jNat an.numFrame),
        ("rows", jList jRow t),
        ("num", Json.mkObj [("gt", jExceptNat (numGroundTruth er t)), ("est", jExceptNat (numEstimation er t)),
          ("tp", jExceptNat (numTP er t)), ("fp", jExceptNat (numFP er t)), ("tn", jExceptNat (numTN er t)),
          ("fn", jExceptNat (numFN er t))]),
        ("analyses", jList (fun (sd : Sel × Option (Rat × Rat)) => jAnalysis (analyze labels t sd.1 sd.2)) sels),
        ("selections", jList (fun (sd : Sel × Option (Rat × Rat)) => jSelection labels t sd.1 sd.2) sels),
        ("status", Json.mkObj [("scenes", jList (fun fs => jList jStatus (getObjectStatus fs)) scenes),
          ("all", jList jStatus (getObjectStatus scenes.flatten))]),
        ("status_rates", Json.mkObj [("scenes", jList (fun fs => jList jStatusRates (getObjectStatus fs)) scenes),
          ("all", jList jStatusRates (getObjectStatus scenes.flatten))]),
        ("scene_rates", Json.mkObj [("scenes", jList (fun fs => jSceneRates (getObjectStatus fs)) scenes),
          ("all", jSceneRates (getObjectStatus scenes.flatten)), ("empty", jSceneRates [])])])
  | "passfail" =>
    let n ← getNat j "n"
    let critical ← getObjs j "critical"
    let results ← (← getArr j "results").toList.mapM (fun r => do
      let est ← getObj (← r.getObjVal? "est")
      let gt ← getOptObj (← r.getObjVal? "gt")
      let c ← getBool r "correct"
      pure (({ est := est, gt := gt } : Pair), c))
    let f := passFail n critical results
    pure (Json.mkObj [("tp", jList jPairIds f.tp), ("fp", jList jPairIds f.fp),
      ("tn", jList (fun (o : Obj) => Json.str o.uuid) f.tn), ("fn", jList (fun (o : Obj) => Json.str o.uuid) f.fn)])
  | "raw_rows" =>
    -- the table built from the objects AS GIVEN (base_link or map frame) with the frames' ego poses
    let division ← getNat j "division"
    let maxX ← getRat j "max_x"
    let maxY ← getRat j "max_y"
    let scenes ← (← getArr j "scenes").toList.mapM (fun s => do
      match s with
      | .arr a => a.toList.mapM getRawFrame
      | _ => throw "scene must be an array")
    match generateAreaPoints division maxX maxY with
    | .error e => pure (Json.mkObj [("err", e)])
    | .ok areas =>
      let t := (addAllRaw areas scenes).table
      let areaErr := scenes.any fun fs => fs.any fun f =>
        (f.tp ++ f.fp).any (fun p => (getAreaIdxRaw areas f.ego p.est).toBool == false) ||
        (f.tn ++ f.fn).any (fun o => (getAreaIdxRaw areas f.ego o).toBool == false)
      pure (Json.mkObj [("area_error", areaErr), ("rows", jList jRow t),
        ("dist2", jList (fun (r : RowPair) => Json.arr #[jOptRat (r.gt.map (·.obj.dist2)), jOptRat (r.est.map (·.obj.dist2))]) t)])
  | o => throw s!"unknown op {o}"

end PEval.Driver.C19
