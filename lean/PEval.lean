-- Root of the library: models, generated tables, lemmas, property theorems, driver handlers.
import PEval.Driver.All
