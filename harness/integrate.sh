#!/bin/bash
# integrate.sh <workcopy> : copy a builder's owned files into /verif (new files and files that differ),
# never shared infrastructure. Prints what was copied.
src="$1"; dst=/verif
cd "$src" || exit 1
for f in $(find lean/PEval/Model lean/PEval/Lemmas lean/PEval/Properties lean/PEval/Driver harness/props harness/corpus -type f \( -name '*.lean' -o -name '*.py' -o -name '*.json' \) 2>/dev/null); do
  case "$f" in
    lean/PEval/Driver/All.lean|lean/PEval/Driver/Util.lean|lean/PEval/Model/Basic.lean|harness/props/__init__.py) continue;;
  esac
  if [ ! -f "$dst/$f" ]; then mkdir -p "$dst/$(dirname $f)"; cp "$f" "$dst/$f"; echo "NEW  $f";
  elif ! cmp -s "$f" "$dst/$f"; then echo "DIFF $f (not copied; exists in /verif)"; fi
done
for f in harness/core.py harness/run_check.py harness/gen_tables.py harness/builders.py check known_findings.json lean/PEval/Driver/Util.lean lean/PEval/Model/Basic.lean lean/lakefile.toml; do
  if [ -f "$f" ] && ! cmp -s "$f" "$dst/$f"; then echo "SHARED-CHANGED $f"; fi
done
