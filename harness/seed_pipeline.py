"""Confirm seeded changes delivered by the independent sub-agents (/tmp/s/Cxx_out) and run the checks
against them without touching /repo.  Re-runnable: results accumulate in seeded/RESULTS.json.

  python3 harness/seed_pipeline.py verify C05 A        # apply, demo both ways, pinned suite; on success store seeded/C05_A/
  python3 harness/seed_pipeline.py run C05 A [checks]   # run checks (default: own + related) against the stored patch
  python3 harness/seed_pipeline.py all [-j N]           # everything pending
"""
import json
import os
import shutil
import subprocess
import sys
from concurrent.futures import ThreadPoolExecutor
from pathlib import Path

V = Path(__file__).resolve().parent.parent
SEEDED = V / "seeded"
RESULTS = SEEDED / "RESULTS.json"
RELATED = {
    "C01": ["C01", "C02"], "C02": ["C02", "C01"], "C03": ["C03"], "C04": ["C04", "C08"], "C05": ["C05"],
    "C06": ["C06", "C07"], "C07": ["C07", "C10", "C06"], "C08": ["C08", "C04"], "C09": ["C09", "C07"],
    "C10": ["C10", "C07"], "C11": ["C11"], "C12": ["C12"], "C13": ["C13"], "C14": ["C14"], "C15": ["C15"],
    "C16": ["C16"], "C17": ["C17"], "C18": ["C18"], "C19": ["C19"], "C20": ["C20", "C18"],
}


def load():
    import time
    for _ in range(20):
        try:
            return json.loads(RESULTS.read_text()) if RESULTS.exists() else {}
        except json.JSONDecodeError:
            time.sleep(0.2)
    return {}


def save(r):
    SEEDED.mkdir(exist_ok=True)
    tmp = RESULTS.with_suffix(".tmp")
    tmp.write_text(json.dumps(r, indent=1, sort_keys=True))
    os.replace(tmp, RESULTS)


def have_check(c):
    return (V / "harness" / "props" / f"{c.lower()}.py").exists() and (V / "lean" / "PEval" / "Properties" / f"{c}.lean").exists()


def verify(prop, v):
    out = Path(f"/tmp/s/{prop}_out")
    if not (out / f"patch_{v}.diff").exists():
        return None
    p = subprocess.run([str(V / "harness" / "seed_verify.sh"), prop, v], capture_output=True, text=True)
    line = [l for l in p.stdout.splitlines() if l.startswith(prop)]
    line = line[-1] if line else p.stdout[-300:]
    ok = "apply=0 demo_unchanged=0" in line and "suite_exit=0" in line and "demo_changed=0" not in line
    if ok:
        d = SEEDED / f"{prop}_{v}"
        d.mkdir(parents=True, exist_ok=True)
        shutil.copy(out / f"patch_{v}.diff", d / "patch.diff")
        shutil.copy(out / f"demo_{v}.py", d / "demo.py")
        meta = {}
        try:
            m = json.loads((out / ("meta.json" if v in "AB" else "meta2.json" if v in "CD" else "meta3.json" if v in "EF" else "meta4.json")).read_text())
            for ch in m.get("changes", []):
                if ch.get("name") == v:
                    meta = ch
        except Exception:
            pass
        (d / "meta.json").write_text(json.dumps({
            "property": prop, "change": v, "summary": meta.get("summary"), "files": meta.get("files"),
            "needs_to_manifest": meta.get("needs_to_manifest"),
            "confirmed_by": "harness/seed_verify.sh: patch applies on /repo HEAD in a scratch worktree; demo exits 0 unchanged and non-zero changed; pinned suite passes with the change",
            "verification_line": line,
        }, indent=1))
    return {"verified": ok, "verify_line": line}


def run(prop, v, checks):
    p = subprocess.run([str(V / "harness" / "seed_run.sh"), prop, v, *checks], capture_output=True, text=True)
    res = {}
    lines = p.stdout.splitlines()
    for i, l in enumerate(lines):
        if l.startswith("SEED "):
            c = l.split("check=")[1].split()[0]
            rc = int(l.split("exit=")[1].split()[0])
            rep = lines[i + 1].strip() if i + 1 < len(lines) and lines[i + 1].startswith("   replay:") else ""
            res[c] = {"exit": rc, "caught": rc == 1, "no_failing_input": "no-failing-input-found" in l, "line": l[:400], "replay": rep[:400]}
    return res


def todo(results):
    items = []
    for i in range(1, 21):
        prop = f"C{i:02d}"
        for v in ("A", "B", "C", "D", "E", "F", "G", "J"):
            key = f"{prop}_{v}"
            if not Path(f"/tmp/s/{prop}_out/patch_{v}.diff").exists() and not (SEEDED / key / "patch.diff").exists():
                continue
            items.append((prop, v, key))
    return items


def process(item):
    prop, v, key = item
    results = load()
    r = results.get(key, {})
    if "verified" not in r:
        vr = verify(prop, v)
        if vr is None:
            return key, None
        r.update(vr)
    if r.get("verified"):
        checks = [c for c in RELATED[prop] if have_check(c) and c not in r.get("checks", {})]
        if checks:
            rr = run(prop, v, checks)
            r.setdefault("checks", {}).update(rr)
    return key, r


def main():
    args = sys.argv[1:]
    if args and args[0] == "all":
        j = int(args[args.index("-j") + 1]) if "-j" in args else 3
        items = todo(load())
        with ThreadPoolExecutor(j) as ex:
            for key, r in ex.map(process, items):
                if r is None:
                    continue
                res = load()
                res[key] = r
                save(res)
                own = r.get("checks", {}).get(key[:3], {})
                print(key, "verified" if r.get("verified") else "NOT-VERIFIED", {c: ("caught" if x["caught"] else f"exit{x['exit']}") for c, x in r.get("checks", {}).items()}, flush=True)
    elif args and args[0] == "refresh":
        # refresh -j N Cxx Cyy ... : re-run every stored seed of these properties with the current checks; the verdicts of
        # the first run are kept under "first_run" (so that a miss that was repaired stays visible)
        j = int(args[args.index("-j") + 1]) if "-j" in args else 3
        props = [a for a in args[1:] if a.startswith("C")]
        res = load()
        items = []
        for prop, v, key in todo(res):
            if prop in props and res.get(key, {}).get("verified"):
                r = res[key]
                if "checks" in r:
                    r.setdefault("first_run", r["checks"])
                    r["checks"] = {}
                items.append((prop, v, key))
        save(res)
        with ThreadPoolExecutor(j) as ex:
            for key, r in ex.map(process, items):
                if r is None:
                    continue
                res = load()
                res[key] = r
                save(res)
                print(key, {c: ("caught" if x["caught"] else f"exit{x['exit']}") for c, x in r.get("checks", {}).items()}, flush=True)
    elif args and args[0] == "rerun":
        prop, v = args[1], args[2]
        checks = args[3:] or [c for c in RELATED[prop] if have_check(c)]
        res = load()
        r = res.get(f"{prop}_{v}", {})
        r.setdefault("checks", {}).update(run(prop, v, checks))
        res[f"{prop}_{v}"] = r
        save(res)
        print(json.dumps(r["checks"], indent=1))


if __name__ == "__main__":
    main()
