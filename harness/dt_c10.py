"""Decision table of `objects_filter._is_target_object` (property C10): symbolic inputs, atom registry, generator of
lean/PEval/Gen/IsTarget.lean, Python transcription of the model skeleton (only used to FIND a witness valuation when the
Lean theorem fails; it proves nothing) and the realiser "valuation -> concrete C10 case".

Atoms (Boolean unless stated; the registry below fixes the numeric codes shared with lean/PEval/Model/FilterTable.lean):
  fp, unknown                 label.is_fp(), label.is_unknown()
  is_gt                       the flag
  targets.none/.empty         target_labels is None / == []            (.empty is only asked of a list)
  targets.has_unknown         any(label == CommonLabel.UNKNOWN for label in target_labels)
  label_in_targets            semantic_label.label in target_labels
  ignore.none, attr_hit       ignore_attributes is None, label.contains_any(ignore_attributes)
  <L>.none/.short/.empty      per-label list L in conf,maxx,maxy,maxd,mind,pts: is None / shorter than the label's index /
                              == [] (np.mean is nan)
  tf.none, frame_bl, pos.none, is2d, tf.missing
                              transforms is None, frame_id == BASE_LINK, state.position is None, DynamicObject2D,
                              no matrix registered for the object's frame (KeyError)
  pc.none, uuids.none, uuid_in
  cmp(a|b)  (order atoms, lt/eq/gt)   over the terms  score, conf[label], 0, abs(pos.x), abs(pos.y), abs(tf(pos).x),
                              abs(tf(pos).y), dist(pos), dist(tf(pos)), <L>[label], mean(<L>), pc
"""
from __future__ import annotations

import os
import sys
import time
from typing import Any, Dict, List, Optional, Tuple

from . import dtable as dt
from .dtable import Leak, Stub, Sym, SymBool, oracle

FILTER_MOD = "perception_eval.evaluation.matching.objects_filter"
THRESH_MOD = "perception_eval.common.threshold"

LISTS = ["conf", "maxx", "maxy", "maxd", "mind", "pts"]
PARAM_OF = {"conf": "confidence_threshold_list", "maxx": "max_x_position_list", "maxy": "max_y_position_list",
            "maxd": "max_distance_list", "mind": "min_distance_list", "pts": "min_point_numbers"}

# ----------------------------------------------------------------------------- atom registry (codes shared with Lean)

B_ATOMS = ["fp", "unknown", "is_gt", "targets.none", "targets.empty", "targets.has_unknown", "label_in_targets",
           "ignore.none", "attr_hit", "tf.none", "frame_bl", "pos.none", "is2d", "tf.missing", "pc.none", "uuids.none",
           "uuid_in"]
for _l in LISTS:
    B_ATOMS += [f"{_l}.none", f"{_l}.short", f"{_l}.empty"]


def _c(a, b):
    return dt.cmp_atom(a, b)[0]


C_ATOMS = [_c("score", "conf[label]"), _c("score", "0")]
for _p in ("pos", "tf(pos)"):
    C_ATOMS += [_c(f"abs({_p}.x)", "maxx[label]"), _c(f"abs({_p}.x)", "mean(maxx)"),
                _c(f"abs({_p}.y)", "maxy[label]"), _c(f"abs({_p}.y)", "mean(maxy)"),
                _c(f"dist({_p})", "maxd[label]"), _c(f"dist({_p})", "mean(maxd)"),
                _c(f"dist({_p})", "mind[label]"), _c(f"dist({_p})", "mean(mind)")]
C_ATOMS += [_c("pc", "pts[label]"), _c("pc", "0")]
# read only under the reading "a relaxed unknown estimate's confidence bound is the mean of the list" (see READINGS)
C_ATOMS += [_c("score", "mean(conf)")]

B_CODE = {a: i for i, a in enumerate(B_ATOMS)}
C_CODE = {a: i for i, a in enumerate(C_ATOMS)}
# C10 has no error clause: which exception CLASS rejects a malformed input (a list shorter than the label index, no bound for
# the label, no point count ...) is not part of the property. Every exception is recorded as the one result `raise:Rejected`
# (`PEval.FilterTable.eRejected`); the class names observed are kept in OBSERVED_EXC for the evidence. Raising where the model
# returns (or the reverse) still differs.
REJECTED = "Rejected"
EXC_CODE = {REJECTED: 0}
OBSERVED_EXC: Dict[str, int] = {}

# jointly unrealisable decisions (the Lean theorem is stated for valuations avoiding them: `PEval.FilterTable.forbidden`)
FORBIDDEN: List[List[Tuple[str, Any]]] = []  # none needed: table and model agree on every valuation

# The three points the C10 text leaves open (mirror of `PEval.FilterTable.Reading` / `readings`, same order):
#   gt_conf       "confidence (estimates) or point count and uuid (ground truth)": is a GROUND TRUTH's own confidence compared
#                 with the threshold?  (today's code: yes)
#   empty_all     `target_labels == []`: no label criterion (today) or nothing targeted?
#   relaxed_mean  "unknown-labelled estimates are judged against the mean bounds": confidence bound 0 (today) or mean(conf)?
# The per-run Lean obligation: the code's table equals the skeleton of ONE of these readings (the index found here is
# emitted as `readingHint`; Lean re-checks it, the hint proves nothing).
READINGS: List[Tuple[bool, bool, bool]] = [(True, True, False), (False, True, False), (True, False, False), (True, True, True),
                                           (False, False, False), (False, True, True), (True, False, True), (False, False, True)]
TODAY = READINGS[0]
_CC, _C0, _CM = _c("score", "conf[label]"), _c("score", "0"), _c("score", "mean(conf)")
_REL = [("unknown", True), ("is_gt", False), ("conf.none", False)]
# valuations on which the readings part ways (mirror of `PEval.FilterTable.openValuations`): no witness is taken from them
OPEN: List[List[Tuple[str, Any]]] = [
    [("is_gt", True), ("conf.none", False), (_CC, "eq")],
    [("is_gt", True), ("conf.none", False), (_CC, "gt")],
    [("is_gt", True), ("conf.none", False), ("targets.none", True)],
    [("is_gt", True), ("conf.none", False), ("conf.short", True)],
    [("targets.empty", True)],
    _REL + [(_C0, "lt"), ("conf.empty", True)],
    _REL + [(_C0, "lt"), (_CM, "eq")],
    _REL + [(_C0, "lt"), (_CM, "gt")],
    _REL + [(_C0, "eq"), ("conf.empty", False), (_CM, "lt")],
    _REL + [(_C0, "gt"), ("conf.empty", False), (_CM, "lt")],
]


# ----------------------------------------------------------------------------- symbolic inputs

def _none_error(what):
    return TypeError(f"'NoneType' object {what}")


class Opt(Stub):
    """an argument that may be None: the identity test with None (instrumented) and every use ask `<name>.none`"""

    def __init__(self, name):
        self.__dict__["_dt_name"] = name

    def _none(self) -> bool:
        return oracle().b(self._dt_name + ".none")

    def _dt_is(self, other):
        if other is None:
            return self._none()
        return self is other

    def __eq__(self, other):
        if other is None:
            return self._none()
        raise Leak(f"== on {self._dt_name}")

    def __ne__(self, other):
        if other is None:
            return not self._none()
        raise Leak(f"!= on {self._dt_name}")

    __hash__ = None  # type: ignore

    def _use(self, what):
        if self._none():
            raise _none_error(what)


class SymIndex(Stub):
    def __init__(self):
        self.__dict__["_dt_name"] = "idx(label)"


class LabelVal(Stub):
    def __init__(self):
        self.__dict__["_dt_name"] = "label"

    def __hash__(self):
        raise Leak("hash(label)")


class TargetElem(Stub):
    """the generic element of target_labels: only the comparison with CommonLabel.UNKNOWN is in the abstraction"""

    def __init__(self, unknown_members):
        self.__dict__["_dt_name"] = "target_labels[*]"
        self.__dict__["_unk"] = unknown_members

    def __eq__(self, other):
        if any(other is m for m in self._unk):
            return oracle().b("targets.has_unknown")
        raise Leak(f"target label compared with {other!r}")

    def __ne__(self, other):
        return not self.__eq__(other)

    __hash__ = None  # type: ignore


class Targets(Opt):
    def __init__(self, unknown_members):
        Opt.__init__(self, "targets")
        self.__dict__["_unk"] = unknown_members

    def __bool__(self):
        if self._none():
            return False
        return not oracle().b("targets.empty")

    def __contains__(self, x):
        self._use("is not iterable")
        if not isinstance(x, LabelVal):
            raise Leak(f"{x!r} in target_labels")
        return oracle().b("label_in_targets")

    def index(self, x, *a):
        self._use("has no attribute 'index'")
        if a or not isinstance(x, LabelVal):
            raise Leak("target_labels.index(...)")
        if not oracle().b("label_in_targets"):
            raise ValueError("x not in list")
        return SymIndex()

    def __iter__(self):
        self._use("is not iterable")
        return iter([TargetElem(self._unk)])


class Thresholds(Opt):
    def __getitem__(self, i):
        self._use("is not subscriptable")
        if not isinstance(i, SymIndex):
            raise Leak(f"{self._dt_name}[{i!r}]")
        if oracle().b(self._dt_name + ".short"):
            raise IndexError("list index out of range")
        return Sym(f"{self._dt_name}[label]")

    def __array_function__(self, func, types, args, kwargs):
        import numpy as np

        if func is np.mean and len(args) == 1 and args[0] is self and not kwargs:
            if self._none():
                raise TypeError("unsupported operand type(s) for /: 'NoneType' and 'int'")
            nan = oracle().b(self._dt_name + ".empty")
            return Sym(f"mean({self._dt_name})", nan=nan)
        raise Leak(f"numpy function {getattr(func, '__name__', func)} on {self._dt_name}")


class Ignore(Opt):
    pass


class UuidVal(Stub):
    def __init__(self):
        self.__dict__["_dt_name"] = "uuid"

    def __hash__(self):
        raise Leak("hash(uuid)")

    def __eq__(self, other):
        if isinstance(other, UuidElem):
            return oracle().b("uuid_in")
        raise Leak("uuid ==")

    def __ne__(self, other):
        return not self.__eq__(other)


class UuidElem(str):
    """the generic element of target_uuids (a str, as the code asserts)"""

    def __eq__(self, other):
        if isinstance(other, UuidVal):
            return oracle().b("uuid_in")
        raise Leak("target uuid ==")

    def __ne__(self, other):
        return not self.__eq__(other)

    __hash__ = None  # type: ignore


class Uuids(list):
    """target_uuids: must pass `isinstance(_, list)`; None-ness as for Opt"""

    _dt_name = "uuids"

    def _none(self):
        return oracle().b("uuids.none")

    def _dt_is(self, other):
        if other is None:
            return self._none()
        return self is other

    def __eq__(self, other):
        if other is None:
            return self._none()
        raise Leak("== on uuids")

    __hash__ = None  # type: ignore

    def __contains__(self, x):
        if self._none():
            raise _none_error("is not iterable")
        if not isinstance(x, UuidVal):
            raise Leak(f"{x!r} in target_uuids")
        return oracle().b("uuid_in")

    def __iter__(self):
        if self._none():
            raise _none_error("is not iterable")
        return iter([UuidElem("u")])

    def __bool__(self):
        if self._none():
            return False
        return not oracle().b("uuids.empty")


for _n in dt._DUNDERS:
    if _n not in ("__contains__", "__iter__", "__eq__", "__ne__", "__hash__", "__bool__", "__reduce__", "__reduce_ex__",
                  "__str__", "__format__"):
        setattr(Uuids, _n, dt._leaker(_n))


class Pos(Opt):
    """state.position (may be None) or the result of a transform"""

    def __getitem__(self, i):
        self._use("is not subscriptable")
        if i == 0:
            return Sym(f"{self._dt_name}.x")
        if i == 1:
            return Sym(f"{self._dt_name}.y")
        raise Leak(f"{self._dt_name}[{i!r}]")


class DerivedPos(Pos):
    def _none(self):
        return False


class Frame(Stub):
    def __init__(self, base_link):
        self.__dict__["_dt_name"] = "frame_id"
        self.__dict__["_bl"] = base_link

    def _is_bl(self, other):
        return other is self._bl or other == "base_link"

    def __eq__(self, other):
        if isinstance(other, Frame):
            return True
        if self._is_bl(other):
            return oracle().b("frame_bl")
        raise Leak(f"frame_id == {other!r}")

    def __ne__(self, other):
        return not self.__eq__(other)

    def __hash__(self):
        raise Leak("hash(frame_id)")


class Transforms(Opt):
    def __init__(self, base_link):
        Opt.__init__(self, "tf")
        self.__dict__["_bl"] = base_link

    def transform(self, key, *args, **kwargs):
        if self._none():
            raise AttributeError("'NoneType' object has no attribute 'transform'")
        if kwargs or len(args) != 1 or not isinstance(key, tuple) or len(key) != 2:
            raise Leak("transforms.transform with an unexpected signature")
        src, dst = key
        p = args[0]
        if not isinstance(p, Pos):
            raise Leak(f"transform of {p!r}")
        if isinstance(src, Frame) and dst is self._bl:
            name = "tf"
        elif src is self._bl and isinstance(dst, Frame):
            name = "tfinv"
        else:
            raise Leak(f"transform key {key!r}")
        if oracle().b("frame_bl"):
            return p  # src == dst: the argument is returned as it is
        if oracle().b("tf.missing"):
            raise KeyError("no transform matrix is registered")
        if p._none():
            raise TypeError("transform of None")
        return DerivedPos(f"{name}({p._dt_name})")


class Pc(Sym):
    def _rel(self, other):
        if other is None:
            raise TypeError("'>=' not supported between instances of 'int' and 'NoneType'")
        if oracle().b("pc.none"):
            raise TypeError("'>=' not supported between instances of 'NoneType' and 'int'")
        return Sym._rel(self, other)


class LabelS(Stub):
    def __init__(self):
        self.__dict__["_dt_name"] = "semantic_label"
        self.__dict__["label"] = LabelVal()

    def is_fp(self):
        return oracle().b("fp")

    def is_unknown(self):
        return oracle().b("unknown")

    def contains_any(self, keys):
        if not isinstance(keys, Ignore):
            raise Leak(f"contains_any({keys!r})")
        if keys._none():
            raise AssertionError("Expected type is sequence")
        return oracle().b("attr_hit")


class State(Stub):
    def __init__(self):
        self.__dict__["_dt_name"] = "state"
        self.__dict__["position"] = Pos("pos")


class Obj(Stub):
    def __init__(self, base_link):
        d = self.__dict__
        d["_dt_name"] = "dynamic_object"
        d["_bl"] = base_link
        d["semantic_label"] = LabelS()
        d["semantic_score"] = Sym("score")
        d["frame_id"] = Frame(base_link)
        d["state"] = State()
        d["uuid"] = UuidVal()

    def __getattr__(self, name):
        if name == "pointcloud_num":  # (a property raising AttributeError would be routed to __getattr__ anyway)
            if oracle().b("is2d"):
                raise AttributeError("'DynamicObject2D' object has no attribute 'pointcloud_num'")
            return Pc("pc")
        return Stub.__getattr__(self, name)

    def get_distance_bev(self, transforms=None):
        """DynamicObject.get_distance_bev / DynamicObject2D.get_distance_bev (common/object.py, object2d.py)"""
        pos = self.state.position
        if pos._none() and oracle().b("is2d"):
            raise AssertionError("self.state.position must be set.")
        if oracle().b("frame_bl"):
            p = pos
        else:
            if transforms is None or (isinstance(transforms, Transforms) and transforms._none()):
                raise ValueError("transforms must be specified.")
            if not isinstance(transforms, Transforms):
                raise Leak("get_distance_bev(transforms=?)")
            p = transforms.transform((self.frame_id, self._bl), pos)
        if p._none():
            raise _none_error("is not subscriptable")
        return Sym(f"dist({p._dt_name})")


STUB_TYPES = (Stub, Uuids, UuidElem)


# ----------------------------------------------------------------------------- exploration

def _result_of(val, exc):
    if exc is not None:
        n = type(exc).__name__
        OBSERVED_EXC[n] = OBSERVED_EXC.get(n, 0) + 1
        return "raise:" + REJECTED
    if val is True or val is False:
        return "ret:" + str(val)
    try:
        import numpy as np

        if isinstance(val, np.bool_):
            return "ret:" + str(bool(val))
    except Exception:
        pass
    return "other:" + type(val).__name__


def _prune(decisions):
    asg = {a: o for a, _, o in decisions}
    return dt.violates(FORBIDDEN, asg)


def tabulate(max_paths=150000):
    """(tree, info) of the CURRENT source's `_is_target_object`; raises Leak/TooLarge/... when untranslatable"""
    import logging
    import warnings

    logging.disable(logging.CRITICAL)
    warnings.filterwarnings("ignore")
    import perception_eval
    from perception_eval.common.label import CommonLabel
    from perception_eval.common.schema import FrameID

    pkg_dir = os.path.dirname(os.path.abspath(perception_eval.__file__))
    unk = (CommonLabel.UNKNOWN,) + tuple(CommonLabel.UNKNOWN.value)
    mods = [FILTER_MOD, THRESH_MOD]
    t0 = time.time()
    for _attempt in range(6):
        copies = dt.instrument(mods)
        fn = getattr(copies[FILTER_MOD], "_is_target_object")

        def run():
            o = Obj(FrameID.BASE_LINK)
            kw = {PARAM_OF[l]: Thresholds(l) for l in LISTS}
            return fn(dynamic_object=o, is_gt=SymBool("is_gt"), target_labels=Targets(unk), ignore_attributes=Ignore("ignore"),
                      target_uuids=Uuids(), transforms=Transforms(FrameID.BASE_LINK), **kw)

        try:
            with dt.Guard(pkg_dir, STUB_TYPES):
                paths = dt.explore(run, _result_of, max_paths=max_paths, prune=None)
        except dt.Uninstrumented as u:
            if u.modname in mods or not u.modname:
                raise Leak(f"stub reached uninstrumentable code in {u.modname}")
            mods.append(u.modname)
            continue
        tree = dt.reduce_tree(dt.build_tree(paths))
        info = {"paths": len(paths), "paths_reduced": dt.tree_stats(tree)["leaves"], "seconds": round(time.time() - t0, 2), "modules": list(mods)}
        return tree, info
    raise Leak("instrumentation did not reach a fixpoint")


HEADER = "-- GENERATED by harness/gen_tables.py (harness/dt_c10.py) from /repo's current source. Do not edit.\n"
NAMESPACE = "PEval.Gen.IsTarget"
LAST: Dict[str, Any] = {}


def generate_lean() -> str:
    """text of lean/PEval/Gen/IsTarget.lean; never raises: an untranslatable source yields the marker file"""
    LAST.clear()
    try:
        OBSERVED_EXC.clear()
        tree, info = tabulate()
        info["exception_classes_observed"] = dict(sorted(OBSERVED_EXC.items()))
        LAST.update(tree=tree, info=info)
        hint = matching_reading(tree)
        LAST["reading"] = hint
        info["reading_of_the_open_points"] = None if hint is None else dict(zip(("gt_conf", "empty_all", "relaxed_mean"), READINGS[hint]))
        txt = dt.emit_lean(tree, NAMESPACE, HEADER, B_CODE, C_CODE, EXC_CODE,
                           info="function: objects_filter._is_target_object")
        return _with_hint(txt, 0 if hint is None else hint)
    except BaseException as e:  # noqa: BLE001 - Leak, TooLarge, anything the stubs did not anticipate
        if isinstance(e, (KeyboardInterrupt, SystemExit)):
            raise
        reason = f"{type(e).__name__}: {e}"
        LAST.update(untranslatable=reason)
        return _with_hint(dt.emit_untranslatable(NAMESPACE, HEADER, reason), 0)


def _with_hint(txt: str, k: int) -> str:
    end = f"\nend {NAMESPACE}\n"
    assert txt.endswith(end)
    return txt[:-len(end)] + ("/-- index (in `PEval.FilterTable.readings`) of the reading of the open points whose skeleton the harness found "
                              "equal to this table; a hint, re-checked by `isTarget_table_check` -/\n"
                              f"def readingHint : Nat := {k}\n") + end


def matching_reading(tree) -> Optional[int]:
    """index of the first reading whose skeleton equals the table on every valuation (None: no reading does)"""
    for k, r in enumerate(READINGS):
        if not dt.diff_trees(tree, model_tree(r), FORBIDDEN, limit=1):
            return k
    return None



# ----------------------------------------------------------------------------- Python transcription of the skeleton
# (mirror of lean/PEval/Model/FilterTable.lean `isTargetTree`; ONLY used to find a witness valuation when the Lean
#  theorem fails, it is not part of any proof; lazily built: children are thunks)

def _askB(a, k):
    return ("b", a, lambda: k(False), lambda: k(True))


def _askC(a, k):
    return ("c", a, lambda: k("lt"), lambda: k("eq"), lambda: k("gt"))


def _leaf(r):
    return ("leaf", r)


def _ret(b):
    return _leaf("ret:" + str(bool(b)))


def _err(n):
    return _leaf("raise:" + REJECTED)


def _pname(tf):
    return "tf(pos)" if tf else "pos"


def model_tree(reading=TODAY):
    gt_conf, empty_all, relaxed_mean = reading

    def t_use(k):
        return _askB("unknown", lambda un: k(False) if not un else
                     _askB("is_gt", lambda g: k(False) if g else
                           _askB("targets.none", lambda tn: k(True) if tn else
                                 _askB("targets.has_unknown", lambda hu: k(not hu)))))

    def t_label(u, k):
        def rest():
            return k(True) if u else _askB("label_in_targets", lambda li: k(li))

        if not empty_all:
            return _askB("targets.none", lambda tn: k(True) if tn else rest())
        return _askB("targets.none", lambda tn: k(True) if tn else
                     _askB("targets.empty", lambda te: k(True) if te else rest()))

    def t_conf(u, ok, k):
        def st():
            if relaxed_mean:
                return t_stage(u, ok, "conf", _CC, _CM, True, ("lt",), k)
            return t_stage(u, ok, "conf", _CC, _C0, False, ("lt",), k)

        if gt_conf:
            return st()
        if not ok:
            return k(ok)
        return _askB("is_gt", lambda g: k(ok) if g else st())

    def t_attr(u, ok, k):
        return _askB("ignore.none", lambda n: k(ok) if n else (k(ok) if u else _askB("attr_hit", lambda h: k(ok and not h))))

    def t_entry(l, k):
        return _askB("targets.none", lambda tn: _err("TypeError") if tn else
                     _askB("label_in_targets", lambda li: _err("TypeError") if not li else
                           _askB(l + ".short", lambda sh: _err("IndexError") if sh else k())))

    def t_stage(u, ok, l, c_label, c_unk, nan, passes, k):
        if not ok:
            return k(ok)

        def present():
            if u:
                if nan:
                    return _askB(l + ".empty", lambda em: k(False) if em else _askC(c_unk, lambda o: k(o in passes)))
                return _askC(c_unk, lambda o: k(o in passes))
            return t_entry(l, lambda: _askC(c_label, lambda o: k(o in passes)))

        return _askB(l + ".none", lambda n: k(ok) if n else present())

    def t_position(k):
        def with_tf():
            return _askB("pos.none", lambda pn: k(None) if pn else
                         _askB("frame_bl", lambda bl: k(False) if bl else
                               _askB("tf.missing", lambda ms: _err("KeyError") if ms else k(True))))

        def no_tf():
            return _askB("frame_bl", lambda bl: k(None) if not bl else
                         _askB("pos.none", lambda pn: k(False) if not pn else
                               _askB("is2d", lambda d: _err("AssertionError" if d else "TypeError"))))

        return _askB("tf.none", lambda tn: no_tf() if tn else with_tf())

    def t_pc(has_bound, c, passes, k):
        return _askB("is2d", lambda d: _err("AttributeError") if d else
                     (_err("TypeError") if not has_bound else
                      _askB("pc.none", lambda pn: _err("TypeError") if pn else _askC(c, lambda o: k(o in passes)))))

    def t_pts(u, ok, k):
        if not ok:
            return k(ok)
        cL, c0 = _c("pc", "pts[label]"), _c("pc", "0")

        def present():
            if u:
                return t_pc(True, c0, ("lt", "eq"), k)
            return _askB("targets.none", lambda tn: t_pc(False, cL, ("eq", "gt"), k) if tn else
                         _askB("label_in_targets", lambda li: t_pc(False, cL, ("eq", "gt"), k) if not li else
                               _askB("pts.short", lambda sh: _err("IndexError") if sh else t_pc(True, cL, ("eq", "gt"), k))))

        return _askB("is_gt", lambda g: k(ok) if not g else _askB("pts.none", lambda pn: k(ok) if pn else present()))

    def t_range(u, ok, pos, k):
        if pos is None:
            return k(ok)
        p = _pname(pos)
        return t_stage(u, ok, "maxx", _c(f"abs({p}.x)", "maxx[label]"), _c(f"abs({p}.x)", "mean(maxx)"), True, ("lt",), lambda ok1:
               t_stage(u, ok1, "maxy", _c(f"abs({p}.y)", "maxy[label]"), _c(f"abs({p}.y)", "mean(maxy)"), True, ("lt",), lambda ok2:
               t_stage(u, ok2, "maxd", _c(f"dist({p})", "maxd[label]"), _c(f"dist({p})", "mean(maxd)"), True, ("lt",), lambda ok3:
               t_stage(u, ok3, "mind", _c(f"dist({p})", "mind[label]"), _c(f"dist({p})", "mean(mind)"), True, ("gt",), lambda ok4:
               t_pts(u, ok4, k)))))

    def t_uuid(ok, k):
        if not ok:
            return k(ok)
        return _askB("is_gt", lambda g: k(ok) if not g else
                     _askB("uuids.none", lambda n: k(ok) if n else _askB("uuid_in", lambda i: k(i))))

    return _askB("fp", lambda fp: _ret(True) if fp else
                 t_use(lambda u: t_label(u, lambda ok0: t_attr(u, ok0, lambda ok1:
                 t_conf(u, ok1, lambda ok2:
                 t_position(lambda pos: t_range(u, ok2, pos, lambda ok3: t_uuid(ok3, lambda ok4: _ret(ok4)))))))))


def table_disagreements(limit=400, per_class=8):
    """valuations (over the atoms either side read) on which the CURRENT source's table and the model skeleton differ"""
    if "tree" not in LAST and "untranslatable" not in LAST:
        generate_lean()
    if "tree" not in LAST:
        return []
    if "diff" not in LAST:
        if LAST.get("reading") is not None:
            LAST["diff"] = []  # the table IS the skeleton of one reading of the open points
            return LAST["diff"]
        # witnesses only from valuations on which all readings agree (inside the property's quantifier) ...
        LAST["diff"] = dt.diff_trees(LAST["tree"], model_tree(TODAY), OPEN, limit=limit, per_class=per_class)
        if not LAST["diff"]:
            # ... the table differs from every reading, but only on the open valuations: the closest reading's differences
            best = None
            for r in READINGS:
                d = dt.diff_trees(LAST["tree"], model_tree(r), FORBIDDEN, limit=limit, per_class=per_class)
                if best is None or len(d) < len(best):
                    best = d
            LAST["diff"] = best or []
        # witnesses whose two results are both ordinary returns first (a kept/removed difference is the property itself)
        LAST["diff"].sort(key=lambda d: (not (d[1].startswith("ret:") and d[2].startswith("ret:")), len(d[0])))
    return LAST["diff"]


# ----------------------------------------------------------------------------- valuation -> concrete C10 case

def _place(q, outcome):
    """a bound b with `compare q b = outcome`"""
    return {"lt": q + 1.0, "eq": q, "gt": q - 1.0}[outcome]


def realise(val: Dict[str, Any], rng=None, variant: int = 0) -> Optional[dict]:
    """a C10 harness case (kind 'objects', one object) whose atoms take the values of `val` (a partial valuation);
    atoms not mentioned are chosen by `variant`/rng; atoms outside the registry (new terms of a changed source) cannot be
    steered and are left to the variants. None when the valuation asks for something no real input has."""
    import random

    rng = rng or random.Random(variant)
    g = val.get

    def pick(atom, default, choices=(False, True)):
        if atom in val:
            return val[atom]
        return default if variant == 0 else rng.choice(choices)

    fp, unk = pick("fp", False), pick("unknown", False)
    if fp and unk:
        return None
    member = "FP" if fp else "UNKNOWN" if unk else "CAR"
    label = "AutowareLabel." + member
    is_gt = pick("is_gt", False)
    # target labels
    if pick("targets.none", False):
        targets = None
    elif pick("targets.empty", False):
        targets = []
        if g("label_in_targets") or g("targets.has_unknown"):
            return None
    else:
        li = pick("label_in_targets", True)
        hu = pick("targets.has_unknown", member == "UNKNOWN" and li)
        if member == "UNKNOWN" and li and not hu:
            return None
        if member == "UNKNOWN" and hu and not li:
            return None  # an unknown target label equals every unknown label of the family
        targets = ["AutowareLabel.BICYCLE"]
        if hu:
            targets.append("AutowareLabel.UNKNOWN")
        targets.append("AutowareLabel.BUS")
        if li and label not in targets:
            targets.append(label)
    idx = targets.index(label) if targets and label in targets else None
    n = len(targets) if targets else 2

    # the object's quantities; an order atom against a numeric constant (e.g. `cmp(0|dist(pos))` of a changed source)
    # fixes the quantity itself
    import re

    fixed: Dict[str, float] = {}
    for a, o in val.items():
        m = re.fullmatch(r"cmp\((.+)\|(.+)\)", a)
        if not m or o not in dt.C_OUT:
            continue
        lhs, rhs = m.group(1), m.group(2)
        for const, q, out in ((lhs, rhs, o), (rhs, lhs, dt._FLIP[o])):
            try:
                cval = float(const)
            except ValueError:
                continue
            if cval != cval or abs(cval) == float("inf"):
                continue
            qn = q.replace("tf(pos)", "pos").replace("tfinv(pos)", "pos")
            if qn in ("abs(pos.x)", "abs(pos.y)", "dist(pos)", "score", "pc"):
                v = _place(cval, out)  # compare const q = out  ->  q = const + 1 / const / const - 1
                if v < 0 and qn != "score":
                    return None
                fixed.setdefault(qn, v)
    x, y = fixed.get("abs(pos.x)", 3.0), fixed.get("abs(pos.y)", 4.0)
    if "dist(pos)" in fixed:
        x, y = 0.6 * fixed["dist(pos)"], 0.8 * fixed["dist(pos)"]
    if variant % 2 == 1:
        x, y = -x, -y
    d = (x * x + y * y) ** 0.5
    quantities = {"abs(pos.x)": abs(x), "abs(pos.y)": abs(y), "dist(pos)": d, "abs(tf(pos).x)": abs(x), "abs(tf(pos).y)": abs(y),
                  "dist(tf(pos))": d}
    c0 = _c("score", "0")
    score = fixed.get("score", {"lt": 0.5, "eq": 0.0, "gt": -0.5}[val.get(c0, "lt" if variant == 0 else rng.choice(dt.C_OUT))])
    quantities["score"] = score
    pcv = int(fixed.get("pc", 5))
    pc = None if pick("pc.none", False) else pcv
    quantities["pc"] = float(pcv)

    def list_for(l, q_names):
        if pick(l + ".none", variant == 0 and l not in [a.split(".")[0] for a in val]):
            return None
        if pick(l + ".empty", False):
            return []
        m = n
        if pick(l + ".short", False):
            if idx is None:
                return None if l + ".short" in val else [1.0] * m
            m = idx
        entry = mean = None
        for qn in q_names:
            a1, a2 = _c(qn, f"{l}[label]"), _c(qn, f"mean({l})")
            flip1 = not a1.startswith(f"cmp({qn}|")
            flip2 = not a2.startswith(f"cmp({qn}|")
            o1 = val.get(a1) or (rng.choice(dt.C_OUT) if variant else None)
            o2 = val.get(a2) or (rng.choice(dt.C_OUT) if variant else None)
            if o1 is not None and entry is None:
                entry = _place(quantities[qn], dt._FLIP[o1] if flip1 else o1)
            if o2 is not None and mean is None:
                mean = _place(quantities[qn], dt._FLIP[o2] if flip2 else o2)
        base = quantities[q_names[0]]
        if entry is None:
            entry = base + 1.0 if l != "mind" else base - 1.0
            if l == "conf":
                entry = score - 0.25
            if l == "pts":
                entry = base
        vals = [entry] * m
        if mean is not None and m >= 2:
            rest = (m * mean - (entry if idx is not None and idx < m else mean)) / (m - 1 if idx is not None and idx < m else m)
            vals = [rest] * m
            if idx is not None and idx < m:
                vals[idx] = entry
        elif idx is not None and idx < m:
            vals[idx] = entry
        if l == "pts":
            vals = [int(round(v)) for v in vals]
        return vals

    tf_none = pick("tf.none", True)
    frame_bl = pick("frame_bl", True)
    pos_none = pick("pos.none", False)
    is2d = pick("is2d", False)
    variantname = "pos" if frame_bl or tf_none else "tf(pos)"
    P = {"target_labels": targets,
         "ignore_attributes": None if pick("ignore.none", True) else ["parked"],
         "max_x_position_list": list_for("maxx", [f"abs({variantname}.x)"]),
         "max_y_position_list": list_for("maxy", [f"abs({variantname}.y)"]),
         "max_distance_list": list_for("maxd", [f"dist({variantname})"]),
         "min_distance_list": list_for("mind", [f"dist({variantname})"]),
         "confidence_threshold_list": list_for("conf", ["score"]),
         "min_point_numbers": list_for("pts", ["pc"]),
         "target_uuids": None if pick("uuids.none", True) else (["u0"] if pick("uuid_in", True) else ["zz"])}
    if tf_none:
        tf = None
    elif pick("tf.missing", False):
        tf = []
    else:
        tf = [{"src": "base_link", "dst": "map", "q": ["1", "0", "0", "1/2"], "t": ["1000", "2000", "0"]}]
    frame = "base_link" if frame_bl else "map"
    if is2d and not frame_bl:
        frame = "cam_front"
        if tf:
            tf = [{"src": "cam_front", "dst": "base_link", "q": ["1", "0", "0", "0"], "t": ["0", "0", "0"]}]
    pos = None if pos_none else [x, y, 0.0]
    if pos is not None and frame == "map" and tf:
        # the map-frame rendering of the ego-relative point under the registered pose: (c, s) = (3/5, 4/5)
        pos = [0.6 * x - 0.8 * y + 1000.0, 0.8 * x + 0.6 * y + 2000.0, 0.0]
    elif pos is not None and frame == "map":
        pos = [x + 1000.0, y - 500.0, 0.0]
    fam = "TrafficLightLabel" if False else "AutowareLabel"
    obj = {"id": 1, "dim": "2d" if is2d else "3d", "frame": frame, "label": label, "name": member.lower(),
           "attrs": ["parked"] if pick("attr_hit", False) else [], "score": score, "pc": None if is2d else pc,
           "uuid": "u0", "pos": pos}
    return {"kind": "objects", "dim": obj["dim"], "mode": "table-witness", "tf": tf, "params": P, "is_gt": bool(is_gt),
            "objects": [obj], "wider": None}


def witness_cases(max_cases=400):
    """concrete cases realising the valuations on which table and model differ (first: the plain realisation, then
    variants that vary the atoms the valuation leaves open / cannot name)"""
    import json
    import random

    out, seen = [], set()
    diffs = table_disagreements()
    for k, (asg, code_r, model_r) in enumerate(diffs):
        for variant in range(0, 6):
            try:
                c = realise(asg, random.Random(1000 * k + variant), variant)
            except Exception:
                c = None
            if c is None:
                continue
            key = json.dumps(c, sort_keys=True)
            if key in seen:
                continue
            seen.add(key)
            c["table_witness"] = {"valuation": {a: (o if isinstance(o, str) else bool(o)) for a, o in asg.items()},
                                  "code_table": code_r, "model": model_r}
            out.append(c)
            if len(out) >= max_cases:
                return out
    return out


if __name__ == "__main__":
    t, info = tabulate()
    st = dt.tree_stats(t)
    print(info, st["leaves"], st["nodes"], len(st["atoms"]))
    for a in st["atoms"]:
        print("  ", a, "" if (a in B_CODE or a in C_CODE) else "   <-- not in registry")
