"""Several small decision tables in ONE generated Lean file (shared by harness/dt_c12.py, dt_c11.py, dt_c19.py).

Everything generic is `harness/dtable.py` (stubs, DFS over decisions, tree reduction, `emit_lean`, `diff_trees`) and
`lean/PEval/Model/DTree.lean` (`DTree`, `eval`, `agree`, `agree_sound`); this module only
  * runs one exploration per *shape* (a small instance size of the function under test) and catches everything, so that
    a shape the abstraction cannot follow becomes `tree := none` (the `untranslatable` marker), never a failed run;
  * concatenates the per-shape namespaces `PEval.Gen.<File>.<Shape>` produced by `dtable.emit_lean` and appends
    `tables : List (Nat × Nat × Option DTree)` (shape key, tree) -- the list the per-run theorem quantifies over;
  * results that are neither Booleans nor exceptions are natural numbers with a FIXED meaning shared with the Lean model
    (`other:<n>` -> `.other n`): `IntNames`.
"""
from __future__ import annotations

import time
from typing import Any, Callable, Dict, List, Optional, Sequence, Tuple

from . import dtable as dt


class IntNames(dict):
    """`other_code` of dtable.emit_lean: the result `other:<n>` has the code n"""

    def __contains__(self, k):
        return isinstance(k, str) and k.isdigit()

    def __getitem__(self, k):
        return int(k)


def result_of(val, exc) -> str:
    """the canonical result string of a run whose return value is already a code (int), a bool, or an exception"""
    if exc is not None:
        if type(exc).__name__ == "Leak":  # e.g. harness.dt_c17.Leak (an Exception): an abstraction leak is never a result
            raise dt.Leak(str(exc))
        return "raise:" + type(exc).__name__
    if val is True or val is False:
        return "ret:" + str(val)
    if isinstance(val, int) and val >= 0:
        return "other:" + str(val)
    raise dt.Leak(f"result {val!r} is outside the result vocabulary")


def tabulate(run: Callable[[], Any], max_paths=20000):
    """(tree, info) -- raises what the exploration raises"""
    t0 = time.time()
    paths = dt.explore(run, result_of, max_paths=max_paths)
    tree = dt.reduce_tree(dt.build_tree(paths))
    st = dt.tree_stats(tree)
    return tree, {"paths": len(paths), "paths_reduced": st["leaves"], "atoms": len(st["atoms"]),
                  "seconds": round(time.time() - t0, 3)}


def tabulate_shapes(shapes: Sequence[Tuple[str, int, int, Callable[[], Any]]], state: Dict[str, Any]):
    """shapes = [(name, key1, key2, run)] -> state['trees'][name] = tree | None, state['untranslatable'][name] = reason"""
    state.setdefault("trees", {})
    state.setdefault("untranslatable", {})
    state.setdefault("stats", {})
    for name, _k1, _k2, run in shapes:
        try:
            tree, info = tabulate(run)
            state["trees"][name] = tree
            state["stats"][name] = info
        except BaseException as e:  # noqa: BLE001 - Leak, TooLarge, whatever the stubs did not anticipate: marker, no alarm
            if isinstance(e, (KeyboardInterrupt, SystemExit)):
                raise
            state["trees"][name] = None
            state["untranslatable"][name] = f"{type(e).__name__}: {e}"[:300]


def emit(file_ns: str, header: str, shapes, state, b_code, c_code, exc_code, doc: str, extra: str = "") -> str:
    """text of the generated file: one namespace per shape + `tables`; `extra` = further generated defs (arithmetic kernels)"""
    txt = header + "import PEval.Model.DTree\n"
    txt += f"/-! {doc} -/\n"
    rows = []
    for name, k1, k2, _run in shapes:
        ns = f"{file_ns}.{name}"
        tree = state["trees"].get(name)
        if tree is None:
            part = dt.emit_untranslatable(ns, "", state["untranslatable"].get(name, "not tabulated"))
        else:
            part = dt.emit_lean(tree, ns, "", b_code, c_code, exc_code, info=f"shape {name}", other_code=IntNames())
        part = part.replace("import PEval.Model.DTree\n", "")
        txt += part + "\n"
        rows.append(f"({k1}, {k2}, {name}.tree)")
    txt += f"namespace {file_ns}\nopen PEval.DT\n"
    txt += "/-- (shape key 1, shape key 2, decision tree of the current source for that shape; none = untranslatable) -/\n"
    txt += "def tables : List (Nat × Nat × Option DTree) := [" + ", ".join(rows) + "]\n"
    txt += extra
    txt += f"end {file_ns}\n"
    return txt


def disagreements(state, model_of: Callable[[str], Any], names, limit=40, per_class=4):
    """[(shape, assignment, code result, model result)] where the code's table and the Python transcription of the model's
    skeleton differ (used only to FIND witnesses; proves nothing)"""
    out = []
    for name in names:
        tree = state.get("trees", {}).get(name)
        if tree is None:
            continue
        for asg, rc, rm in dt.diff_trees(tree, model_of(name), (), limit=limit, per_class=per_class):
            out.append((name, asg, rc, rm))
    return out


# lazily built model trees (children are thunks, as dtable.diff_trees accepts)

def askB(a, k):
    return ("b", a, lambda: k(False), lambda: k(True))


def askC(a, k):
    return ("c", a, lambda: k("lt"), lambda: k("eq"), lambda: k("gt"))


def leaf_code(n: int):
    return ("leaf", "other:" + str(n))


def leaf_raise(name: str):
    return ("leaf", "raise:" + name)
