"""Construction of REAL perception_eval objects for the harness (3-D objects, frames, configs,
managers), plus exact-rational poses.  Everything imports the working tree of /repo."""
from __future__ import annotations

import os

for _v in ("OMP_NUM_THREADS", "OPENBLAS_NUM_THREADS", "MKL_NUM_THREADS"):
    os.environ.setdefault(_v, "1")  # BLAS worker threads are pure overhead on 4x4 matrices

import logging
import math
import shutil
import tempfile
import warnings
from fractions import Fraction
from typing import Dict, List, Optional, Sequence, Tuple

warnings.filterwarnings("ignore")
logging.disable(logging.CRITICAL)

def _repo_root() -> str:
    r = os.environ.get("PEVAL_REPO") or "/repo"
    return r if os.path.isdir(os.path.join(r, "perception_eval")) else "/repo"


SAMPLE_DATA = os.path.join(_repo_root(), "perception_eval", "test", "sample_data")
_TMP_DIRS: List[str] = []


def rat_rot(t: Fraction) -> Tuple[Fraction, Fraction]:
    """rational point on the unit circle: (c, s) = ((1-t^2)/(1+t^2), 2t/(1+t^2))"""
    t = Fraction(t)
    d = 1 + t * t
    return (1 - t * t) / d, 2 * t / d


def yaw_of(c, s) -> float:
    return math.atan2(float(s), float(c))


def quat_yaw(yaw: float, sign: int = 1):
    from pyquaternion import Quaternion

    q = Quaternion(axis=[0, 0, 1], angle=yaw)
    return -q if sign < 0 else q


def label_of(name: str, family: str = "autoware"):
    from perception_eval.common.label import AutowareLabel, Label, TrafficLightLabel

    E = AutowareLabel if family == "autoware" else TrafficLightLabel
    m = E[name] if name in E.__members__ else E(name)
    return Label(m, m.value, [])


def mk_obj(x, y, yaw=0.0, label="CAR", score=0.9, frame="base_link", uuid=None, t=100, size=(2.0, 4.0, 1.5),
           z=0.0, pc=10, sign=1, velocity=(0.0, 0.0, 0.0), attributes=None):
    from perception_eval.common.object import DynamicObject
    from perception_eval.common.schema import FrameID
    from perception_eval.common.shape import Shape, ShapeType

    lab = label_of(label)
    if attributes:
        lab.attributes = list(attributes)
    return DynamicObject(
        t, FrameID.from_value(frame), (float(x), float(y), float(z)), quat_yaw(yaw, sign),
        Shape(ShapeType.BOUNDING_BOX, tuple(float(v) for v in size)), velocity, float(score), lab,
        uuid=uuid, pointcloud_num=pc,
    )


def ego2map(tx, ty, yaw, tz=0.0):
    from perception_eval.common.schema import FrameID
    from perception_eval.common.transform import HomogeneousMatrix

    return HomogeneousMatrix((float(tx), float(ty), float(tz)), quat_yaw(yaw), FrameID.BASE_LINK, FrameID.MAP)


def to_map(o, e2m):
    """the same physical object expressed in the map frame"""
    from perception_eval.common.object import DynamicObject
    from perception_eval.common.schema import FrameID

    p, r = e2m.transform(o.state.position, o.state.orientation)
    return DynamicObject(
        o.unix_time, FrameID.MAP, tuple(float(v) for v in p), r, o.state.shape, o.state.velocity,
        o.semantic_score, o.semantic_label, uuid=o.uuid, pointcloud_num=o.pointcloud_num,
    )


def give_history(transforms, e2m):
    """Give a TransformDict the history the library itself produces for interpolated frames
    (`deepcopy(before_frame)`, then `transforms[(BASE_LINK, MAP)] = interpolated pose`): it was built with a
    DIFFERENT ego pose, has answered a query in the inverse direction, and then had its ego pose replaced.
    A registry that keeps anything derived from the old pose (cached inverse, memoised answers) now gives
    wrong answers; a correct one behaves exactly like a freshly built registry."""
    from copy import deepcopy

    from perception_eval.common.schema import FrameID

    transforms.transform((FrameID.MAP, FrameID.BASE_LINK), (1.0, 2.0, 0.0))
    transforms.transform((FrameID.MAP, FrameID.BASE_LINK), (1.0, 2.0, 0.0), quat_yaw(0.25))
    t2 = deepcopy(transforms)
    t2[(FrameID.BASE_LINK, FrameID.MAP)] = e2m
    return t2


def decoy_pose(e2m):
    """an ego pose clearly different from `e2m` (other yaw, shifted by tens of metres)"""
    p = [float(v) for v in e2m.position]
    yaw = float(e2m.rotation.yaw_pitch_roll[0])
    return ego2map(p[0] + 37.5, p[1] - 61.25, yaw + 1.1, p[2])


def mk_frame(t, name, objs, e2m=None, history=False):
    from perception_eval.common.dataset import FrameGroundTruth

    if e2m is None:
        e2m = ego2map(0, 0, 0.0)
    if not history:
        return FrameGroundTruth(t, str(name), list(objs), transforms=[e2m])
    f = FrameGroundTruth(t, str(name), list(objs), transforms=[decoy_pose(e2m)])
    f.transforms = give_history(f.transforms, e2m)
    return f


def mk_transforms(e2m, history=False):
    from perception_eval.common.transform import TransformDict

    if not history:
        return TransformDict([e2m])
    return give_history(TransformDict([decoy_pose(e2m)]), e2m)


BASE_CFG = {
    "evaluation_task": "detection",
    "target_labels": ["car", "bicycle", "pedestrian", "motorbike"],
    "max_x_position": 100.0,
    "max_y_position": 100.0,
    "min_point_numbers": [0, 0, 0, 0],
    "label_prefix": "autoware",
    "merge_similar_labels": False,
    "allow_matching_unknown": True,
    "center_distance_thresholds": [[1.0, 1.0, 1.0, 1.0]],
    "plane_distance_thresholds": [2.0],
    "iou_2d_thresholds": [0.5],
    "iou_3d_thresholds": [0.5],
}


def mk_config(d: Optional[dict] = None, frame="base_link", **over):
    from perception_eval.config import PerceptionEvaluationConfig

    cfg = dict(BASE_CFG)
    if d:
        cfg.update(d)
    cfg.update(over)
    cfg = {k: v for k, v in cfg.items() if v is not None or k in ()}
    tmp = tempfile.mkdtemp(prefix="pev_")
    _TMP_DIRS.append(tmp)
    return PerceptionEvaluationConfig(dataset_paths=[SAMPLE_DATA], frame_id=frame, result_root_directory=tmp,
                                      evaluation_config_dict=cfg)


def mk_manager(d: Optional[dict] = None, frame="base_link", **over):
    from perception_eval.manager import PerceptionEvaluationManager

    return PerceptionEvaluationManager(mk_config(d, frame, **over))


def cleanup():
    while _TMP_DIRS:
        shutil.rmtree(_TMP_DIRS.pop(), ignore_errors=True)


def crit_cfg(cfg, labels, **kw):
    from perception_eval.evaluation.result.perception_frame_config import CriticalObjectFilterConfig

    return CriticalObjectFilterConfig(cfg, labels, **kw)


def pf_cfg(cfg, labels, thr):
    from perception_eval.evaluation.result.perception_frame_config import PerceptionPassFailConfig

    return PerceptionPassFailConfig(cfg, labels, matching_threshold_list=thr)


def maybe_history(frame_or_td, e2m, key):
    """deterministically (from `key`) give the registry of a frame / a TransformDict the history of
    `give_history`; returns the frame / registry to use"""
    import zlib

    from perception_eval.common.transform import TransformDict

    if zlib.crc32(repr(key).encode()) % 2:
        return frame_or_td
    td = give_history(TransformDict([decoy_pose(e2m)]), e2m)
    if isinstance(frame_or_td, TransformDict):
        return td
    frame_or_td.transforms = td
    return frame_or_td
