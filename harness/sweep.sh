#!/bin/bash
# sweep.sh <tier> <seed> [<seed> ...] : run every claimed check with the given seeds; summary lines only.
# Used for false-alarm sweeps (vp run -- ./harness/sweep.sh quick 1 2 3).
cd "$(dirname "$0")/.."
tier=$1; shift
[ -x lean/.lake/build/bin/pevaldriver ] || ./setup.sh >/dev/null 2>&1
for s in "$@"; do
  for c in $(python3 -c "import json;print(' '.join(x['property_id'] for x in json.load(open('MANIFEST.json'))['checks']))"); do
    VERIF_SEED=$s ./check $c --tier $tier 2>/dev/null | grep -E "^C[0-9]+ \[|VIOLATION" | cut -c1-260
  done
done
