"""Decision tables by exhaustive symbolic execution of REAL functions over their decision atoms.

An `Engine` runs a thunk (a call of a real function of the working tree on stub arguments) once per distinct
decision path.  Stubs ask the engine for the outcome of an *atom* (`engine.ask(atom, domain)`): inside the
recorded prefix the recorded outcome is replayed, beyond it the first outcome of the domain is taken and the
alternatives are queued (DFS over "decisions taken so far"), so the number of runs equals the number of paths.
Numeric values are `Sym`s: linear combinations of named terms; every comparison is answered from a three-valued
*order atom* `ord(x,y)` (lt / eq / gt), arithmetic yields new canonically named terms, anything else raises `Leak`.

A `Leak` (the code touched something outside the abstraction) makes the whole function `untranslatable`
(`Untranslatable` is raised by `Engine.explore`); an ordinary exception of the real code is a leaf ("raises X").
"""
from __future__ import annotations

from fractions import Fraction
from typing import Any, Callable, Dict, List, Optional, Sequence, Tuple

BOOL = (False, True)
ORD = ("lt", "eq", "gt")


class Leak(AttributeError, TypeError):
    """the code under execution touched something the stubs do not abstract"""


class Untranslatable(Exception):
    pass


_ENGINE: List["Engine"] = []
STUB_TYPE_NAMES = {"Sym"}  # a TypeError / AttributeError of the interpreter that names one of these is an abstraction leak too


def engine() -> "Engine":
    if not _ENGINE:
        raise Leak("no symbolic execution is active")
    return _ENGINE[-1]


class Engine:
    def __init__(self, max_paths: int = 20000) -> None:
        self.max_paths = max_paths
        self.prefix: List[Tuple[Any, Any]] = []
        self.trace: List[Tuple[Any, Any, tuple]] = []
        self.known: Dict[Any, Any] = {}
        self.leak: Optional[str] = None
        self.free = False  # construction mode: atoms answered with the first outcome, nothing recorded

    # ---- called by the stubs
    def ask(self, atom, domain=BOOL):
        if self.free:
            return domain[0]
        if atom in self.known:
            return self.known[atom]
        k = len(self.trace)
        if k < len(self.prefix):
            a, out = self.prefix[k]
            if a != atom:
                self.leak = f"non-deterministic decision order: expected {a}, got {atom}"
                raise Leak(self.leak)
        else:
            out = domain[0]
        self.trace.append((atom, out, tuple(domain)))
        self.known[atom] = out
        return out

    def leaked(self, why: str):
        if self.leak is None:
            self.leak = why
        return Leak(why)

    # ---- exploration
    def explore(self, thunk: Callable[[], Any], canon: Callable[[Any, Dict[Any, Any]], Any]) -> List[Tuple[list, tuple]]:
        """all paths of `thunk`: [(decisions [(atom, outcome)], ("ok", canonical result) | ("err", exception type name))]"""
        paths = []
        stack: List[List[Tuple[Any, Any]]] = [[]]
        _ENGINE.append(self)
        try:
            while stack:
                self.prefix = stack.pop()
                self.trace = []
                self.known = {}
                self.leak = None
                try:
                    r = thunk()
                    res = ("ok", canon(r, dict(self.known)))
                except Leak as e:
                    raise Untranslatable(self.leak or str(e))
                except RecursionError:
                    raise Untranslatable("recursion limit")
                except Exception as e:  # noqa: BLE001 - an exception of the real code is an outcome
                    if self.leak:
                        raise Untranslatable(self.leak)
                    if isinstance(e, (TypeError, AttributeError, NotImplementedError)) and any(f"'{n}'" in str(e) for n in STUB_TYPE_NAMES):
                        raise Untranslatable(f"{type(e).__name__}: {e}")
                    res = ("err", type(e).__name__)
                if self.leak:  # swallowed by the code under execution
                    raise Untranslatable(self.leak)
                if len(self.trace) < len(self.prefix):
                    raise Untranslatable("non-deterministic: a recorded decision was not asked again")
                dec = [(a, o) for a, o, _ in self.trace]
                for k in range(len(self.trace) - 1, len(self.prefix) - 1, -1):
                    a, o, dom = self.trace[k]
                    for alt in reversed(dom):
                        if alt != o:
                            stack.append(dec[:k] + [(a, alt)])
                paths.append((dec, res))
                if len(paths) > self.max_paths:
                    raise Untranslatable(f"more than {self.max_paths} paths")
        finally:
            _ENGINE.pop()
        return paths


# ----------------------------------------------------------------------------- trees

def build_tree(paths: Sequence[Tuple[list, tuple]], depth: int = 0):
    """("leaf", res) | ("node", atom, domain-ordered [(outcome, subtree)])"""
    if len(paths) == 1 and len(paths[0][0]) == depth:
        return ("leaf", paths[0][1])
    atom = paths[0][0][depth][0]
    groups: Dict[Any, list] = {}
    order = []
    for p in paths:
        if len(p[0]) <= depth or p[0][depth][0] != atom:
            raise Untranslatable("paths do not form a tree")
        o = p[0][depth][1]
        if o not in groups:
            groups[o] = []
            order.append(o)
        groups[o].append(p)
    return ("node", atom, [(o, build_tree(groups[o], depth + 1)) for o in order])


def eval_tree(tree, val: Callable[[Any], Any]):
    while tree[0] == "node":
        o = val(tree[1])
        for oo, sub in tree[2]:
            if oo == o:
                tree = sub
                break
        else:
            raise KeyError((tree[1], o))
    return tree[1]


def tree_paths(tree, acc=None):
    acc = acc or []
    if tree[0] == "leaf":
        yield list(acc), tree[1]
        return
    for o, sub in tree[2]:
        yield from tree_paths(sub, acc + [(tree[1], o)])


def count_leaves(tree) -> int:
    return 1 if tree[0] == "leaf" else sum(count_leaves(s) for _, s in tree[2])


# ----------------------------------------------------------------------------- symbolic numbers

def _cname(c: Fraction) -> str:
    if c.denominator == 1:
        return str(c.numerator)
    return f"{c.numerator}/{c.denominator}"


def _F(x) -> Optional[Fraction]:
    if isinstance(x, bool):
        return Fraction(int(x))
    if isinstance(x, int):
        return Fraction(x)
    if isinstance(x, float):
        if x != x or x in (float("inf"), float("-inf")):
            return None
        return Fraction(x)
    if isinstance(x, Fraction):
        return x
    return None


class Sym:
    """a linear combination  const + sum coeff * term  of named terms (exact rational coefficients)"""

    __slots__ = ("terms", "const")
    __array_priority__ = 1000

    def __init__(self, terms: Dict[str, Fraction], const: Fraction = Fraction(0)) -> None:
        self.terms = {k: v for k, v in terms.items() if v != 0}
        self.const = const

    @staticmethod
    def atom(name: str) -> "Sym":
        return Sym({name: Fraction(1)})

    # ---- naming
    def is_const(self) -> bool:
        return not self.terms

    def name(self) -> str:
        if not self.terms:
            return _cname(self.const)
        pos = sorted(k for k, v in self.terms.items() if v > 0)
        neg = sorted(k for k, v in self.terms.items() if v < 0)
        out = ""
        for k in pos + neg:
            v = self.terms[k]
            mag = abs(v)
            s = k if mag == 1 else f"{_cname(mag)}*{k}"
            out += ("-" if v < 0 else ("+" if out else "")) + s
        if self.const != 0:
            out += ("+" if self.const > 0 else "-") + _cname(abs(self.const))
        return out

    def multiset(self) -> Optional[List[str]]:
        """the terms with multiplicity if all coefficients are natural numbers (constant appended as a numeral)"""
        out = []
        for k in sorted(self.terms):
            v = self.terms[k]
            if v.denominator != 1 or v < 0:
                return None
            out.extend([k] * int(v))
        if self.const != 0:
            out.append(_cname(self.const))
        return out

    def __repr__(self) -> str:
        return f"Sym({self.name()})"

    # ---- arithmetic
    @staticmethod
    def _lift(x) -> Optional["Sym"]:
        if isinstance(x, Sym):
            return x
        f = _F(x)
        if f is None:
            return None
        return Sym({}, f)

    def _lin(self, other, sign):
        o = Sym._lift(other)
        if o is None:
            raise engine().leaked(f"arithmetic of {self.name()} with {other!r}")
        t = dict(self.terms)
        for k, v in o.terms.items():
            t[k] = t.get(k, Fraction(0)) + sign * v
        return Sym(t, self.const + sign * o.const)

    def __add__(self, other):
        return self._lin(other, 1)

    __radd__ = __add__

    def __sub__(self, other):
        return self._lin(other, -1)

    def __rsub__(self, other):
        return (-self)._lin(other, 1)

    def __neg__(self):
        return Sym({k: -v for k, v in self.terms.items()}, -self.const)

    def __pos__(self):
        return self

    def _paren(self) -> str:
        n = self.name()
        return n if (len(self.terms) == 1 and self.const == 0 and list(self.terms.values())[0] == 1) or not self.terms else f"({n})"

    def __mul__(self, other):
        o = Sym._lift(other)
        if o is None:
            raise engine().leaked(f"product of {self.name()} with {other!r}")
        if o.is_const():
            return Sym({k: v * o.const for k, v in self.terms.items()}, self.const * o.const)
        if self.is_const():
            return o * self
        a, b = sorted([self._paren(), o._paren()])
        return Sym.atom(f"{a}*{b}")

    __rmul__ = __mul__

    def __truediv__(self, other):
        o = Sym._lift(other)
        if o is None:
            raise engine().leaked(f"quotient of {self.name()} by {other!r}")
        if o.is_const():
            if o.const == 0:
                raise ZeroDivisionError("float division by zero")
            return self * (1 / o.const)
        # dividing by a term that the path has decided to be zero is Python's ZeroDivisionError
        if engine().known.get(_ord_key(o.name(), "0")[0]) == "eq":
            raise ZeroDivisionError("float division by zero")
        return Sym.atom(f"{self._paren()}/{o._paren()}")

    def __rtruediv__(self, other):
        o = Sym._lift(other)
        if o is None:
            raise engine().leaked(f"quotient of {other!r} by {self.name()}")
        return o.__truediv__(self)

    def __abs__(self):
        return Sym.atom(f"abs({self.name()})")

    # ---- comparisons: one order atom per unordered pair of canonical names
    def _cmp(self, other) -> str:
        o = Sym._lift(other)
        if o is None:
            if isinstance(other, float):  # inf / -inf / nan
                if other == float("inf"):
                    return "lt"
                if other == float("-inf"):
                    return "gt"
            raise engine().leaked(f"comparison of {self.name()} with {other!r}")
        d = self - o
        if d.is_const():
            return "lt" if d.const < 0 else "eq" if d.const == 0 else "gt"
        key, flip = _ord_key(self.name(), o.name())
        out = engine().ask(key, ORD)
        if flip:
            out = {"lt": "gt", "gt": "lt", "eq": "eq"}[out]
        return out

    def __lt__(self, other):
        return self._cmp(other) == "lt"

    def __le__(self, other):
        return self._cmp(other) != "gt"

    def __gt__(self, other):
        return self._cmp(other) == "gt"

    def __ge__(self, other):
        return self._cmp(other) != "lt"

    def __eq__(self, other):
        if other is None:
            return False
        return self._cmp(other) == "eq"

    def __ne__(self, other):
        if other is None:
            return True
        return self._cmp(other) != "eq"

    def __bool__(self):
        return self._cmp(0) != "eq"

    def _no(self, what):
        raise engine().leaked(f"{what} of the symbolic value {self.name()}")

    def __hash__(self):
        self._no("hash")

    def __float__(self):
        self._no("float()")

    def __int__(self):
        self._no("int()")

    def __index__(self):
        self._no("index")

    def __round__(self, n=None):
        self._no("round()")

    def __pow__(self, other):
        self._no("power")

    def __floordiv__(self, other):
        self._no("floor division")

    def __mod__(self, other):
        self._no("modulo")

    def __array__(self, *a, **k):
        self._no("numpy conversion")


def _ord_key(a: str, b: str):
    """canonical order atom of the pair {a, b}: constants last; (key, flipped)"""
    def isnum(s):
        try:
            Fraction(s)
            return True
        except (ValueError, ZeroDivisionError):
            return False

    ka, kb = (isnum(a), a), (isnum(b), b)
    if ka <= kb:
        return ("ord", a, b), False
    return ("ord", b, a), True


def canon_num(x, known: Dict[Any, Any]) -> str:
    """canonical name of a numeric result on a path: a term the path has decided to equal a constant is that constant"""
    if isinstance(x, Sym):
        n = x.name()
        for (k, o) in known.items():
            if isinstance(k, tuple) and k and k[0] == "ord" and o == "eq" and k[1] == n:
                try:
                    Fraction(k[2])
                    return k[2]
                except (ValueError, ZeroDivisionError):
                    pass
        return n
    if isinstance(x, bool):
        return str(int(x))
    if isinstance(x, (int, float)):
        if x == float("inf"):
            return "inf"
        if x == float("-inf"):
            return "-inf"
        if x != x:
            return "nan"
        return _cname(Fraction(x))
    raise Leak(f"result {x!r} is not a number")
