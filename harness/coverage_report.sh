#!/bin/bash
# coverage_report.sh [tier] : statement coverage of /repo's package by the real-code side of all 20 checks
# (which parts of the implementation the correspondence/oracle runs actually execute). Not a check; writes
# notes/coverage_<tier>.txt. Uses coverage.py from /venv. Scratch data under /tmp/cov (removed afterwards).
tier=${1:-quick}; d=/tmp/cov_$$; mkdir -p $d; cd "$(dirname "$0")/.."
(for i in $(seq -w 1 20); do echo C$i; done) | xargs -P 4 -I{} sh -c "PYTHONPATH=/repo/perception_eval /venv/bin/python -W ignore -m coverage run --data-file=$d/.cov.{} --source=/repo/perception_eval/perception_eval -m harness.run_check {} --tier $tier > $d/{}.log 2>&1; echo {} exit=\$?"
/venv/bin/python -m coverage combine --data-file=$d/.coverage $d/.cov.C* >/dev/null
/venv/bin/python -m coverage report --data-file=$d/.coverage -m --sort=cover | sed 's#/repo/perception_eval/perception_eval/##' > notes/coverage_$tier.txt
tail -1 notes/coverage_$tier.txt; rm -rf $d
