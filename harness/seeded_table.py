"""Print the markdown table of seeded changes (seeded/*/meta.json + seeded/RESULTS.json) for DESIGN.md."""
import json
from pathlib import Path

import sys

V = Path(__file__).resolve().parent.parent
R = json.loads((V / "seeded" / "RESULTS.json").read_text())


def compact():
    """one row per property, one column per variant: verdict of the property's own check (+ = caught with a concrete
    failing input, p = caught by a broken proof/correspondence only, MISS), other catching checks in brackets"""
    print("| property | " + " | ".join("ABCDEFGJ") + " |")
    print("|---|" + "---|" * 8)
    for i in range(1, 21):
        own = f"C{i:02d}"
        cells = []
        for v in "ABCDEFGJ":
            r = R.get(f"{own}_{v}")
            if not r or not r.get("verified"):
                cells.append("–"); continue
            cs = r.get("checks", {})
            x = cs.get(own)
            c = "not run" if not x else ("MISS" if not x["caught"] else ("p" if x.get("no_failing_input") else "+"))
            oth = [k for k in sorted(cs) if k != own and cs[k]["caught"]]
            cells.append(c + (f" [{','.join(oth)}]" if oth else ""))
        print(f"| {own} | " + " | ".join(cells) + " |")


if "--compact" in sys.argv:
    compact(); sys.exit(0)
print("| seed | what was changed (independent sub-agent, property text only) | needs to manifest | own check | other checks that also catch it |")
print("|---|---|---|---|---|")
for k in sorted(R):
    d = V / "seeded" / k
    if not (d / "meta.json").exists() or not R[k].get("verified"):
        continue
    m = json.loads((d / "meta.json").read_text())
    own = k[:3]
    cs = R[k].get("checks", {})

    def verdict(c):
        x = cs.get(c)
        if not x:
            return "not run"
        if x["caught"]:
            return "caught" + (" (no failing input: correspondence/proof only)" if x.get("no_failing_input") else "")
        return "MISSED"

    others = ", ".join(f"{c}: {verdict(c)}" for c in sorted(cs) if c != own and cs[c]["caught"])
    summ = " ".join(str(m.get("summary") or "").split())[:230]
    need = " ".join(str(m.get("needs_to_manifest") or "").split())[:170]
    print(f"| {k} | {summ} | {need} | {verdict(own)} | {others or '—'} |")
