"""Print the markdown table of seeded changes (seeded/*/meta.json + seeded/RESULTS.json) for DESIGN.md."""
import json
from pathlib import Path

V = Path(__file__).resolve().parent.parent
R = json.loads((V / "seeded" / "RESULTS.json").read_text())
print("| seed | what was changed (independent sub-agent, property text only) | needs to manifest | own check | other checks that also catch it |")
print("|---|---|---|---|---|")
for k in sorted(R):
    d = V / "seeded" / k
    if not (d / "meta.json").exists() or not R[k].get("verified"):
        continue
    m = json.loads((d / "meta.json").read_text())
    own = k[:3]
    cs = R[k].get("checks", {})

    def verdict(c):
        x = cs.get(c)
        if not x:
            return "not run"
        if x["caught"]:
            return "caught" + (" (no failing input: correspondence/proof only)" if x.get("no_failing_input") else "")
        return "MISSED"

    others = ", ".join(f"{c}: {verdict(c)}" for c in sorted(cs) if c != own and cs[c]["caught"])
    summ = " ".join(str(m.get("summary") or "").split())[:230]
    need = " ".join(str(m.get("needs_to_manifest") or "").split())[:170]
    print(f"| {k} | {summ} | {need} | {verdict(own)} | {others or '—'} |")
