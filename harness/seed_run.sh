#!/bin/bash
# seed_run.sh <prop> <A|B> <check> [<check> ...] : run checks against a seeded change WITHOUT touching /repo:
# scratch worktree of /repo HEAD + patch, scratch copy of /verif (with its build cache), PEVAL_REPO override.
prop=$1; v=$2; shift 2
out=/tmp/s/${prop}_out; [ -f /verif/seeded/${prop}_$v/patch.diff ] && pf=/verif/seeded/${prop}_$v/patch.diff || pf=$out/patch_$v.diff
wt=/tmp/v/run_${prop}_${v}_$$; vc=/tmp/vm/${prop}_${v}_$$
rm -rf $wt $vc; mkdir -p /tmp/v /tmp/vm
git -C /repo worktree add -q --detach $wt HEAD || exit 2
git -C $wt apply $pf || { echo "patch does not apply"; exit 2; }
rsync -a --exclude .git --exclude replays ${VERIF_SRC:-/verif}/ $vc/
cd $vc
for c in "$@"; do
  PEVAL_REPO=$wt timeout 1500 ./check $c --tier quick > $vc/out_$c.log 2>/dev/null; rc=$?
  tb=$(python3 -c "
import json,sys
try:
    b=json.load(open('$vc/evidence/$c.json'))['coverage'].get('branches',{})
    print(','.join(sorted(k for k in b if k.startswith('table:'))))
except Exception: pass" 2>/dev/null)
  echo "SEED ${prop}_$v check=$c exit=$rc tables=[$tb] :: $(grep -E "VIOLATION|KNOWN" $vc/out_$c.log | head -2 | tr '\n' ' ') :: $(grep -E "^C[0-9]+ \[" $vc/out_$c.log | sed 's/.*discharged; //' | cut -c1-160)"
  if [ $rc -eq 1 ]; then rp=$(grep -oE "replay=[^ ]+" $vc/out_$c.log | head -1 | cut -d= -f2); [ -n "$rp" ] && python3 -c "
import json,sys
d=json.load(open('$vc/$rp')); print('   replay:', d.get('kind'), '|', str(d.get('why') or d.get('broken',{}).get('lean'))[:300])"; fi
done
cd /; git -C /repo worktree remove --force $wt; rm -rf $vc
