#!/bin/bash
# seed_verify.sh <prop> <A|B> : confirm a seeded change delivered in /tmp/s/<prop>_out
#  (1) patch applies on a clean scratch worktree of /repo HEAD, (2) demo exits 0 without / non-zero with the change,
#  (3) the pinned suite still passes with the change.  Prints a one-line summary; leaves nothing behind.
prop=$1; v=$2; out=/tmp/s/${prop}_out; wt=/tmp/v/${prop}_$v
rm -rf $wt; mkdir -p /tmp/v; git -C /repo worktree add -q --detach $wt HEAD || exit 2
export PYTHONPATH=$wt/perception_eval
cd $wt
/venv/bin/python -W ignore $out/demo_$v.py >/tmp/v/${prop}_$v.demo0.log 2>&1; d0=$?
git apply $out/patch_$v.diff; ap=$?
/venv/bin/python -W ignore $out/demo_$v.py >/tmp/v/${prop}_$v.demo1.log 2>&1; d1=$?
if [ "$3" != "nosuite" ]; then
  /venv/bin/python -m pytest -q -p no:cacheprovider --timeout=900 perception_eval/test >/tmp/v/${prop}_$v.suite.log 2>&1; su=$?
  res=$(tail -1 /tmp/v/${prop}_$v.suite.log)
else su=skipped; res=skipped; fi
echo "$prop $v: apply=$ap demo_unchanged=$d0 demo_changed=$d1 suite_exit=$su [$res]"
cd /; git -C /repo worktree remove --force $wt
