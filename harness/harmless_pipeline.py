"""Behaviour-preserving refactorings (delivered by independent sub-agents in /tmp/s/Cxx_out as patch_H1/H2.diff):
confirm them (harmless_verify.sh), store them under seeded/Cxx_H?/ and run the checks against them. A check that
reports a violation on a confirmed refactoring is a FALSE ALARM of the machinery.  Results: seeded/HARMLESS.json"""
import json, os, shutil, subprocess, sys
from concurrent.futures import ThreadPoolExecutor
from pathlib import Path

V = Path(__file__).resolve().parent.parent
SEEDED = V / "seeded"
RES = SEEDED / "HARMLESS.json"
sys.path.insert(0, str(V / "harness"))
from seed_pipeline import RELATED, have_check, run  # noqa


def load():
    return json.loads(RES.read_text()) if RES.exists() else {}


def save(r):
    tmp = RES.with_suffix(".tmp"); tmp.write_text(json.dumps(r, indent=1, sort_keys=True)); os.replace(tmp, RES)


def process(item):
    prop, v = item
    key = f"{prop}_{v}"
    r = load().get(key, {})
    out = Path(f"/tmp/s/waveH/{prop}_out") if v in ("H1", "H2") else Path(f"/tmp/s/{prop}_out")
    if "verified" not in r:
        if not (out / f"patch_{v}.diff").exists():
            return key, None
        p = subprocess.run([str(V / "harness" / "harmless_verify.sh"), prop, v], capture_output=True, text=True)
        line = ([l for l in p.stdout.splitlines() if l.startswith(prop)] or [p.stdout[-300:]])[-1]
        ok = "apply=0" in line and "equiv_runs=0/0" in line and "identical=0" in line and "suite_exit=0" in line
        r = {"verified": ok, "verify_line": line}
        if ok:
            d = SEEDED / key; d.mkdir(parents=True, exist_ok=True)
            shutil.copy(out / f"patch_{v}.diff", d / "patch.diff"); shutil.copy(out / f"equiv_{v}.py", d / "equiv.py")
            meta = {}
            try:
                for ch in json.loads((out / ("meta_h.json" if v in ("H1", "H2") else "meta_h2.json")).read_text()).get("changes", []):
                    if ch.get("name") == v: meta = ch
            except Exception: pass
            (d / "meta.json").write_text(json.dumps({"property": prop, "change": v, "kind": "behaviour-preserving refactoring",
                "summary": meta.get("summary"), "files": meta.get("files"), "verification_line": line}, indent=1))
    if r.get("verified"):
        checks = [c for c in RELATED[prop] if have_check(c) and c not in r.get("checks", {})]
        if checks:
            r.setdefault("checks", {}).update(run(prop, v, checks))
    return key, r


def main():
    items = [(f"C{i:02d}", v) for i in range(1, 21) for v in ("H1", "H2", "H3", "H4")]
    if "refresh" in sys.argv:  # refresh Cxx ...: re-run the stored refactorings of these properties with the current checks
        props = [a for a in sys.argv[1:] if a.startswith("C") and len(a) == 3]
        res = load()
        for prop, v in items:
            r = res.get(f"{prop}_{v}")
            if prop in props and r and r.get("verified") and "checks" in r:
                r.setdefault("runs_before_refresh", []).append(r.pop("checks"))
        save(res)
        items = [it for it in items if it[0] in props]
    j = int(sys.argv[sys.argv.index("-j") + 1]) if "-j" in sys.argv else 3
    with ThreadPoolExecutor(j) as ex:
        for key, r in ex.map(process, items):
            if r is None: continue
            res = load(); res[key] = r; save(res)
            print(key, "verified" if r.get("verified") else "NOT-VERIFIED:" + r.get("verify_line", "")[:120],
                  {c: ("ALARM" if x["exit"] == 1 else f"quiet(exit{x['exit']})") for c, x in r.get("checks", {}).items()}, flush=True)


if __name__ == "__main__":
    main()
