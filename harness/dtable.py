"""Decision tables extracted from the real code by exhaustive symbolic execution over its decision atoms.

Generic part (nothing here knows a particular function):

* `Oracle` / `explore(run)`  -- depth-first search over "decisions taken so far": the function under test is re-run
  with a recorded decision prefix; every atom that is *actually queried* on a path is branched on (two outcomes for
  Boolean atoms, three for order atoms), so the number of runs is the number of distinct paths.
* `Stub`  -- base class of symbolic inputs: every protocol method that is not explicitly provided raises `Leak`
  (a BaseException, so the code under test cannot swallow it); a leak makes the function *untranslatable*.
* `Sym`  -- symbolic numbers: comparisons are answered from one order atom per unordered pair of canonical term
  names (`lt`/`eq`/`gt`, so `<` and `<=` differ exactly on `eq`); `abs` and arithmetic yield new named terms.
* `instrument(modnames)`  -- identity tests cannot be intercepted by an object (`x is None` never calls into `x`), so
  the modules under test are re-compiled from their CURRENT source with the single rewrite `a is b` -> `__dt_is__(a, b)`
  (`a is not b` -> `not __dt_is__(a, b)`); `__dt_is__` is `a is b` unless an operand is a stub that knows how to answer.
  Everything else of the source is executed as it stands. A profile hook notices calls into perception_eval code that
  was not instrumented while a stub is among the arguments: that module is added and the exploration restarted.
* trees: `build_tree(paths)`, `eval_tree`, `diff_trees` (first valuation on which two trees differ, honouring a list of
  forbidden conjunctions), `emit_lean` (hash-consed DAG of `def`s evaluable by `PEval.DT.eval`).
"""
from __future__ import annotations

import ast
import importlib
import inspect
import math
import sys
import types
from typing import Any, Callable, Dict, List, Optional, Sequence, Tuple

B_OUT = (False, True)
C_OUT = ("lt", "eq", "gt")


class Leak(BaseException):
    """the code touched something outside the abstraction"""


class TooLarge(BaseException):
    pass


# ----------------------------------------------------------------------------- oracle + DFS

class Oracle:
    def __init__(self, prefix: Sequence[Tuple[str, str, Any]]):
        self.prefix = list(prefix)
        self.trace: List[Tuple[str, str, Any]] = []
        self.memo: Dict[str, Any] = {}

    def ask(self, atom: str, kind: str):
        if atom in self.memo:
            return self.memo[atom]
        i = len(self.trace)
        if i < len(self.prefix):
            a, k, o = self.prefix[i]
            if a != atom or k != kind:
                raise Leak(f"non-deterministic exploration: expected atom {a}, code asked {atom}")
        else:
            o = B_OUT[0] if kind == "b" else C_OUT[0]
        self.trace.append((atom, kind, o))
        self.memo[atom] = o
        return o

    def b(self, atom: str) -> bool:
        return self.ask(atom, "b")

    def c(self, atom: str) -> str:
        return self.ask(atom, "c")


CUR: List[Optional[Oracle]] = [None]


def oracle() -> Oracle:
    o = CUR[0]
    if o is None:
        raise Leak("a symbolic input was used outside an exploration")
    return o


def explore(run: Callable[[], Any], result_of: Callable[[Any, Optional[BaseException]], str], max_paths: int = 200000,
            prune: Optional[Callable[[List[Tuple[str, str, Any]]], bool]] = None):
    """all paths of `run` (a thunk that builds fresh symbolic inputs and calls the function).
    Returns a list of (decisions, result) with decisions = [(atom, kind, outcome), ...].
    `prune(decisions)` -> True cuts a branch whose decisions are jointly unrealisable (result '#unreachable')."""
    paths = []
    stack: List[List[Tuple[str, str, Any]]] = [[]]
    while stack:
        prefix = stack.pop()
        if prune is not None and prefix and prune(prefix):
            paths.append((prefix, "#unreachable"))
            continue
        orc = Oracle(prefix)
        CUR[0] = orc
        try:
            try:
                val = run()
                res = result_of(val, None)
            except Leak:
                raise
            except Exception as e:  # an exception of the code under test is a result
                res = result_of(None, e)
        finally:
            CUR[0] = None
        tr = orc.trace
        if len(tr) < len(prefix):
            raise Leak("non-deterministic exploration: a recorded decision was not reached again")
        paths.append((list(tr), res))
        if len(paths) > max_paths:
            raise TooLarge(f"more than {max_paths} paths")
        for i in range(len(tr) - 1, len(prefix) - 1, -1):
            a, k, o = tr[i]
            outs = B_OUT if k == "b" else C_OUT
            for alt in outs[1:]:
                stack.append(tr[:i] + [(a, k, alt)])
    return paths


# ----------------------------------------------------------------------------- stubs

_DUNDERS = """
__len__ __iter__ __next__ __getitem__ __setitem__ __delitem__ __contains__ __bool__ __call__ __hash__
__int__ __float__ __index__ __complex__ __round__ __trunc__ __floor__ __ceil__ __str__ __format__ __bytes__
__add__ __radd__ __sub__ __rsub__ __mul__ __rmul__ __truediv__ __rtruediv__ __floordiv__ __rfloordiv__ __mod__ __rmod__
__pow__ __rpow__ __neg__ __pos__ __abs__ __invert__ __and__ __rand__ __or__ __ror__ __xor__ __rxor__
__lshift__ __rshift__ __matmul__ __rmatmul__ __divmod__ __rdivmod__
__iadd__ __isub__ __imul__ __itruediv__
__lt__ __le__ __gt__ __ge__ __eq__ __ne__
__enter__ __exit__ __reversed__ __array__ __array_function__ __array_ufunc__ __copy__ __deepcopy__ __reduce__ __reduce_ex__
""".split()


def _leaker(name):
    def f(self, *a, **k):
        raise Leak(f"{type(self).__name__}({getattr(self, '_dt_name', '?')}).{name} is outside the abstraction")

    f.__name__ = name
    return f


class Stub:
    """a symbolic input: whatever is not explicitly provided raises Leak"""

    _dt_name = "?"

    def __getattr__(self, name):
        raise Leak(f"{type(self).__name__}({self.__dict__.get('_dt_name', '?')}).{name} is outside the abstraction")

    def __repr__(self):
        return f"<{type(self).__name__} {self._dt_name}>"


for _n in _DUNDERS:
    setattr(Stub, _n, _leaker(_n))


def fmt_num(x) -> str:
    """canonical name of a numeric constant (0, 0.0 and False-free ints coincide)"""
    if isinstance(x, bool):
        raise Leak("a bool was used as a number")
    try:
        f = float(x)
    except Exception:
        raise Leak(f"cannot name constant {x!r}")
    if math.isnan(f):
        return "nan"
    if math.isinf(f):
        return "inf" if f > 0 else "-inf"
    if f == int(f):
        return str(int(f))
    return repr(f)


def cmp_atom(a: str, b: str) -> Tuple[str, bool]:
    """canonical order atom of an unordered pair of term names; flipped = the pair was swapped"""
    if a <= b:
        return f"cmp({a}|{b})", False
    return f"cmp({b}|{a})", True


_FLIP = {"lt": "gt", "eq": "eq", "gt": "lt"}


class Sym(Stub):
    """a symbolic real number named by a canonical term; `nan=True`: every comparison is False"""

    def __init__(self, name: str, nan: bool = False):
        self.__dict__["_dt_name"] = name
        self.__dict__["_dt_nan"] = nan

    # -- naming of the other operand
    @staticmethod
    def _term(x) -> Optional[str]:
        if isinstance(x, Sym):
            return x._dt_name
        if isinstance(x, (int, float)) and not isinstance(x, bool):
            return fmt_num(x)
        try:
            import numpy as np

            if isinstance(x, np.generic) and not isinstance(x, np.bool_):
                return fmt_num(x)
        except Exception:
            pass
        return None

    def _rel(self, other) -> Optional[str]:
        """lt/eq/gt of self against other; None when a NaN is involved"""
        if other is None:
            raise TypeError("'<' not supported between instances of 'float' and 'NoneType'")
        t = self._term(other)
        if t is None:
            raise Leak(f"comparison of {self._dt_name} with {type(other).__name__}")
        if self._dt_nan or (isinstance(other, Sym) and other._dt_nan) or t == "nan":
            return None
        if t == self._dt_name:
            return "eq"
        atom, flipped = cmp_atom(self._dt_name, t)
        o = oracle().c(atom)
        return _FLIP[o] if flipped else o

    def __lt__(self, o):
        return self._rel(o) == "lt"

    def __le__(self, o):
        return self._rel(o) in ("lt", "eq")

    def __gt__(self, o):
        return self._rel(o) == "gt"

    def __ge__(self, o):
        return self._rel(o) in ("gt", "eq")

    def __eq__(self, o):
        if o is None:
            return False
        return self._rel(o) == "eq"

    def __ne__(self, o):
        if o is None:
            return True
        r = self._rel(o)
        return r is None or r != "eq"

    __hash__ = None  # type: ignore

    # -- arithmetic: new named terms
    def __abs__(self):
        return Sym(f"abs({self._dt_name})", self._dt_nan)

    def __neg__(self):
        return Sym(f"neg({self._dt_name})", self._dt_nan)

    def __pos__(self):
        return self

    def _bin(self, op, other, swap=False):
        t = self._term(other)
        if t is None:
            raise Leak(f"arithmetic of {self._dt_name} with {type(other).__name__}")
        a, b = (t, self._dt_name) if swap else (self._dt_name, t)
        if op in ("add", "mul") and b < a:
            a, b = b, a
        return Sym(f"{op}({a},{b})", self._dt_nan or (isinstance(other, Sym) and other._dt_nan))

    def __add__(self, o):
        return self._bin("add", o)

    def __radd__(self, o):
        return self._bin("add", o, True)

    def __sub__(self, o):
        return self._bin("sub", o)

    def __rsub__(self, o):
        return self._bin("sub", o, True)

    def __mul__(self, o):
        return self._bin("mul", o)

    def __rmul__(self, o):
        return self._bin("mul", o, True)

    def __truediv__(self, o):
        return self._bin("div", o)

    def __rtruediv__(self, o):
        return self._bin("div", o, True)


class SymBool(Stub):
    """a symbolic bool (e.g. the flag `is_gt`): truthiness and `is True/False` are answered from one atom"""

    def __init__(self, atom: str):
        self.__dict__["_dt_name"] = atom

    def __bool__(self):
        return oracle().b(self._dt_name)

    def _dt_is(self, other):
        if other is True or other is False:
            return oracle().b(self._dt_name) is other
        if other is None:
            return False
        raise Leak(f"identity test of {self._dt_name} with {other!r}")

    def __eq__(self, other):
        if other is True or other is False:
            return oracle().b(self._dt_name) == other
        raise Leak(f"== of {self._dt_name} with {other!r}")

    def __ne__(self, other):
        return not self.__eq__(other)

    __hash__ = None  # type: ignore


def dt_is(a, b) -> bool:
    """`a is b` for the instrumented source"""
    f = getattr(type(a), "_dt_is", None)
    if f is not None:
        return f(a, b)
    g = getattr(type(b), "_dt_is", None)
    if g is not None:
        return g(b, a)
    return a is b


# ----------------------------------------------------------------------------- instrumentation (`is` only)

class _IsRewriter(ast.NodeTransformer):
    def visit_Compare(self, node: ast.Compare):
        self.generic_visit(node)
        if not any(isinstance(op, (ast.Is, ast.IsNot)) for op in node.ops):
            return node
        if len(node.ops) != 1:
            raise Leak("chained comparison containing `is`")
        call = ast.Call(func=ast.Name(id="__dt_is__", ctx=ast.Load()), args=[node.left, node.comparators[0]], keywords=[])
        if isinstance(node.ops[0], ast.IsNot):
            return ast.copy_location(ast.UnaryOp(op=ast.Not(), operand=call), node)
        return ast.copy_location(call, node)


TAG = "<dt-instrumented:"


def instrument(modnames: Sequence[str]) -> Dict[str, types.ModuleType]:
    """fresh copies of the modules, compiled from their current source with `is` routed through `dt_is`; references
    between the copies (functions / classes imported from one another) are redirected to the copies"""
    copies: Dict[str, types.ModuleType] = {}
    for mn in modnames:
        real = importlib.import_module(mn)
        src = inspect.getsource(real)
        tree = _IsRewriter().visit(ast.parse(src))
        ast.fix_missing_locations(tree)
        code = compile(tree, TAG + mn + ">", "exec")
        m = types.ModuleType(mn)
        m.__dict__["__file__"] = getattr(real, "__file__", None)
        m.__dict__["__package__"] = real.__package__
        m.__dict__["__dt_is__"] = dt_is
        exec(code, m.__dict__)
        copies[mn] = m
    for m in copies.values():
        for k, v in list(m.__dict__.items()):
            src_mod = getattr(v, "__module__", None)
            if src_mod in copies and copies[src_mod] is not m and isinstance(v, (types.FunctionType, type)):
                nm = getattr(v, "__name__", None)
                if nm and nm in copies[src_mod].__dict__:
                    m.__dict__[k] = copies[src_mod].__dict__[nm]
    return copies


class Uninstrumented(BaseException):
    def __init__(self, modname):
        self.modname = modname


class Guard:
    """context manager: notice calls into code of the package that is not instrumented while a stub is among the
    arguments. Uses sys.monitoring (per-code-object events, switched off for code outside the package) when available,
    sys.setprofile otherwise."""

    def __init__(self, pkg_dir: str, stub_types: Tuple[type, ...]):
        self.pkg_dir = pkg_dir
        self.stub_types = stub_types
        self.tool = None
        self.old = None

    def _has_stub(self, frame) -> bool:
        code = frame.f_code
        n = code.co_argcount + code.co_kwonlyargcount + (1 if code.co_flags & 4 else 0) + (1 if code.co_flags & 8 else 0)
        loc = frame.f_locals
        st = self.stub_types
        for name in code.co_varnames[:n]:
            v = loc.get(name)
            if isinstance(v, st):
                return True
            if isinstance(v, (tuple, list)) and any(isinstance(x, st) for x in v):
                return True
            if isinstance(v, dict) and any(isinstance(x, st) for x in v.values()):
                return True
        return False

    def __enter__(self):
        mon = getattr(sys, "monitoring", None)
        if mon is not None:
            for tid in (3, 4, 5, 2):
                try:
                    mon.use_tool_id(tid, "dtable-guard")
                    self.tool = tid
                    break
                except ValueError:
                    continue
        if self.tool is not None:
            pkg, tag = self.pkg_dir, TAG

            def on_start(code, offset):
                fn = code.co_filename
                if fn.startswith(tag) or not fn.startswith(pkg):
                    return mon.DISABLE
                fr = sys._getframe(1)
                if fr.f_code is code and self._has_stub(fr):
                    raise Uninstrumented(fr.f_globals.get("__name__"))
                return None

            mon.register_callback(self.tool, mon.events.PY_START, on_start)
            mon.set_events(self.tool, mon.events.PY_START)
        else:
            self.old = sys.getprofile()
            sys.setprofile(guard_profile(self.pkg_dir, self.stub_types))
        return self

    def __exit__(self, *exc):
        mon = getattr(sys, "monitoring", None)
        if self.tool is not None:
            mon.set_events(self.tool, 0)
            mon.register_callback(self.tool, mon.events.PY_START, None)
            mon.free_tool_id(self.tool)
            try:
                mon.restart_events()
            except Exception:
                pass
        else:
            sys.setprofile(self.old)
        return False


def guard_profile(pkg_dir: str, stub_types: Tuple[type, ...]):
    """profile hook: a call into code of the package that is not instrumented, with a stub among its arguments"""
    modcache: Dict[str, Optional[str]] = {}

    def prof(frame, event, arg):
        if event != "call":
            return
        fn = frame.f_code.co_filename
        if fn.startswith(TAG) or not fn.startswith(pkg_dir):
            return
        code = frame.f_code
        n = code.co_argcount + code.co_kwonlyargcount + (1 if code.co_flags & 4 else 0) + (1 if code.co_flags & 8 else 0)
        loc = frame.f_locals
        for name in code.co_varnames[:n]:
            v = loc.get(name)
            if isinstance(v, stub_types) or (isinstance(v, (tuple, list, dict)) and any(isinstance(x, stub_types) for x in (v.values() if isinstance(v, dict) else v))):
                mn = modcache.get(fn)
                if mn is None:
                    mn = frame.f_globals.get("__name__")
                    modcache[fn] = mn
                raise Uninstrumented(mn)

    return prof


# ----------------------------------------------------------------------------- trees

def build_tree(paths):
    """trie of the paths: ('leaf', result) | ('b', atom, no, yes) | ('c', atom, lt, eq, gt)"""
    def rec(rows, depth):
        if len(rows) == 1 and len(rows[0][0]) == depth:
            return ("leaf", rows[0][1])
        atom, kind = rows[0][0][depth][0], rows[0][0][depth][1]
        outs = B_OUT if kind == "b" else C_OUT
        kids = []
        for o in outs:
            sub = [r for r in rows if r[0][depth][2] == o]
            if not sub:
                raise Leak(f"incomplete exploration at atom {atom}")
            if any(r[0][depth][0] != atom for r in sub):
                raise Leak("non-deterministic exploration")
            kids.append(rec(sub, depth + 1))
        return (kind, atom, *kids)

    return rec(paths, 0)


def reduce_tree(t):
    """drop every test whose sub-trees are all identical (the function of the valuation is unchanged)"""
    ids: Dict[Any, int] = {}
    rep: Dict[int, Any] = {}

    def rec(x):
        if x[0] == "leaf":
            key = x
            if key not in ids:
                ids[key] = len(ids)
                rep[ids[key]] = x
            return ids[key]
        kids = tuple(rec(k) for k in x[2:])
        if all(k == kids[0] for k in kids):
            return kids[0]
        key = (x[0], x[1]) + kids
        if key not in ids:
            ids[key] = len(ids)
            rep[ids[key]] = (x[0], x[1]) + tuple(rep[k] for k in kids)
        return ids[key]

    sys.setrecursionlimit(max(10000, sys.getrecursionlimit()))
    return rep[rec(t)]


def eval_tree(t, val: Dict[str, Any], default_b=False, default_c="lt"):
    while t[0] != "leaf":
        if t[0] == "b":
            t = t[3] if val.get(t[1], default_b) else t[2]
        else:
            t = t[2 + C_OUT.index(val.get(t[1], default_c))]
    return t[1]


def tree_stats(t):
    leaves = nodes = 0
    atoms = set()
    stack = [t]
    while stack:
        x = stack.pop()
        if x[0] == "leaf":
            leaves += 1
        else:
            nodes += 1
            atoms.add(x[1])
            stack.extend(x[2:])
    return {"leaves": leaves, "nodes": nodes, "atoms": sorted(atoms)}


def violates(forb, asg: Dict[str, Any]) -> bool:
    return any(all(asg.get(a, None) == o for a, o in cl) for cl in forb)


def diff_trees(code, model, forb=(), limit=1, per_class=None):
    """valuations (partial: the atoms either side looked at) on which the two trees give different results, skipping
    assignments that contain a forbidden conjunction. Walks `code`, follows `model` under the assignment (branching on
    atoms the code did not decide). Returns [(assignment, code_result, model_result)]."""
    out = []
    cls: Dict[Any, int] = {}

    def force(k):
        return k() if callable(k) else k

    def walk_model(m, asg, r):
        m = force(m)
        while m[0] != "leaf":
            a = m[1]
            if a in asg:
                if m[0] == "b":
                    m = force(m[3] if asg[a] is True else m[2])
                else:
                    m = force(m[2 + C_OUT.index(asg[a])])
                continue
            outs = B_OUT if m[0] == "b" else C_OUT
            for i, o in enumerate(outs):
                asg[a] = o
                walk_model(m[2 + i], asg, r)
                del asg[a]
                if len(out) >= limit:
                    return
            return
        if m[1] != r and not violates(forb, asg) and r != "#unreachable":
            if per_class is not None:
                cls[(r, m[1])] = cls.get((r, m[1]), 0) + 1
                if cls[(r, m[1])] > per_class:
                    return
            out.append((dict(asg), r, m[1]))

    def walk(c, asg):
        if len(out) >= limit:
            return
        if c[0] == "leaf":
            walk_model(model, asg, c[1])
            return
        a = c[1]
        outs = B_OUT if c[0] == "b" else C_OUT
        if a in asg:
            walk(c[2 + list(outs).index(asg[a])], asg)
            return
        for i, o in enumerate(outs):
            asg[a] = o
            walk(c[2 + i], asg)
            del asg[a]

    sys.setrecursionlimit(max(10000, sys.getrecursionlimit()))
    walk(code, {})
    return out


# ----------------------------------------------------------------------------- Lean emission

def _lstr(s: str) -> str:
    return '"' + s.replace("\\", "\\\\").replace('"', '\\"') + '"'


def number_atoms(tree, b_code: Dict[str, int], c_code: Dict[str, int], exc_code: Dict[str, int], base=1000,
                 other_code: Optional[Dict[str, int]] = None):
    """codes of everything the tree mentions; names outside the registries get fresh codes >= base (sorted by name).
    `other_code` (optional, additive): fixed codes of `other:<name>` results shared with a Lean model; names outside it
    are numbered from 10**9 upwards (without it: 0, 1, ... in sorted order, as before)"""
    st = tree_stats(tree)
    bs, cs, es, others = {}, {}, {}, {}
    kinds = {}
    stack = [tree]
    results = set()
    while stack:
        x = stack.pop()
        if x[0] == "leaf":
            results.add(x[1])
        else:
            kinds[x[1]] = x[0]
            stack.extend(x[2:])
    nb = nc = 0
    for a in st["atoms"]:
        if kinds[a] == "b":
            if a in b_code:
                bs[a] = b_code[a]
            else:
                bs[a] = base + nb
                nb += 1
        else:
            if a in c_code:
                cs[a] = c_code[a]
            else:
                cs[a] = base + nc
                nc += 1
    ne = no = 0
    for r in sorted(results):
        if r.startswith("raise:"):
            n = r[6:]
            if n in exc_code:
                es[n] = exc_code[n]
            else:
                es[n] = 100 + ne
                ne += 1
        elif r.startswith("other:"):
            if other_code is None:
                others[r[6:]] = no
            elif r[6:] in other_code:
                others[r[6:]] = other_code[r[6:]]
                continue
            else:
                others[r[6:]] = 10 ** 9 + no
            no += 1
    return bs, cs, es, others


def emit_lean(tree, namespace: str, header: str, b_code, c_code, exc_code, info: str = "", other_code=None) -> str:
    """the tree as a hash-consed chain of `def`s (`n<i> : PEval.DT.DTree`) and `tree : Option DTree := some n<root>`"""
    bs, cs, es, others = number_atoms(tree, b_code, c_code, exc_code, other_code=other_code)
    ids: Dict[Any, int] = {}
    lines: List[str] = []

    def leaf(r):
        if r == "ret:True":
            return ".leaf (.ret true)"
        if r == "ret:False":
            return ".leaf (.ret false)"
        if r == "#unreachable":
            return ".leaf .unreachable"
        if r.startswith("raise:"):
            return f".leaf (.raise {es[r[6:]]})"
        return f".leaf (.other {others[r[6:]]})"

    def hc(x) -> int:
        if x[0] == "leaf":
            key = ("leaf", x[1])
            if key not in ids:
                ids[key] = len(ids)
                lines.append(f"def n{ids[key]} : DTree := {leaf(x[1])}")
            return ids[key]
        kids = tuple(hc(k) for k in x[2:])
        key = (x[0], x[1]) + kids
        if key not in ids:
            ids[key] = len(ids)
            code = bs[x[1]] if x[0] == "b" else cs[x[1]]
            ctor = ".bnode" if x[0] == "b" else ".cnode"
            lines.append(f"def n{ids[key]} : DTree := {ctor} {code} " + " ".join(f"n{k}" for k in kids) + f"  -- {x[1]}")
        return ids[key]

    sys.setrecursionlimit(max(10000, sys.getrecursionlimit()))
    root = hc(tree)
    st = tree_stats(tree)
    txt = header + "import PEval.Model.DTree\n"
    txt += f"/-! decision table: {st['leaves']} paths, {len(st['atoms'])} atoms, {len(ids)} distinct sub-trees. {info} -/\n"
    txt += f"namespace {namespace}\nopen PEval.DT\n\n"
    txt += "/-- (code, name) of the Boolean atoms the code queried -/\ndef atomsB : List (Nat × String) := [" + \
        ", ".join(f"({c}, {_lstr(a)})" for a, c in sorted(bs.items(), key=lambda t: t[1])) + "]\n"
    txt += "/-- (code, name) of the order atoms the code queried: compare first second -/\ndef atomsC : List (Nat × String) := [" + \
        ", ".join(f"({c}, {_lstr(a)})" for a, c in sorted(cs.items(), key=lambda t: t[1])) + "]\n"
    txt += "/-- (code, exception class) -/\ndef exceptions : List (Nat × String) := [" + \
        ", ".join(f"({c}, {_lstr(a)})" for a, c in sorted(es.items(), key=lambda t: t[1])) + "]\n"
    txt += "/-- (code, type name) of results that are neither a bool nor an exception -/\ndef otherResults : List (Nat × String) := [" + \
        ", ".join(f"({c}, {_lstr(a)})" for a, c in sorted(others.items(), key=lambda t: t[1])) + "]\n\n"
    txt += "\n".join(lines) + "\n\n"
    txt += f"/-- the decision tree of the current source -/\ndef tree : Option DTree := some n{root}\n"
    txt += f"/-- why the function could not be tabulated (none: it could) -/\ndef untranslatable : Option String := none\n"
    txt += f"\nend {namespace}\n"
    return txt


def emit_untranslatable(namespace: str, header: str, reason: str) -> str:
    txt = header + "import PEval.Model.DTree\n"
    txt += f"namespace {namespace}\nopen PEval.DT\n\n"
    txt += "def atomsB : List (Nat × String) := []\ndef atomsC : List (Nat × String) := []\n"
    txt += "def exceptions : List (Nat × String) := []\ndef otherResults : List (Nat × String) := []\n"
    txt += "/-- untranslatable: no table; the check falls back to the correspondence runs -/\ndef tree : Option DTree := none\n"
    txt += f"def untranslatable : Option String := some {_lstr(reason[:300])}\n"
    txt += f"\nend {namespace}\n"
    return txt
