"""Maintain MANIFEST.json: `python3 harness/manifest_tool.py` rebuilds the checks list from
harness/manifest_entries.json (per-property level text) for the properties whose slice exists."""
import json
from pathlib import Path

V = Path(__file__).resolve().parent.parent
props = [json.loads(l) for l in open(V / "properties.jsonl")]
entries = json.load(open(V / "harness" / "manifest_entries.json"))
m = json.load(open(V / "MANIFEST.json"))
m["checks"] = []
m["not_applicable"] = []
served = []
for p in props:
    pid = p["id"]
    have = (V / "harness" / "props" / f"{pid.lower()}.py").exists() and (V / "lean" / "PEval" / "Properties" / f"{pid}.lean").exists()
    e = entries.get(pid)
    if have and e:
        served.append(pid)
        m["checks"].append({
            "property_id": pid,
            "quick_cmd": f"./check {pid} --tier quick",
            "thorough_cmd": f"./check {pid} --tier thorough",
            "evidence_file": f"evidence/{pid}.json",
            "replay_cmd_template": f"./check {pid} --replay {{path}}",
            "engine": "lean-proof+correspondence",
            "level_claimed": {"category": "proof", "text": e["text"], "design_ref": f"DESIGN.md §6 {pid}"},
            "level_note": e["note"],
            "technique": e["technique"],
        })
    else:
        m["not_applicable"].append({"property_id": pid, "reason": (e or {}).get("na_reason", "check under construction (model and theorems planned in DESIGN.md §6); not claimed yet")})
m["engines"][0]["serves_properties"] = served
json.dump(m, open(V / "MANIFEST.json", "w"), indent=1)
print("claimed:", served)
