"""Decision tables of the matching / result-status kernels (properties C01, C02, C03, C08), extracted from the REAL code by
exhaustive symbolic execution (generic machinery: harness/dtable.py).

Tabulated functions (all under perception_eval/perception_eval/evaluation):
  matchable       matching/object_matching.py  MatchingLabelPolicy.is_matchable(est, gt)               [C02, C01]
  better          matching/object_matching.py  {CenterDistance,PlaneDistance,IOU2d,IOU3d}Matching.is_better_than(thr)  [C01, C08]
  labelCorrect    result/object_result.py      DynamicObjectWithPerceptionResult.is_label_correct      [C03, C08]
  resultCorrect   result/object_result.py      ....is_result_correct(mode, thr)                        [C03, C08]
  status          result/object_result.py      ....get_status(mode, thr)                               [C03, C08]
  cell            result/object_result.py      _get_score_table for one estimate and one ground truth  [C01]

Enum arguments (policy, matching mode) are enumerated CONCRETELY over the members of the enum of the current source; the
per-member trees are joined under a chain of nodes `policy.is(NAME)` / `mode.is(NAME)` (else-leaf: unreachable).

Atoms (numbering shared with lean/PEval/Model/MatchKernelsDT.lean):
  gt.none                      ground_truth_object is None (identity test / truthiness)
  gt.fp est.fp gt.unknown est.unknown   semantic_label.is_fp() / is_unknown()
  same_label                   est.semantic_label == gt.semantic_label
  matchable                    matching_label_policy.is_matchable(est, gt)   (inside the result kernels; tabulated on its own)
  thr.none                     matching_threshold is None
  <m>.none                     the MatchingMethod attribute (center_distance, plane_distance, iou_2d, iou_3d) is None
  <m>.value.none               its `.value` is None
  cmp.npbool                   the comparison `value ? threshold` answered a numpy bool (identity tests `is True/False` on it
                               are then False); the model does not read this atom
  cmp(<m>.value|thr) cmp(0|thr) cmp(1|thr)   order atoms (lt/eq/gt of first against second)
  cell: same_frame, thr[gt].none (get_label_threshold answered None), thr[est].none
"""
from __future__ import annotations

import os
import time
from typing import Any, Callable, Dict, List, Optional, Tuple

from . import dtable as dt
from .dtable import Leak, Stub, Sym, oracle

MATCH_MOD = "perception_eval.evaluation.matching.object_matching"
RES_MOD = "perception_eval.evaluation.result.object_result"

MODES = ["CENTERDISTANCE", "PLANEDISTANCE", "IOU2D", "IOU3D"]
ATTR_OF = {"CENTERDISTANCE": "cd", "PLANEDISTANCE": "pd", "IOU2D": "iou2d", "IOU3D": "iou3d"}
PYATTR = {"cd": "center_distance", "pd": "plane_distance", "iou2d": "iou_2d", "iou3d": "iou_3d"}
CLASS_OF = {"CENTERDISTANCE": "CenterDistanceMatching", "PLANEDISTANCE": "PlaneDistanceMatching", "IOU2D": "IOU2dMatching",
            "IOU3D": "IOU3dMatching"}
POLICIES = ["ALLOW_ANY", "ALLOW_UNKNOWN", "DEFAULT"]

# ----------------------------------------------------------------------------- atom registry (codes shared with Lean)

B_ATOMS = ["gt.none", "gt.fp", "matchable", "thr.none"] + [f"mode.is({m})" for m in MODES] \
    + [f"{ATTR_OF[m]}.none" for m in MODES] + [f"{ATTR_OF[m]}.value.none" for m in MODES] + ["cmp.npbool"]
B_ATOMS += ["?17", "?18", "?19"]  # (reserved)
B_ATOMS += [f"policy.is({p})" for p in POLICIES] + ["est.unknown", "same_label", "est.fp", "gt.unknown"]
B_ATOMS += ["same_frame", "thr[gt].none", "thr[est].none"]
B_CODE = {a: i for i, a in enumerate(B_ATOMS) if not a.startswith("?")}
C_ATOMS = [f"cmp({ATTR_OF[m]}.value|thr)" for m in MODES] + ["cmp(0|thr)", "cmp(1|thr)"] \
    + [f"cmp({ATTR_OF[m]}.value|thr[gt])" for m in MODES] + ["cmp(0|thr[gt])", "cmp(1|thr[gt])"]
C_CODE = {a: i for i, a in enumerate(C_ATOMS)}
# C01, C02, C03 and C08 have no error clause: what a table records at a leaf where the kernel raises is THAT the valuation is
# rejected (an IoU threshold outside [0, 1]), not the exception CLASS - `assert` -> `raise ValueError`, or a subclass, is the same
# table.  Every exception is therefore recorded as the one result `raise:Rejected` (code 3, the code the model skeletons of
# lean/PEval/Lemmas/MatchKernelsDT.lean use for their rejection leaf); the class names observed are kept in OBSERVED_EXC for the
# evidence.  A kernel that raises where the model returns a value still differs from the model (raise vs value).
REJECTED = "Rejected"
EXC_CODE = {REJECTED: 3}
OBSERVED_EXC: Dict[str, int] = {}
# results that are neither a bool nor an exception: the status pairs of get_status, the cells of the score table
OTHER_CODE = {"FP,None": 0, "FP,TN": 1, "TP,TP": 2, "FP,FP": 3, "FP,FN": 4,
              "cell:nan": 10, "cell:score,label_ok": 11, "cell:score,label_not_ok": 12}

# jointly unrealisable decisions (the Lean theorems are stated for valuations avoiding them; `forbidden` in the model file)
FORBIDDEN: List[List[Tuple[str, Any]]] = [
    [("same_label", True), ("est.unknown", True), ("gt.unknown", False)],
    [("same_label", True), ("est.unknown", False), ("gt.unknown", True)],
    [("same_label", True), ("est.fp", True), ("gt.fp", False)],
    [("same_label", True), ("est.fp", False), ("gt.fp", True)],
    [("est.fp", True), ("est.unknown", True)],
    [("gt.fp", True), ("gt.unknown", True)],
    [("same_label", False), ("est.fp", True), ("gt.fp", True)],
    [("same_label", False), ("est.unknown", True), ("gt.unknown", True)],
]


# Valuations standing for an IoU threshold OUTSIDE [0, 1] (`forbIoU` in lean/PEval/Model/MatchKernelsDT.lean).  C01 / C03 / C08
# speak about thresholds on the mode's scale; what the kernels do with an IoU threshold outside it (today: an assertion in
# is_better_than) is left open by the texts, so the tables better / resultCorrect / status / cell are compared with their
# skeletons only on valuations avoiding these conjunctions - in the Lean obligation AND in the witness search below (no
# witness is ever built from an out-of-quantifier valuation).  The distance classes are not affected.
FORB_IOU: List[List[Tuple[str, Any]]] = [
    [(f"mode.is({m})", True), (f"cmp({c}|{thr})", o)]
    for thr in ("thr", "thr[gt]") for m in ("IOU2D", "IOU3D") for c, o in (("0", "gt"), ("1", "lt"))]
FORB_OF = {"matchable": FORBIDDEN, "better": FORB_IOU, "resultCorrect": FORB_IOU, "status": FORB_IOU, "cell": FORB_IOU,
           "labelCorrect": []}


# ----------------------------------------------------------------------------- symbolic inputs

class SymCmp(Stub):
    """the answer of `value ? threshold`: a Python bool or (atom cmp.npbool) a numpy bool. Truthiness, `not`, `and`, `or`,
    `==` work as for both; identity with True / False holds only for the Python bool."""

    def __init__(self, value: bool):
        self.__dict__["_dt_name"] = "cmp-result"
        self.__dict__["_v"] = bool(value)

    def __bool__(self):
        return self._v

    def _dt_is(self, other):
        if other is True or other is False:
            if oracle().b("cmp.npbool"):
                return False
            return self._v is other
        if other is None:
            return False
        raise Leak(f"identity test of a comparison result with {other!r}")

    def __eq__(self, other):
        if isinstance(other, SymCmp):
            return self._v == other._v
        if other is True or other is False:
            return self._v == other
        raise Leak(f"== of a comparison result with {other!r}")

    def __ne__(self, other):
        return not self.__eq__(other)

    __hash__ = None  # type: ignore


def _plain(x):
    return x._v if isinstance(x, SymCmp) else x


class FloatVal(float):
    """a symbolic number that numpy accepts as a float scalar (the score written into the score table): a float
    subclass carrying the sentinel value, every comparison / arithmetic operation is delegated to the symbolic number"""

    def __new__(cls, inner, sentinel):
        self = float.__new__(cls, sentinel)
        self._n = inner
        return self

    def _dt_is(self, other):
        if other is None:
            return False
        return self is other

    def __lt__(self, o):
        return self._n < o

    def __le__(self, o):
        return self._n <= o

    def __gt__(self, o):
        return self._n > o

    def __ge__(self, o):
        return self._n >= o

    def __eq__(self, o):
        return self._n == o

    def __ne__(self, o):
        return self._n != o

    def __bool__(self):
        return bool(self._n)

    def __hash__(self):
        raise Leak("hash(value)")

    def __abs__(self):
        return abs(self._n)

    def __neg__(self):
        return -self._n

    def __add__(self, o):
        return self._n + o

    def __radd__(self, o):
        return o + self._n

    def __sub__(self, o):
        return self._n - o

    def __rsub__(self, o):
        return o - self._n

    def __mul__(self, o):
        return self._n * o

    def __rmul__(self, o):
        return o * self._n

    def __truediv__(self, o):
        return self._n / o

    def __rtruediv__(self, o):
        return o / self._n

    def __format__(self, spec):
        return self._n._dt_name

    def __str__(self):
        return self._n._dt_name

    __repr__ = __str__

    # conversions would silently hand the sentinel to the code under test: outside the abstraction
    def __float__(self):
        # numpy reads the sentinel through __float__ when the code STORES the value into the score table
        # (`table[i, j] = (value, flag)`: the interpreter is at a STORE_SUBSCR); any other conversion is a leak
        import dis
        import sys

        fr = sys._getframe(1)
        try:
            op = dis.opname[fr.f_code.co_code[fr.f_lasti]]
        except Exception:  # noqa: BLE001
            op = "?"
        if op == "STORE_SUBSCR":
            return float.__float__(self)
        raise Leak(f"float({self._n._dt_name})")

    def __int__(self):
        raise Leak(f"int({self._n._dt_name})")

    def __round__(self, *a):
        raise Leak(f"round({self._n._dt_name})")

    def __trunc__(self):
        raise Leak(f"trunc({self._n._dt_name})")

    def __floor__(self):
        raise Leak(f"floor({self._n._dt_name})")

    def __ceil__(self):
        raise Leak(f"ceil({self._n._dt_name})")

    def __pow__(self, o, *a):
        raise Leak(f"pow({self._n._dt_name})")

    def __rpow__(self, o, *a):
        raise Leak(f"pow({self._n._dt_name})")

    def __mod__(self, o):
        raise Leak(f"mod({self._n._dt_name})")

    def __floordiv__(self, o):
        raise Leak(f"floordiv({self._n._dt_name})")

    def __divmod__(self, o):
        raise Leak(f"divmod({self._n._dt_name})")


def _unwrap(x):
    return x._n if isinstance(x, FloatVal) else x


class Num(Sym):
    """a symbolic real whose comparisons answer SymCmp; truthiness is `!= 0`"""

    def _rel(self, other):
        return Sym._rel(self, _unwrap(other))

    def _bin(self, op, other, swap=False):
        return Sym._bin(self, op, _unwrap(other), swap)

    def __format__(self, spec):
        return self._dt_name

    def __str__(self):
        return self._dt_name

    __repr__ = __str__

    def __lt__(self, o):
        return SymCmp(self._rel(o) == "lt")

    def __le__(self, o):
        return SymCmp(self._rel(o) in ("lt", "eq"))

    def __gt__(self, o):
        return SymCmp(self._rel(o) == "gt")

    def __ge__(self, o):
        return SymCmp(self._rel(o) in ("gt", "eq"))

    def __bool__(self):
        r = self._rel(0)
        return r is None or r != "eq"

    def __hash__(self):
        raise Leak(f"hash({self._dt_name})")

    def __float__(self):
        raise Leak(f"float({self._dt_name})")


class OptNum(Num):
    """a number that may be None (`<name>.none`)"""

    def _none(self) -> bool:
        return oracle().b(self._dt_name + ".none")

    def _dt_is(self, other):
        if other is None:
            return self._none()
        return self is other

    def _rel(self, other):
        if self._none():
            raise TypeError("'<' not supported between instances of 'NoneType' and 'float'")
        return Num._rel(self, other)

    def __eq__(self, o):
        if o is None:
            return self._none()
        return Sym.__eq__(self, o)

    def __ne__(self, o):
        if o is None:
            return not self._none()
        return Sym.__ne__(self, o)

    def __bool__(self):
        if self._none():
            return False
        return Num.__bool__(self)

    def _bin(self, op, other, swap=False):
        if self._none():
            raise TypeError("unsupported operand type(s): 'NoneType'")
        return Num._bin(self, op, other, swap)

    def __abs__(self):
        if self._none():
            raise TypeError("bad operand type for abs(): 'NoneType'")
        return Sym.__abs__(self)


def _is_common(other, member: str) -> bool:
    """`other` is CommonLabel.<member> or one of the enum members it stands for (of whichever copy of the module)"""
    tn = type(other).__name__
    return (tn == "CommonLabel" and getattr(other, "name", None) == member) or \
        (tn in ("AutowareLabel", "TrafficLightLabel") and getattr(other, "name", None) == member)


class LabelVal(Stub):
    """semantic_label.label"""

    def __init__(self, side):
        self.__dict__["_dt_name"] = side + ".label"
        self.__dict__["_side"] = side

    def __eq__(self, other):
        if isinstance(other, LabelVal):
            return True if other._side == self._side else oracle().b("same_label")
        if _is_common(other, "FP"):
            return oracle().b(self._side + ".fp")
        if _is_common(other, "UNKNOWN"):
            return oracle().b(self._side + ".unknown")
        raise Leak(f"{self._dt_name} == {other!r}")

    def __ne__(self, other):
        return not self.__eq__(other)

    def __hash__(self):
        raise Leak(f"hash({self._dt_name})")


class LabelS(Stub):
    """semantic_label of the estimate (side 'est') / of the ground truth (side 'gt')"""

    def __init__(self, side):
        self.__dict__["_dt_name"] = side + ".semantic_label"
        self.__dict__["_side"] = side
        self.__dict__["label"] = LabelVal(side)

    def is_fp(self):
        return oracle().b(self._side + ".fp")

    def is_unknown(self):
        return oracle().b(self._side + ".unknown")

    def __eq__(self, other):
        if isinstance(other, LabelS):
            return True if other._side == self._side else oracle().b("same_label")
        raise Leak(f"{self._dt_name} == {other!r}")

    def __ne__(self, other):
        return not self.__eq__(other)

    def __hash__(self):
        raise Leak(f"hash({self._dt_name})")


class FrameS(Stub):
    def __init__(self, side):
        self.__dict__["_dt_name"] = side + ".frame_id"
        self.__dict__["_side"] = side

    def __eq__(self, other):
        if isinstance(other, FrameS):
            return True if other._side == self._side else oracle().b("same_frame")
        raise Leak(f"{self._dt_name} == {other!r}")

    def __ne__(self, other):
        return not self.__eq__(other)

    def __hash__(self):
        raise Leak(f"hash({self._dt_name})")


class ObjS(Stub):
    """an object: only its semantic label (and, for the score-table cell, its frame id) is in the abstraction"""

    def __init__(self, side, with_frame=False):
        self.__dict__["_dt_name"] = side
        self.__dict__["_side"] = side
        self.__dict__["semantic_label"] = LabelS(side)
        if with_frame:
            self.__dict__["frame_id"] = FrameS(side)

    def __bool__(self):
        return True

    def _dt_is(self, other):
        if other is None:
            return False
        return self is other

    def __eq__(self, other):
        if other is None:
            return False
        raise Leak(f"{self._dt_name} == {other!r}")

    def __ne__(self, other):
        return not self.__eq__(other)

    def __hash__(self):
        raise Leak(f"hash({self._dt_name})")


class GtOpt(Stub):
    """ground_truth_object of a result: may be None (`gt.none`)"""

    def __init__(self):
        self.__dict__["_dt_name"] = "gt"
        self.__dict__["_side"] = "gt"

    def _none(self):
        return oracle().b("gt.none")

    def _dt_is(self, other):
        if other is None:
            return self._none()
        return self is other

    def __bool__(self):
        return not self._none()

    def __eq__(self, other):
        if other is None:
            return self._none()
        raise Leak(f"gt == {other!r}")

    def __ne__(self, other):
        return not self.__eq__(other)

    def __hash__(self):
        raise Leak("hash(gt)")

    def __getattr__(self, name):
        if name == "semantic_label":
            if self._none():
                raise AttributeError("'NoneType' object has no attribute 'semantic_label'")
            return LabelS("gt")
        return Stub.__getattr__(self, name)


class PolicyS(Stub):
    """matching_label_policy of a result: `is_matchable(est, gt)` is the atom `matchable`"""

    def __init__(self):
        self.__dict__["_dt_name"] = "policy"

    def is_matchable(self, estimation, ground_truth):
        if not (isinstance(estimation, ObjS) and estimation._side == "est"):
            raise Leak(f"is_matchable(estimation={estimation!r})")
        if isinstance(ground_truth, GtOpt):
            if ground_truth._none():
                raise AttributeError("'NoneType' object has no attribute 'semantic_label'")
        elif not (isinstance(ground_truth, ObjS) and ground_truth._side == "gt"):
            raise Leak(f"is_matchable(ground_truth={ground_truth!r})")
        return oracle().b("matchable")


class EnumProxy:
    """a CONCRETE enum member handed to the code under test, equal to the member of that name in whichever copy of the
    defining module the code compares it with (a module-level table built while a module was compiled holds the members of
    the real module, the module's global names those of the instrumented copy); hashes like the member"""

    def __init__(self, member):
        self.__dict__["_m"] = member

    def _same(self, o):
        if isinstance(o, EnumProxy):
            o = o._m
        return type(o).__name__ == type(self._m).__name__ and getattr(o, "name", None) == self._m.name

    def __eq__(self, o):
        return self._same(o)

    def __ne__(self, o):
        return not self._same(o)

    def __hash__(self):
        return hash(self._m)

    def _dt_is(self, o):
        return self._same(o)

    def __getattr__(self, n):
        return getattr(self._m, n)

    def __str__(self):
        return str(self._m)

    def __repr__(self):
        return repr(self._m)


class SymMarker:
    """marker base of the symbolic MatchingMethod instances (for the call guard)"""


def make_matching(cls, attr: str, optional: bool = True, value_optional: bool = True):
    """an instance of a subclass of the REAL matching class `cls` (so its own is_better_than runs) that may be None
    (`<attr>.none`) and whose `.value` is the symbolic number `<attr>.value`"""
    none_atom = attr + ".none"

    def _none():
        return optional and oracle().b(none_atom)

    def _dt_is(self, other):
        if other is None:
            return _none()
        return self is other

    def __getattribute__(self, name):
        if name in ("__class__", "__dict__") or name.startswith("_dt_"):
            return object.__getattribute__(self, name)
        if _none():
            raise AttributeError(f"'NoneType' object has no attribute '{name}'")
        return object.__getattribute__(self, name)

    def __bool__(self):
        return not _none()

    def __eq__(self, other):
        if other is None:
            return _none()
        raise Leak(f"{attr} == {other!r}")

    def __ne__(self, other):
        return not __eq__(self, other)

    def __hash__(self):
        raise Leak(f"hash({attr})")

    def __getattr__(self, name):  # instance state the symbolic instance was not given (set by a constructor that did not run)
        raise Leak(f"{attr}.{name} is outside the abstraction")

    T = type("Sym" + cls.__name__, (cls, SymMarker), {"_dt_is": _dt_is, "__getattribute__": __getattribute__, "__bool__": __bool__,
                                                       "__eq__": __eq__, "__ne__": __ne__, "__hash__": __hash__, "_dt_name": attr,
                                                       "__getattr__": __getattr__})
    inst = object.__new__(T)
    object.__setattr__(inst, "value", (OptNum if value_optional else Num)(attr + ".value"))
    return inst


STUB_TYPES = (Stub, SymMarker, FloatVal)


# ----------------------------------------------------------------------------- exploration

def _status_name(x):
    if x is None:
        return "None"
    if type(x).__name__ == "MatchingStatus":
        return x.name
    raise Leak(f"status {x!r}")


def _result_of(val, exc):
    if exc is not None:
        OBSERVED_EXC[type(exc).__name__] = OBSERVED_EXC.get(type(exc).__name__, 0) + 1
        return "raise:" + REJECTED
    if isinstance(val, SymCmp):
        return "ret:" + str(val._v)
    if val is True or val is False:
        return "ret:" + str(val)
    try:
        import numpy as np

        if isinstance(val, np.bool_):
            return "ret:" + str(bool(val))
    except Exception:
        pass
    if isinstance(val, tuple) and len(val) == 2:
        return "other:" + _status_name(val[0]) + "," + _status_name(val[1])
    if isinstance(val, str) and val.startswith("cell:"):
        return "other:" + val
    return "other:" + type(val).__name__


def _chain(prefix: str, members: List[Tuple[str, Any]]):
    """join per-member trees under `prefix.is(NAME)` nodes; nobody selected: unreachable"""
    t: Any = ("leaf", "#unreachable")
    for name, sub in reversed(members):
        t = ("b", f"{prefix}.is({name})", t, sub)
    return t


def _ordered(names: List[str], registry: List[str]) -> List[str]:
    """members in registry order first, unknown members (a changed enum) after them, sorted"""
    return [n for n in registry if n in names] + sorted(n for n in names if n not in registry)


class _Ctx:
    """instrumented copies of the modules under test (shared by all tables of one generation)"""

    def __init__(self):
        import logging
        import warnings

        logging.disable(logging.CRITICAL)
        warnings.filterwarnings("ignore")
        import perception_eval

        self.pkg_dir = os.path.dirname(os.path.abspath(perception_eval.__file__))
        self.mods = [MATCH_MOD, RES_MOD]
        self.copies = dt.instrument(self.mods)

    def explore(self, make_run: Callable[[Dict[str, Any]], Callable[[], Any]], max_paths=20000):
        """paths of run = make_run(copies); restarts with more modules instrumented when a stub reaches other package code"""
        for _attempt in range(6):
            run = make_run(self.copies)
            try:
                with dt.Guard(self.pkg_dir, STUB_TYPES):
                    return dt.explore(run, _result_of, max_paths=max_paths)
            except dt.Uninstrumented as u:
                if u.modname in self.mods or not u.modname:
                    raise Leak(f"stub reached uninstrumentable code in {u.modname}")
                self.mods.append(u.modname)
                self.copies = dt.instrument(self.mods)
        raise Leak("instrumentation did not reach a fixpoint")


def _tree(ctx: _Ctx, make_run) -> Any:
    return dt.build_tree(ctx.explore(make_run))


def tab_matchable(ctx: _Ctx):
    names = None

    def member_tree(pname):
        def make_run(copies):
            P = copies[MATCH_MOD].MatchingLabelPolicy
            member = P.__members__[pname]

            def run():
                return member.is_matchable(ObjS("est"), ObjS("gt"))

            return run

        return _tree(ctx, make_run)

    names = _ordered(list(ctx.copies[MATCH_MOD].MatchingLabelPolicy.__members__), POLICIES)
    return _chain("policy", [(n, member_tree(n)) for n in names])


def _mode_names(ctx: _Ctx) -> List[str]:
    return _ordered(list(ctx.copies[RES_MOD].MatchingMode.__members__), MODES)


def tab_better(ctx: _Ctx):
    def member_tree(mname):
        def make_run(copies):
            cls = getattr(copies[MATCH_MOD], CLASS_OF[mname])

            def run():
                inst = make_matching(cls, ATTR_OF[mname], optional=False)
                return inst.is_better_than(Num("thr"))

            return run

        return _tree(ctx, make_run)

    return _chain("mode", [(n, member_tree(n)) for n in MODES])


def _make_result(copies):
    R0 = copies[RES_MOD].DynamicObjectWithPerceptionResult
    M = copies[RES_MOD]

    def _missing(self, name):  # instance state set by a constructor that did not run: not a result of the code, a leak
        raise Leak(f"result.{name} is outside the abstraction")

    R = type("SymResult", (R0, SymMarker), {"__getattr__": _missing})
    r = object.__new__(R)
    r.estimated_object = ObjS("est")
    r.ground_truth_object = GtOpt()
    r.matching_label_policy = PolicyS()
    for mname in MODES:
        cls = getattr(M, CLASS_OF[mname], None) or getattr(copies[MATCH_MOD], CLASS_OF[mname])
        setattr(r, PYATTR[ATTR_OF[mname]], make_matching(cls, ATTR_OF[mname]))
    return r


def tab_label_correct(ctx: _Ctx):
    def make_run(copies):
        def run():
            return _make_result(copies).is_label_correct

        return run

    return _tree(ctx, make_run)


def _tab_result_method(ctx: _Ctx, method: str):
    def member_tree(mname):
        def make_run(copies):
            mode = EnumProxy(copies[RES_MOD].MatchingMode.__members__[mname])

            def run():
                return getattr(_make_result(copies), method)(mode, OptNum("thr"))

            return run

        return _tree(ctx, make_run)

    return _chain("mode", [(n, member_tree(n)) for n in _mode_names(ctx)])


def tab_result_correct(ctx: _Ctx):
    return _tab_result_method(ctx, "is_result_correct")


def tab_status(ctx: _Ctx):
    return _tab_result_method(ctx, "get_status")


# -- one cell of the score table (_get_score_table with one estimate and one ground truth)

class LabelThreshold:
    """stands in for common.threshold.get_label_threshold while the cell is tabulated: answers the symbolic threshold
    named after the label it was called with"""

    def __call__(self, semantic_label, target_labels, threshold_list):
        if not isinstance(semantic_label, LabelS):
            raise Leak(f"get_label_threshold({semantic_label!r}, ...)")
        if not isinstance(target_labels, _Opaque) or not isinstance(threshold_list, _Opaque):
            raise Leak("get_label_threshold called with other lists than the function's own arguments")
        if (target_labels._dt_name, threshold_list._dt_name) != ("target_labels", "matchable_thresholds"):
            raise Leak("get_label_threshold(…, %s, %s)" % (target_labels._dt_name, threshold_list._dt_name))
        return OptNum(f"thr[{semantic_label._side}]")


class _Opaque(Stub):
    def __init__(self, name):
        self.__dict__["_dt_name"] = name


def tab_cell(ctx: _Ctx):
    """the cell (score, label flag | NaN) written by _get_score_table for one estimate / one ground truth, per matching class"""
    import numpy as np

    SENT = 7.25

    def member_tree(mname):
        def make_run(copies):
            M = copies[RES_MOD]
            fn = M._get_score_table
            cls = getattr(M, CLASS_OF[mname], None) or getattr(copies[MATCH_MOD], CLASS_OF[mname])
            if "get_label_threshold" not in M.__dict__:
                raise Leak("object_result no longer calls get_label_threshold by that name")
            M.__dict__["get_label_threshold"] = LabelThreshold()

            def module(estimated_object=None, ground_truth_object=None, transforms=None, **kw):
                if kw or not isinstance(estimated_object, ObjS) or not isinstance(ground_truth_object, ObjS) \
                        or estimated_object._side != "est" or ground_truth_object._side != "gt":
                    raise Leak("matching_method_module called with unexpected arguments")
                inst = make_matching(cls, ATTR_OF[mname], optional=False)
                object.__setattr__(inst, "value", FloatVal(Num(ATTR_OF[mname] + ".value"), SENT))
                return inst

            class Pol(PolicyS):
                def is_matchable(self, e, g):
                    return bool(PolicyS.is_matchable(self, e, g))

            def run():
                t = fn([ObjS("est", True)], [ObjS("gt", True)], Pol(), module, _Opaque("target_labels"),
                       _Opaque("matchable_thresholds"), _Opaque("transforms"))
                t = np.asarray(t)
                if t.shape != (1, 1, 2):
                    raise Leak(f"score table of shape {t.shape}")
                s, f = float(t[0, 0, 0]), float(t[0, 0, 1])
                if s != s:
                    return "cell:nan"
                if s != SENT:
                    raise Leak(f"score {s} is not the value of the matching method")
                return "cell:score,label_ok" if f else "cell:score,label_not_ok"

            return run

        return _tree(ctx, make_run)

    return _chain("mode", [(n, member_tree(n)) for n in MODES])


TABLES: List[Tuple[str, str, Callable[[_Ctx], Any], str]] = [
    # (key, Gen file, tabulator, description)
    ("matchable", "KMatchable.lean", tab_matchable, "MatchingLabelPolicy.is_matchable(estimation, ground_truth)"),
    ("better", "KBetter.lean", tab_better, "is_better_than(threshold) of the four MatchingMethod classes"),
    ("labelCorrect", "KStatus.lean", tab_label_correct, "DynamicObjectWithPerceptionResult.is_label_correct"),
    ("resultCorrect", "KStatus.lean", tab_result_correct, "DynamicObjectWithPerceptionResult.is_result_correct(mode, threshold)"),
    ("status", "KStatus.lean", tab_status, "DynamicObjectWithPerceptionResult.get_status(mode, threshold)"),
    ("cell", "KCell.lean", tab_cell, "_get_score_table: the cell of one estimate and one ground truth"),
]
FILES = ["KMatchable.lean", "KBetter.lean", "KStatus.lean", "KCell.lean"]
HEADER = "-- GENERATED by harness/gen_tables.py (harness/dt_match.py) from /repo's current source. Do not edit.\n"
LAST: Dict[str, Any] = {}


def _ns(key: str) -> str:
    return "PEval.Gen.K." + key


def tabulate_all() -> Dict[str, Any]:
    """{key: {"tree": t, "info": …} | {"untranslatable": reason}} of the CURRENT source; never raises"""
    LAST.clear()
    t0 = time.time()
    try:
        ctx: Optional[_Ctx] = _Ctx()
        ctx_err = None
    except BaseException as e:  # noqa: BLE001
        if isinstance(e, (KeyboardInterrupt, SystemExit)):
            raise
        ctx, ctx_err = None, f"{type(e).__name__}: {e}"
    for key, _f, fn, _d in TABLES:
        t1 = time.time()
        try:
            if ctx is None:
                raise Leak(ctx_err)
            raw = fn(ctx)
            tree = dt.reduce_tree(raw)
            LAST[key] = {"tree": tree, "info": {"paths": dt.tree_stats(raw)["leaves"], "paths_reduced": dt.tree_stats(tree)["leaves"],
                                                "atoms": dt.tree_stats(tree)["atoms"], "seconds": round(time.time() - t1, 2)}}
        except BaseException as e:  # noqa: BLE001 - Leak, TooLarge, anything the stubs did not anticipate
            if isinstance(e, (KeyboardInterrupt, SystemExit)):
                raise
            LAST[key] = {"untranslatable": f"{type(e).__name__}: {e}"}
    LAST["_seconds"] = round(time.time() - t0, 2)
    return LAST


def _strip_import(txt: str) -> str:
    return txt.replace("import PEval.Model.DTree\n", "", 1)


def generate_files() -> Dict[str, str]:
    """{file name: text} of lean/PEval/Gen/K*.lean; never raises"""
    tabulate_all()
    out = {}
    for fname in FILES:
        txt = HEADER + "import PEval.Model.DTree\n"
        for key, f, _fn, desc in TABLES:
            if f != fname:
                continue
            ent = LAST.get(key, {"untranslatable": "not generated"})
            if "tree" in ent:
                txt += _strip_import(dt.emit_lean(ent["tree"], _ns(key), "", B_CODE, C_CODE, EXC_CODE, info="function: " + desc,
                                                  other_code=OTHER_CODE))
            else:
                txt += _strip_import(dt.emit_untranslatable(_ns(key), "", ent["untranslatable"]))
            txt += "\n"
        out[fname] = txt
    return out


def fallback_files(e: BaseException) -> Dict[str, str]:
    out = {}
    reason = f"{type(e).__name__}: {e}"
    for fname in FILES:
        txt = HEADER + "import PEval.Model.DTree\n"
        for key, f, _fn, _d in TABLES:
            if f == fname:
                txt += _strip_import(dt.emit_untranslatable(_ns(key), "", reason)) + "\n"
                LAST[key] = {"untranslatable": reason}
        out[fname] = txt
    return out



# ----------------------------------------------------------------------------- Python transcription of the skeletons
# (mirror of lean/PEval/Model/MatchKernelsDT.lean; ONLY used to find witness valuations when a Lean table theorem fails,
#  it is not part of any proof; children are thunks)

def _askB(a, k):
    return ("b", a, lambda: k(False), lambda: k(True))


def _askC(a, k):
    return ("c", a, lambda: k("lt"), lambda: k("eq"), lambda: k("gt"))


def _leaf(r):
    return ("leaf", r)


def _ret(b):
    return _leaf("ret:" + str(bool(b)))


_ASSERT = _leaf("raise:" + REJECTED)


def _mode_chain(f):
    t: Any = _leaf("#unreachable")
    for m in reversed(MODES):
        t = (lambda m, rest: _askB(f"mode.is({m})", lambda y: f(m) if y else rest))(m, t)
    return t


def _t_compare(m, thr, opt_v, kk):
    a = ATTR_OF[m]
    passes = "lt" if m in ("CENTERDISTANCE", "PLANEDISTANCE") else "gt"
    cmp_ = _askC(f"cmp({a}.value|{thr})", lambda o: kk(o == passes))
    if opt_v:
        return _askB(f"{a}.value.none", lambda vn: kk(False) if vn else cmp_)
    return cmp_


def _t_better(m, thr, opt_v, kk):
    if m in ("CENTERDISTANCE", "PLANEDISTANCE"):
        return _t_compare(m, thr, opt_v, kk)
    return _askC(f"cmp(0|{thr})", lambda o0: _ASSERT if o0 == "gt" else
                 _askC(f"cmp(1|{thr})", lambda o1: _ASSERT if o1 == "lt" else _t_compare(m, thr, opt_v, kk)))


def _t_result_body(m, kk):
    lab = lambda: _askB("matchable", lambda x: kk(x))  # noqa: E731
    return _askB("thr.none", lambda tn: lab() if tn else
                 _askB(f"{ATTR_OF[m]}.none", lambda mn: lab() if mn else
                       _t_better(m, "thr", True, lambda b: _askB("gt.fp", lambda fp: kk(not b) if fp else (lab() if b else kk(False))))))


def _policy_body(unknown_ok):
    return _askB("gt.fp", lambda fp: _ret(True) if fp else
                 _askB("same_label", lambda s: _ret(True) if s else
                       (_askB("est.unknown", lambda u: _ret(u)) if unknown_ok else _ret(False))))


def model_tree(key: str):
    if key == "matchable":
        return _askB("policy.is(ALLOW_ANY)", lambda a: _ret(True) if a else
                     _askB("policy.is(ALLOW_UNKNOWN)", lambda u: _policy_body(True) if u else
                           _askB("policy.is(DEFAULT)", lambda d: _policy_body(False) if d else _leaf("#unreachable"))))
    if key == "better":
        return _mode_chain(lambda m: _t_better(m, "thr", True, _ret))
    if key == "labelCorrect":
        return _askB("gt.none", lambda n: _ret(False) if n else _askB("matchable", _ret))
    if key == "resultCorrect":
        return _mode_chain(lambda m: _askB("gt.none", lambda n: _ret(False) if n else _t_result_body(m, _ret)))
    if key == "status":
        def st(c, fp):
            return _leaf("other:" + (("FP,TN" if fp else "TP,TP") if c else ("FP,FP" if fp else "FP,FN")))

        return _mode_chain(lambda m: _askB("gt.none", lambda n: _leaf("other:FP,None") if n else
                                           _t_result_body(m, lambda c: _askB("gt.fp", lambda fp: st(c, fp)))))
    if key == "cell":
        ok = lambda: _askB("matchable", lambda x: _leaf("other:cell:score,label_ok" if x else "other:cell:score,label_not_ok"))  # noqa: E731
        nan = _leaf("other:cell:nan")
        return _mode_chain(lambda m: _askB("same_frame", lambda sf: nan if not sf else
                                           _askB("thr[gt].none", lambda rn: ok() if rn else
                                                 _t_better(m, "thr[gt]", False, lambda b: ok() if b else nan))))
    raise KeyError(key)


def _ensure():
    if not LAST:
        tabulate_all()


def table_disagreements(key: str, limit=600, per_class=60):
    """valuations (over the atoms either side read) on which the CURRENT source's table `key` and the model skeleton differ"""
    _ensure()
    ent = LAST.get(key) or {}
    if "tree" not in ent:
        return []
    if "diff" not in ent:
        forb = FORB_OF.get(key, [])
        d = dt.diff_trees(ent["tree"], model_tree(key), forb, limit=limit, per_class=per_class)
        d = [x for x in d if x[2] != "#unreachable"]
        d.sort(key=lambda x: (not (x[1].startswith(("ret:", "other:")) and x[2].startswith(("ret:", "other:"))), len(x[0])))
        # round-robin over (mode / policy) so that every member of the enum is realised early
        groups: Dict[Any, list] = {}
        for x in d:
            groups.setdefault(_mode_of(x[0]) or _policy_of(x[0]), []).append(x)
        rr = []
        while any(groups.values()):
            for g in list(groups):
                if groups[g]:
                    rr.append(groups[g].pop(0))
        ent["diff"] = rr
    return ent["diff"]


def table_note(keys: List[str]):
    """(histogram key, evidence dict) about the tables `keys` of this run"""
    _ensure()
    info, status = {}, "table:equals-model"
    for k in keys:
        ent = LAST.get(k) or {"untranslatable": "not generated"}
        if "tree" not in ent:
            info[k] = {"status": "table:untranslatable", "untranslatable": ent.get("untranslatable")}
            if status == "table:equals-model":
                status = "table:untranslatable"
            continue
        d = table_disagreements(k)
        info[k] = dict(ent["info"], status="table:differs-from-model" if d else "table:equals-model")
        if d:
            status = "table:differs-from-model"
            info[k]["valuations_where_table_and_model_differ"] = [
                {"valuation": {a: (o if isinstance(o, str) else bool(o)) for a, o in asg.items()}, "code_table": cr, "model": mr}
                for asg, cr, mr in d[:6]]
    return status, info


# ----------------------------------------------------------------------------- valuation -> concrete inputs

def _mode_of(val) -> Optional[str]:
    for m in MODES:
        if val.get(f"mode.is({m})") is True:
            return m
    return None


def _policy_of(val) -> Optional[str]:
    for p in POLICIES:
        if val.get(f"policy.is({p})") is True:
            return p
    return None


C01_MODE = {"CENTERDISTANCE": "center", "PLANEDISTANCE": "plane", "IOU2D": "iou2d", "IOU3D": "iou3d"}

# (value, threshold) pairs realising an outcome of compare(value, threshold): distances (value = offset along x of two equal
# boxes: center distance = plane distance = offset), IoUs (offset 0 -> 1, offset 2 along the 4 m side -> 1/3, far -> 0);
# the ends of each scale are among them (0, inf; 0, 1)
INF = float("inf")
DIST_PAIRS = {"lt": [(2.0, 3.0), (2.0, INF), (0.0, 1.0), (2.0, 1e300)], "eq": [(2.0, 2.0), (0.0, 0.0), (1.0, 1.0)],
              "gt": [(2.0, 1.0), (2.0, 0.0), (3.0, 0.5)]}
# IoU by offset along x of two 4 m (x) by 2 m (y) boxes with yaw 0: offset 0 -> 1, 2 -> 1/3 (2D and 3D alike), 30 -> 0
IOU_PAIRS = {"lt": [(30.0, 0.5), (2.0, 0.5), (2.0, 1.0), (30.0, 1.0)], "eq": [(0.0, 1.0), (30.0, 0.0)],
             "gt": [(0.0, 0.5), (2.0, 0.0), (0.0, 0.0), (2.0, 0.25)]}


def _pairs(mode: str, val: Dict[str, Any], thr: str) -> List[Tuple[float, float]]:
    """(offset, threshold) candidates for the valuation's order atoms of `mode` against the threshold term `thr`"""
    a = ATTR_OF[mode]
    o = val.get(f"cmp({a}.value|{thr})")
    table = DIST_PAIRS if mode in ("CENTERDISTANCE", "PLANEDISTANCE") else IOU_PAIRS
    outs = [o] if o in dt.C_OUT else list(dt.C_OUT)
    cands = [p for x in outs for p in table[x]]
    o0, o1 = val.get(f"cmp(0|{thr})"), val.get(f"cmp(1|{thr})")

    def ok(t):
        if o0 in dt.C_OUT and {"lt": 0 < t, "eq": 0 == t, "gt": 0 > t}[o0] is False:
            return False
        if o1 in dt.C_OUT and {"lt": 1 < t, "eq": 1 == t, "gt": 1 > t}[o1] is False:
            return False
        return True

    good = [p for p in cands if ok(p[1])]
    if not good:  # the order atoms are jointly unrealisable as they stand: the neighbours that respect the threshold's place
        good = [p for x in dt.C_OUT for p in table[x] if ok(p[1])]
    return good


def realise_c02(val: Dict[str, Any]) -> List[dict]:
    """C01/C02 harness cases (kind 'direct') around one estimate and one ground truth whose labels take the label atoms of
    `val` under the valuation's policy, with a decoy ground truth of the estimate's label farther away (so that a wrong
    compatibility verdict becomes a blocking pair) and variants without it / with the decoy nearer"""
    pol = _policy_of(val)
    pols = [pol] if pol else list(POLICIES)
    g = val.get
    if g("gt.fp") and g("gt.unknown"):
        return []
    gl = "false_positive" if g("gt.fp") else "unknown" if g("gt.unknown") else "car"
    if g("same_label"):
        if gl == "false_positive" or g("est.fp") or (g("est.unknown") is True and gl != "unknown") or \
                (g("est.unknown") is False and gl == "unknown"):
            return []
        el = gl
    else:
        if g("est.fp"):
            return []
        el = "unknown" if g("est.unknown") else "pedestrian"
        if el == gl:
            return []
    car = {"frame": "base_link", "yaw": 0.0, "size": [2.0, 4.0, 1.5]}

    def at(x, label):
        return dict(car, pos=[x, 0.0, 0.0], label=label)

    out = []
    for p in pols:
        for gts in ([at(4.0, gl), at(8.0, el)], [at(4.0, gl)], [at(8.0, gl), at(4.5, el)], [at(4.0, gl), at(8.0, "bus")]):
            for ests in ([at(5.0, el)], [at(5.0, el), at(20.0, "car")]):
                out.append({"kind": "direct", "dim": "3d", "mode": "center", "policy": p, "task_fp": False,
                            "targets": ["car", "bicycle", "pedestrian", "motorbike"], "radii": None, "ests": ests, "gts": gts,
                            "ego": [0.0, 0.0, 0.0]})
    return out


def realise_c01(val: Dict[str, Any]) -> List[dict]:
    """C01 harness cases realising a valuation of the score-table cell / of is_better_than: one estimate at a chosen offset
    from one ground truth, the radius of the ground truth's label placed by the order atoms; variants: numeric type of the
    radii (float / int / numpy scalars), another radius for the ESTIMATE's label (so that a lookup by the wrong label
    shows), policy"""
    mode = _mode_of(val)
    modes = [mode] if mode else ["CENTERDISTANCE", "IOU3D"]
    out = []
    targets = ["car", "bicycle", "pedestrian", "motorbike"]
    base = {"frame": "base_link", "yaw": 0.0, "size": [2.0, 4.0, 1.5]}
    thr_name = "thr[gt]" if any("thr[gt]" in a for a in val) else "thr"
    for m in modes:
        none = val.get(f"{thr_name}.none")
        pairs = _pairs(m, val, thr_name)
        if none is True:
            pairs = [(2.0, None)]
        for off, t in pairs[:6]:
            for elab, pol in (("car", "DEFAULT"), ("pedestrian", "ALLOW_ANY")):
                if val.get("matchable") is False and elab == "car":
                    continue
                frames = ("base_link", "base_link") if val.get("same_frame", True) else ("map", "base_link")
                ests = [dict(base, pos=[4.0 + off, 0.0, 0.0], label=elab, frame=frames[0])]
                gts = [dict(base, pos=[4.0, 0.0, 0.0], label="car", frame=frames[1])]
                if t is None:
                    radii_list = [None]
                elif elab == "car":
                    radii_list = [[t, t, t, t]]
                else:  # the estimate's label has another radius: generous, and none at all (not a target label)
                    other = 9.0 if m in ("CENTERDISTANCE", "PLANEDISTANCE") else 0.0
                    tight = 0.25 if m in ("CENTERDISTANCE", "PLANEDISTANCE") else 1.0
                    radii_list = [[t, t, other, t], [t, t, tight, t]]
                for radii in radii_list:
                    tags = ["float"] if radii is None else ["float", "int", "np.float64", "np.float32"]
                    for tag in tags:
                        c = {"kind": "direct", "dim": "3d", "mode": C01_MODE[m], "policy": pol, "task_fp": False, "targets": targets,
                             "radii": radii, "ests": ests, "gts": gts, "ego": [0.0, 0.0, 0.0]}
                        if radii is not None and tag != "float":
                            if any(r != r or r in (INF, -INF) or (tag == "int" and float(r) != int(r)) or abs(r) > 1e30 for r in radii):
                                continue
                            c["num"] = {"radii": [tag] * 4}
                        if radii is not None and any(r in (INF, -INF) for r in radii):
                            continue  # (the C01 case format spells radii as finite numbers)
                        out.append(c)
    return out


def realise_c08(val: Dict[str, Any]) -> List[dict]:
    """C08 harness cases (kind 'pair', src 'scene') realising a valuation of is_better_than / is_result_correct /
    get_status: one estimate at the chosen offset from one ground truth, the threshold of the valuation once as the TIGHT
    entry of an ordered pair (with looser partners up to the end of the scale) and once as the LOOSE entry; variant:
    the tight threshold a numpy scalar (`cmp.npbool`)"""
    if val.get("gt.none") is True:
        return []
    mode = _mode_of(val)
    modes = [mode] if mode else ["CENTERDISTANCE", "PLANEDISTANCE", "IOU3D"]
    out = []
    glab = "false_positive" if val.get("gt.fp") else "car"
    elab = "pedestrian" if val.get("matchable") is False else "car"
    for m in modes:
        dist = m in ("CENTERDISTANCE", "PLANEDISTANCE")
        for off, t in _pairs(m, val, "thr")[:8]:
            fr = {"est": [{"l": elab, "x": off, "y": 0.0, "z": 0.0, "k": 0, "c": 0.5, "id": 0, "ge": "e"}],
                  "gt": [{"l": glab, "x": 0.0, "y": 0.0, "z": 0.0, "k": 0, "id": 0, "ge": "g"}]}
            spell = lambda v: "inf" if v == INF else v  # noqa: E731
            looser = [t + 1.0, INF, 1e300, t] if dist else [max(0.0, t - 0.25), 0.0, t]
            tighter = [max(0.0, t - 1.0), 0.0, t / 2] if dist else [min(1.0, t + 0.25), 1.0]
            pairs = [(t, x) for x in looser] + [(x, t) for x in tighter]
            for a, b in pairs:
                if a in (INF,) and b not in (INF,):
                    continue
                for npthr in ([False, False], [True, False], [False, True]):
                    if val.get("cmp.npbool") is not True and npthr != [False, False]:
                        continue
                    c = {"kind": "pair", "src": "scene", "targets": ["car", "pedestrian"], "policy": "DEFAULT", "mode": C01_MODE[m],
                         "thrs": [spell(a), spell(a)], "thrs2": [spell(b), spell(b)], "frame": fr}
                    if npthr != [False, False]:
                        c["npthr"] = npthr
                    out.append(c)
    return out


def witness_cases(keys: List[str], realise: Callable[[Dict[str, Any]], List[dict]], max_cases=400, per_valuation=12) -> List[dict]:
    """concrete cases realising the valuations on which the tables `keys` differ from their skeletons (empty on an unchanged
    tree): they are run FIRST, so a broken table theorem leads straight to its failing input"""
    import json

    out, seen = [], set()
    for key in keys:
        for asg, code_r, model_r in table_disagreements(key):
            try:
                cs = realise(asg)
            except Exception:  # noqa: BLE001
                cs = []
            for c in cs[:per_valuation]:
                k = json.dumps(c, sort_keys=True)
                if k in seen:
                    continue
                seen.add(k)
                c["table_witness"] = {"table": key, "valuation": {a: (o if isinstance(o, str) else bool(o)) for a, o in asg.items()},
                                      "code_table": code_r, "model": model_r}
                out.append(c)
                if len(out) >= max_cases:
                    return out
    return out


if __name__ == "__main__":
    import json

    r = tabulate_all()
    for k, v in r.items():
        if k.startswith("_"):
            print(k, v)
        elif "tree" in v:
            print(k, json.dumps(v["info"]))
        else:
            print(k, v)
