"""C05 — CLEAR tracking scores follow their definitions for every history.

Tie to the code: histories are realised with REAL `DynamicObject` / `DynamicObjectWithPerceptionResult`
instances and run through (i) the real `CLEAR` class, (ii) `TrackingMetricsScore` + `_sum_clear`,
(iii) `PerceptionEvaluationManager` in a tracking task (`add_frame_result` over several frames, the
per-frame `metrics_score.tracking_scores`, `get_scene_result()`), and compared with the Lean model
(`lean/PEval/Model/Clear.lean`) fed with the same ids/labels and the real matching values.

Oracle (independent of the model, exact `Fraction`s): the accounting identity tp + fp = number of evaluated
results; the switch count recomputed order-free on histories whose previous frames have one-to-one pairings;
the MOTA / MOTP formulas with their `inf` cases; exact TP/FP split and score on histories where the carry-over
convention (DESIGN B1) cannot be observed; renaming invariance by re-running the real code on injectively
renamed uuids; the three scenario families (perfect tracker, new id, swap); the GT-/TP-weighted totals of
`_sum_clear`.
"""
from __future__ import annotations

import copy
import itertools
import math
import tempfile
import time
from fractions import Fraction
from typing import Any, Dict, List, Optional, Tuple

from .. import core

PROP = "C05"
EXHAUSTIVE = True
RULE = (
    "quick: EVERY history of <= 3 frames over the alphabet {2 estimate ids} x {no GT, 2 GT ids x {TP, FP by threshold}} "
    "with frames of <= 2 results carrying distinct estimate ids (61 frames; 61 + 61^2 + 61^3 = 230,763 histories, "
    "enumerated in bundles by first frame; natural ground-truth number), each also re-run under an injective renaming; "
    "thorough adds bundles of 4-frame histories over the same alphabet and of 3- and 4-frame histories over 3 ids x 3 GT ids "
    "(316 frames), bundle prefixes drawn without replacement until the time cap (counts in `enumerated`); plus seeded random histories "
    "(<= 60 frames, <= 12 tracks, 4 matching modes, 1-3 target labels with different thresholds, duplicate ids/labels in a frame, "
    "FP-labelled GT, GT-less results, non-target labels, TPMetricsAp and TPMetricsAph, arbitrary ground-truth numbers), "
    "the three scenario families on random perfect histories, TrackingMetricsScore._sum_clear over 1-3 labels, and "
    "scenes through PerceptionEvaluationManager (tracking task). Non-trivial = at least one evaluated result after the "
    "initial frame; distinct = distinct canonical case"
)
THEOREMS = [
    "PEval.C05." + t
    for t in [
        "each_result_once", "tp_fp_count", "tp_fp_split", "switch_le_tp", "switch_count_def", "switch_once_per_tp",
        "mota_def", "mota_nonneg", "mota_le_one", "motp_def", "motp_mean",
        "rename_invariant", "rename_invariant_scores",
        "perfect_tracker", "new_id_costs_one", "swap_costs_two",
        "sumClear_single", "sumClear_pooled",
    ]
]
TRUSTED = [
    "matching values (center/plane distance, IoU), is_label_correct and TP weights are read from the real result objects "
    "and handed to the model exactly (Fraction of the float); their computation is the subject of C01/C06/C09",
    "result objects of one geometry are built once by the real constructors and re-labelled with other uuids on shallow copies "
    "(a quarter of the random cases builds every object from scratch instead)",
]
ASSUMPTIONS = [
    "3-D objects (every MatchingMode has a matching object); IoU thresholds lie in [0,1] (the assertion in is_better_than is not modelled)",
    "len(target_labels) == len(matching_threshold_list) (asserted by TrackingMetricsScore)",
    "'result of the evaluated label' is read as the code reads it: the ground truth's label if the result has one, else the estimate's "
    "(see known_finding C05-N1 for what this drops at the manager level)",
    "the carry-over convention B1 (previous TP value/score reused for an unchanged pairing) is part of the model and of the "
    "correspondence, not of the oracle",
]

INF = float("inf")

# ----------------------------------------------------------------------------- real objects

_L = None


def _labels():
    """index -> AutowareLabel (the index is the model's label number)"""
    global _L
    if _L is None:
        from perception_eval.common.label import AutowareLabel as A

        _L = [A.CAR, A.BICYCLE, A.PEDESTRIAN, A.MOTORBIKE, A.FP, A.UNKNOWN]
    return _L


LCAR, LBIC, LPED, LMOT, LFP, LUNK = range(6)
MODES = ["center", "plane", "iou2d", "iou3d"]


def _mode(name):
    from perception_eval.evaluation.matching import MatchingMode as M

    return {"center": M.CENTERDISTANCE, "plane": M.PLANEDISTANCE, "iou2d": M.IOU2D, "iou3d": M.IOU3D}[name]


def _mode_name(m) -> str:
    from perception_eval.evaluation.matching import MatchingMode as M

    return {M.CENTERDISTANCE: "center", M.PLANEDISTANCE: "plane", M.IOU2D: "iou2d", M.IOU3D: "iou3d"}[m]


def _maximize(name) -> bool:
    return name in ("iou2d", "iou3d")


def _policy(name):
    from perception_eval.evaluation.matching.object_matching import MatchingLabelPolicy as P

    return P[name]


def _obj(x, y, yaw, label_idx, uuid, t=100):
    from pyquaternion import Quaternion
    from perception_eval.common.label import Label
    from perception_eval.common.object import DynamicObject
    from perception_eval.common.schema import FrameID
    from perception_eval.common.shape import Shape, ShapeType

    lab = _labels()[label_idx]
    return DynamicObject(
        t, FrameID.BASE_LINK, (float(x), float(y), 0.0), Quaternion(axis=[0, 0, 1], angle=float(yaw)),
        Shape(ShapeType.BOUNDING_BOX, (2.0, 4.0, 1.5)), (0.0, 0.0, 0.0), 0.9, Label(lab, str(lab.value), []),
        uuid=uuid, pointcloud_num=10,
    )


_TEMPLATES: Dict[tuple, Any] = {}
_CLONES: Dict[tuple, Any] = {}


def _result(spec, policy="DEFAULT", ename=None, gname=None, fresh=False):
    """a real DynamicObjectWithPerceptionResult for spec = [e, el, g, gl, d, yaw] (g None = no ground truth):
    estimate at the origin with heading `yaw`, ground truth displaced by `d` along x, heading 0."""
    from perception_eval.evaluation.result.object_result import DynamicObjectWithPerceptionResult as R

    e, el, g, gl, d, yaw = spec
    ename = ename if ename is not None else f"e{e}"
    gname = None if g is None else (gname if gname is not None else f"g{g}")
    if fresh:
        est = _obj(0.0, 0.0, yaw, el, ename)
        gt = None if g is None else _obj(d, 0.0, 0.0, gl, gname)
        return R(est, gt, _policy(policy))
    ck = (el, None if g is None else gl, None if g is None else d, yaw, policy, ename, gname)
    r = _CLONES.get(ck)
    if r is not None:
        return r
    tk = ck[:5]
    tpl = _TEMPLATES.get(tk)
    if tpl is None:
        est = _obj(0.0, 0.0, yaw, el, "tpl-e")
        gt = None if g is None else _obj(d, 0.0, 0.0, gl, "tpl-g")
        tpl = _TEMPLATES[tk] = R(est, gt, _policy(policy))
    r = copy.copy(tpl)
    r.estimated_object = copy.copy(tpl.estimated_object)
    r.estimated_object.uuid = ename
    if tpl.ground_truth_object is not None:
        r.ground_truth_object = copy.copy(tpl.ground_truth_object)
        r.ground_truth_object.uuid = gname
    if len(_CLONES) > 200000:
        _CLONES.clear()
    _CLONES[ck] = r
    return r


def _tpm(name):
    from perception_eval.evaluation.metrics.detection.tp_metrics import TPMetricsAp, TPMetricsAph

    return TPMetricsAph() if name == "aph" else TPMetricsAp()


def _num(x):
    """float of the real code -> JSON-able canonical number (inf -> None)"""
    x = float(x)
    return None if math.isinf(x) or math.isnan(x) else x


def _canon_clear(c) -> dict:
    r = c.results
    return {
        "predict_num": int(r["predict_num"]), "mota": _num(r["MOTA"]), "motp": _num(r["MOTP"]),
        "sw": int(r["id_switch"]), "tp": float(r["tp"]), "fp": float(r["fp"]), "score": float(r["tp_matching_score"]),
        "g": int(c.num_ground_truth),
    }


def _feat(r, mode_name, tpm) -> list:
    """what the model is told about a real result: [value, is_label_correct, tp weight]"""
    m = r.get_matching(_mode(mode_name))
    v = m.value if (m is not None and m.value is not None) else 0.0
    return [float(v), bool(r.is_label_correct), float(tpm.get_value(r))]


def _rename_maps(hist, seed):
    """injective renamings of the estimate ids and of the GT ids to new uuid strings (the two name spaces may overlap)"""
    import random as _r

    rr = _r.Random(seed)
    es = sorted({s[0] for f in hist for s in f})
    gs = sorted({s[2] for f in hist for s in f if s[2] is not None})
    pool = [f"x{i}" for i in range(len(es) + len(gs) + 3)]
    en = rr.sample(pool, len(es))
    gn = rr.sample(pool, len(gs))
    return dict(zip(es, en)), dict(zip(gs, gn))


def _real_clear(hist, g, targets, mode, thrs, tpm_name, policy="DEFAULT", fresh=False, ren=None):
    from perception_eval.evaluation.metrics.tracking.clear import CLEAR

    L = _labels()
    if ren is None:
        objs = [[_result(s, policy, fresh=fresh) for s in f] for f in hist]
    else:
        em, gm = ren
        objs = [[_result(s, policy, em[s[0]], None if s[2] is None else gm[s[2]], fresh=fresh) for s in f] for f in hist]
    tpm = _tpm(tpm_name)
    c = CLEAR(objs, g, [L[i] for i in targets], _mode(mode), list(thrs), tp_metrics=tpm)
    return c, objs, tpm


# ----------------------------------------------------------------------------- independent reference (oracle side)

class _R:
    """one result as the oracle sees it (exact)"""
    __slots__ = ("e", "el", "g", "gl", "gfp", "v", "ok", "w", "key", "_tp")

    def __init__(self, e, el, g, gl, gfp, v, ok, w):
        self.e, self.el, self.g, self.gl, self.gfp = e, el, g, gl, gfp
        self.v, self.ok, self.w = v, ok, w
        self.key = gl if g is not None else el
        self._tp = {}

    def tp(self, maximize, t) -> bool:
        k = (maximize, t)
        r = self._tp.get(k)
        if r is None:
            if self.g is None:
                r = False
            else:
                bt = (self.v > t) if maximize else (self.v < t)
                r = (not bt) if self.gfp else (bt and self.ok)
            self._tp[k] = r
        return r


def _label_ok(el, gl, policy) -> bool:
    """is_label_correct recomputed from the labels and the policy"""
    if gl == LFP or policy == "ALLOW_ANY":
        return True
    if policy == "ALLOW_UNKNOWN":
        return el == gl or el == LUNK
    return el == gl


def _conflict(c: _R, p: _R) -> bool:
    """the pairing of c differs from the pairing of p: same estimated track XOR same ground-truth track"""
    if c.g is None or p.g is None:
        return False
    return ((c.e == p.e and c.el == p.el) != (c.g == p.g))


def _same_pair(c: _R, p: _R) -> bool:
    return c.g is not None and p.g is not None and c.e == p.e and c.el == p.el and c.g == p.g


def _one_to_one(frame: List[_R]) -> bool:
    ks = [(r.e, r.el) for r in frame if r.g is not None]
    gs = [r.g for r in frame if r.g is not None]
    return len(set(ks)) == len(ks) and len(set(gs)) == len(gs)


def _pair_facts(prev: List[_R], cur: List[_R], maximize: bool, thr: Dict[int, Fraction]) -> tuple:
    """facts about one (previous, current) pair of frames:
    (n_eval, n_skipped, prev one-to-one, order-free switch count, B1-neutral, tp_ref, fp_ref, score_ref,
     has_carry, has_carry_of_fp, has_gtless, has_fp_gt_tp)"""
    n_eval = n_skipped = sw_ref = fp_ref = 0
    neutral = True
    tp_ref = Fraction(0)
    score_ref = Fraction(0)
    has_carry = has_carry_of_fp = has_gtless = has_fp_gt_tp = False
    for c in cur:
        t = thr.get(c.key)
        if t is None:
            n_skipped += 1
            continue
        n_eval += 1
        if c.g is None:
            has_gtless = True
        ptps = [p for p in prev if p.tp(maximize, t)]
        tpc = c.tp(maximize, t)
        if tpc and c.gfp:
            has_fp_gt_tp = True
        for p in ptps:
            if _same_pair(c, p):
                has_carry = True
                if not tpc:
                    has_carry_of_fp = True
                if not (tpc and p.v == c.v and p.w == c.w):
                    neutral = False
        if tpc:
            tp_ref += c.w
            score_ref += c.v
            if any(_conflict(c, p) for p in ptps):
                sw_ref += 1
        else:
            fp_ref += 1
    return (n_eval, n_skipped, _one_to_one(prev), sw_ref, neutral, tp_ref, fp_ref, score_ref,
            has_carry, has_carry_of_fp, has_gtless, has_fp_gt_tp)


class _Facts:
    """what the property statement determines about a history, recomputed from scratch (sum over consecutive frame pairs)"""

    def __init__(self, frames: List[List[_R]], maximize: bool, thr: Dict[int, Fraction], memo: Optional[dict] = None):
        self.n_eval = 0          # evaluated results after the initial frame
        self.n_skipped = 0       # results whose key label has no threshold
        self.well_formed = True  # every 'previous' frame pairs estimated and GT tracks one-to-one
        self.sw_ref = 0          # order-free switch count (meaningful when well_formed)
        self.b1_neutral = True   # the carry-over can not change any outcome
        self.tp_ref = Fraction(0)
        self.fp_ref = 0
        self.score_ref = Fraction(0)
        self.has_carry = self.has_carry_of_fp = self.has_gtless = self.has_fp_gt_tp = False
        for i in range(1, len(frames)):
            prev, cur = frames[i - 1], frames[i]
            if memo is not None:
                k = (id(prev), id(cur))
                pf = memo.get(k)
                if pf is None:
                    pf = memo[k] = _pair_facts(prev, cur, maximize, thr)
            else:
                pf = _pair_facts(prev, cur, maximize, thr)
            self.n_eval += pf[0]
            self.n_skipped += pf[1]
            self.well_formed = self.well_formed and pf[2]
            self.sw_ref += pf[3]
            self.b1_neutral = self.b1_neutral and pf[4]
            self.tp_ref += pf[5]
            self.fp_ref += pf[6]
            self.score_ref += pf[7]
            self.has_carry |= pf[8]
            self.has_carry_of_fp |= pf[9]
            self.has_gtless |= pf[10]
            self.has_fp_gt_tp |= pf[11]
        self.has_dup_in_frame = False
        self.vmin = None
        self.vmax = None
        for f in frames:
            ks = [(r.e, r.el) for r in f]
            if len(set(ks)) != len(ks):
                self.has_dup_in_frame = True
            for r in f:
                if r.g is not None:
                    self.vmin = r.v if self.vmin is None else min(self.vmin, r.v)
                    self.vmax = r.v if self.vmax is None else max(self.vmax, r.v)


def _check_clear(frames: List[List[_R]], maximize: bool, thr: Dict[int, Fraction], g: int, res: dict, unit: bool,
                 facts: Optional[_Facts] = None) -> Optional[str]:
    """THE PROPERTY on one CLEAR output `res` for the history `frames`"""
    fa = facts or _Facts(frames, maximize, thr)
    tp, fp, sw, score = core.F(res["tp"]), core.F(res["fp"]), res["sw"], core.F(res["score"])
    if fp.denominator != 1 or fp < 0 or sw < 0 or tp < 0:
        return f"counts are not natural numbers: tp={tp} fp={fp} sw={sw}"
    if unit:
        if tp.denominator != 1:
            return f"tp={tp} is not a whole number under unit TP weights"
        if tp + fp != fa.n_eval:
            return f"tp + fp = {tp}+{fp} but {fa.n_eval} results of the evaluated label(s) follow the initial frame (each must be counted exactly once)"
        if sw > tp:
            return f"id_switch={sw} exceeds tp={tp} (a switch is counted once per TP)"
    else:
        if not (tp <= fa.n_eval - fp + Fraction(1, 10**9)) or fp > fa.n_eval:
            return f"weighted tp={tp}, fp={fp} exceed the {fa.n_eval} evaluated results"
    if fa.well_formed and sw != fa.sw_ref:
        return (f"id_switch={sw}, but {fa.sw_ref} TP result(s) have a pairing that differs from the pairing of a TP in the previous frame "
                "(previous frames pair tracks one-to-one, so the count does not depend on any scan order)")
    if fa.b1_neutral:
        if not core.close(tp, fa.tp_ref) or fp != fa.fp_ref or not core.close(score, fa.score_ref):
            return (f"tp/fp/score = {float(tp)}/{fp}/{float(score)} but the results' own tests give {float(fa.tp_ref)}/{fa.fp_ref}/{float(fa.score_ref)} "
                    "(no carry-over can change an outcome on this history)")
    # formulas on the code's own counts
    if g == 0:
        if res["mota"] is not None:
            return f"MOTA={res['mota']} with no ground truth (documented value: inf)"
    else:
        want = max(Fraction(0), (tp - fp - sw) / g)
        if res["mota"] is None or not core.close(res["mota"], want):
            return f"MOTA={res['mota']} but max(0,(TP-FP-IDsw)/G) = max(0,({float(tp)}-{fp}-{sw})/{g}) = {float(want)}"
    if tp == 0:
        if res["motp"] is not None:
            return f"MOTP={res['motp']} with TP=0 (documented value: inf)"
    else:
        want = score / tp
        if res["motp"] is None or not core.close(res["motp"], want):
            return f"MOTP={res['motp']} but tp_matching_score/TP = {float(want)}"
        if unit and fa.vmin is not None and not (fa.vmin - Fraction(1, 10**9) <= want <= fa.vmax + Fraction(1, 10**9)):
            return f"MOTP={float(want)} is not a mean of matching scores of the history (range [{float(fa.vmin)}, {float(fa.vmax)}])"
    return None


def _same_out(a: dict, b: dict) -> Optional[str]:
    for k in ("predict_num", "sw", "g"):
        if a[k] != b[k]:
            return f"{k}: {a[k]} vs {b[k]}"
    for k in ("tp", "fp", "score", "mota", "motp"):
        if not core.close(a[k], b[k]):
            return f"{k}: {a[k]} vs {b[k]}"
    return None


def _frames_R(hist, feats, policy="DEFAULT", center_exact=False) -> List[List[_R]]:
    out = []
    for f, ff in zip(hist, feats):
        row = []
        for s, x in zip(f, ff):
            e, el, g, gl, d, yaw = s
            v = Fraction(x[0])
            ok = _label_ok(el, gl, policy) if g is not None else False
            row.append(_R(e, el, g, gl if g is not None else None, (gl == LFP) if g is not None else False, v, ok, Fraction(x[2])))
        out.append(row)
    return out


def _thr(targets, thrs) -> Dict[int, Fraction]:
    d: Dict[int, Fraction] = {}
    for l, t in zip(targets, thrs):
        d.setdefault(l, Fraction(t))  # list.index: first occurrence
    return d


# ----------------------------------------------------------------------------- exhaustive alphabets

_ALPHA: Dict[tuple, tuple] = {}
D_TP, D_FP, THR = 0.5, 2.0, 1.0


def _alphabet(ne: int, ng: int):
    """(result specs, frames as tuples of indices into the specs): frames of <= 2 results with distinct estimate ids"""
    k = (ne, ng)
    if k not in _ALPHA:
        specs = []
        for e in range(1, ne + 1):
            specs.append([e, LCAR, None, LCAR, 0.0, 0.0])
            for g in range(1, ng + 1):
                for d in (D_TP, D_FP):
                    specs.append([e, LCAR, g, LCAR, d, 0.0])
        frames = [()] + [(i,) for i in range(len(specs))]
        frames += [(i, j) for i in range(len(specs)) for j in range(len(specs)) if specs[i][0] != specs[j][0]]
        _ALPHA[k] = (specs, frames)
    return _ALPHA[k]


def _enum_hists(frames_n: int, prefix: List[int], depth: int):
    """canonical order of a bundle: the prefix, then (recursively) every extension up to `depth` frames"""
    out = []

    def rec(p):
        out.append(tuple(p))
        if len(p) < depth:
            for f in range(frames_n):
                p.append(f)
                rec(p)
                p.pop()

    rec(list(prefix))
    return out


def _natural_g(hist_specs) -> int:
    return sum(1 for f in hist_specs[1:] for s in f if s[2] is not None)


ENUMERATED: Dict[str, int] = {}


def _run_enum(case):
    from perception_eval.evaluation.metrics.tracking.clear import CLEAR

    ne, ng = case["ne"], case["ng"]
    specs, frames = _alphabet(ne, ng)
    L = _labels()
    objs = [_result(s) for s in specs]
    # injective renaming: other uuid strings for estimates and for ground truths (name spaces overlap on purpose)
    objs_r = [_result(s, "DEFAULT", f"t{ne + 1 - s[0]}", None if s[2] is None else f"t{s[2]}") for s in specs]
    fobjs = [[objs[i] for i in f] for f in frames]
    fobjs_r = [[objs_r[i] for i in f] for f in frames]
    fg = [sum(1 for i in f if specs[i][2] is not None) for f in frames]
    mode, tl, th = _mode("center"), [L[LCAR]], [THR]
    outs = []
    ren_bad = None
    hs = _enum_hists(len(frames), case["prefix"], case["depth"])
    for h in hs:
        g = sum(fg[i] for i in h[1:])
        c = CLEAR([fobjs[i] for i in h], g, tl, mode, th)
        c2 = CLEAR([fobjs_r[i] for i in h], g, tl, mode, th)
        if ren_bad is None and (c.tp, c.fp, c.id_switch, c.tp_matching_score, c.mota, c.motp) != (
                c2.tp, c2.fp, c2.id_switch, c2.tp_matching_score, c2.mota, c2.motp):
            ren_bad = list(h)
        outs.append([c.tp, c.fp, c.id_switch, c.tp_matching_score, _num(c.mota), _num(c.motp), c.objects_results_num])
    key = f"{ne}x{ng}:depth{case['depth']}"
    ENUMERATED[key] = ENUMERATED.get(key, 0) + len(hs)
    return {"n": len(hs), "outs": outs, "ren_bad": ren_bad}


def _enum_single(case, h) -> dict:
    """the 'clear' case of one history of a bundle"""
    specs, frames = _alphabet(case["ne"], case["ng"])
    hist = [[list(specs[i]) for i in frames[f]] for f in h]
    return {"kind": "clear", "mode": "center", "targets": [LCAR], "thrs": [THR], "g": _natural_g(hist), "tpm": "ap",
            "policy": "DEFAULT", "hist": hist, "ren": 1}


_ENUM_R: Dict[tuple, list] = {}
_ENUM_MEMO: Dict[tuple, dict] = {}


def _oracle_enum(case, out):
    ne, ng = case["ne"], case["ng"]
    specs, frames = _alphabet(ne, ng)
    if (ne, ng) not in _ENUM_R:
        rs = [_R(s[0], s[1], s[2], s[3] if s[2] is not None else None, False, Fraction(s[4]) if s[2] is not None else Fraction(0),
                 s[2] is not None, Fraction(1)) for s in specs]
        _ENUM_R[(ne, ng)] = [[rs[i] for i in f] for f in frames]
    fR = _ENUM_R[(ne, ng)]
    memo = _ENUM_MEMO.setdefault((ne, ng), {})
    thr = {LCAR: Fraction(THR)}
    if out.get("ren_bad") is not None:
        return f"renaming the track ids changes the scores on history {_enum_single(case, out['ren_bad'])['hist']}"
    hs = _enum_hists(len(frames), case["prefix"], case["depth"])
    if len(hs) != len(out["outs"]):
        return "bundle size mismatch"
    fg = [sum(1 for r in f if r.g is not None) for f in fR]
    for h, o in zip(hs, out["outs"]):
        res = {"tp": o[0], "fp": o[1], "sw": o[2], "score": o[3], "mota": o[4], "motp": o[5]}
        fr = [fR[i] for i in h]
        g = sum(fg[i] for i in h[1:])
        why = _check_clear(fr, False, thr, g, res, True, _Facts(fr, False, thr, memo))
        if why is None:
            why = _check_scenarios_generic(fr, False, thr, g, res)
        if why:
            return f"{why} on history {_enum_single(case, h)['hist']}"
    return None


def _check_scenarios_generic(frames: List[List[_R]], maximize, thr, g, res) -> Optional[str]:
    """perfect tracker recognised on an arbitrary history: constant one-to-one pairing, all TP, G = number of GT = results"""
    n = sum(len(f) for f in frames[1:])
    if n == 0 or g != n:
        return None
    pair: Dict[tuple, Any] = {}
    back: Dict[Any, tuple] = {}
    for f in frames:
        if not _one_to_one(f):
            return None
        for r in f:
            t = thr.get(r.key)
            if t is None or not r.tp(maximize, t) or any(not r.tp(maximize, t2) for t2 in thr.values()) or r.w != 1:
                return None
            k = (r.e, r.el)
            if pair.setdefault(k, r.g) != r.g or back.setdefault(r.g, k) != k:
                return None
    if res["sw"] != 0 or res["mota"] is None or not core.close(res["mota"], 1.0):
        return f"perfect tracker (constant pairing, all TP, G = number of ground truths) scores MOTA={res['mota']} with {res['sw']} switch(es)"
    return None


# ----------------------------------------------------------------------------- scenario families

def _perfect_base(rng, n_tracks, n_frames, labels, dvals, p_absent=0.0, same_d=True):
    """a perfect-tracker history: track k = estimate id k <-> GT id k, all within the threshold"""
    tracks = []
    for k in range(1, n_tracks + 1):
        tracks.append((k, rng.choice(labels), rng.choice(dvals)))
    hist = []
    for i in range(n_frames):
        f = []
        for (k, lab, d) in tracks:
            if i > 0 and rng.random() < p_absent:
                continue
            dd = d if same_d else rng.choice(dvals)
            f.append([k, lab, k, lab, dd, 0.0])
        if i > 0:
            rng.shuffle(f)
        hist.append(f)
    return hist


def _apply_scenario(case):
    """the modified history of a scenario case (None for 'perfect')"""
    base, fam = case["hist"], case["family"]
    if fam == "perfect":
        return None
    k, a, b = case["k"], case["a"], case["b"]

    def ren(e):
        if fam == "newid":
            return b if e == a else e
        return b if e == a else a if e == b else e

    return [([list(s) for s in f] if i < k else [[ren(s[0])] + list(s[1:]) for s in f]) for i, f in enumerate(base)]


def _oracle_scenario(case, out):
    maximize = _maximize(case["mode"])
    thr = _thr(case["targets"], case["thrs"])
    base = case["hist"]
    fr = _frames_R(base, out["feat"], case.get("policy", "DEFAULT"))
    res = out["res"]
    g = case["g"]
    why = _check_clear(fr, maximize, thr, g, res, True)
    if why:
        return "base history: " + why
    # is the base history a perfect tracker?  (re-derived from the case, so shrunk variants stay sound)
    n = sum(len(f) for f in fr[1:])
    perfect = n > 0 and g == n
    pair: Dict[tuple, Any] = {}
    back: Dict[Any, tuple] = {}
    for f in fr:
        perfect = perfect and _one_to_one(f)
        for r in f:
            if r.g is None or r.key not in thr or r.w != 1 or any(not r.tp(maximize, t) for t in thr.values()):
                perfect = False
                continue
            k = (r.e, r.el)
            if pair.setdefault(k, r.g) != r.g or back.setdefault(r.g, k) != k:
                perfect = False
    if not perfect:
        return None
    if res["sw"] != 0 or res["mota"] is None or not core.close(res["mota"], 1.0) or core.F(res["fp"]) != 0:
        return f"perfect tracker scores MOTA={res['mota']}, id_switch={res['sw']}, fp={res['fp']} (expected 1, 0, 0)"
    fam = case["family"]
    if fam == "perfect":
        return None
    k, a, b = case["k"], case["a"], case["b"]
    if not (1 <= k < len(base)) or a == b:
        return None
    mod = out["res2"]
    fr2 = _frames_R(_apply_scenario(case), out["feat"], case.get("policy", "DEFAULT"))
    why = _check_clear(fr2, maximize, thr, g, mod, True)
    if why:
        return "modified history: " + why
    all_e = {s[0] for f in base for s in f}

    def count(i, e):
        return sum(1 for s in base[i] if s[0] == e)

    def gts_of(i, e):
        return {s[2] for s in base[i] if s[0] == e}

    if fam == "newid":
        # `a` is tracked (once) in frames k-1 and k on the same target; `b` is an id that never occurred
        if b in all_e or count(k - 1, a) != 1 or count(k, a) != 1 or gts_of(k - 1, a) != gts_of(k, a):
            return None
        want_sw = 1
    else:
        if any(count(i, e) != 1 for i in (k - 1, k) for e in (a, b)):
            return None
        if gts_of(k - 1, a) != gts_of(k, a) or gts_of(k - 1, b) != gts_of(k, b):
            return None
        want_sw = 2
    if mod["sw"] != want_sw:
        return f"{fam} at frame {k} (ids {a},{b}) costs {mod['sw']} switch(es), expected exactly {want_sw}"
    if core.F(mod["tp"]) != core.F(res["tp"]) or core.F(mod["fp"]) != 0:
        return f"{fam}: tp/fp changed from {res['tp']}/{res['fp']} to {mod['tp']}/{mod['fp']}"
    want = max(Fraction(0), 1 - Fraction(want_sw, g))
    if mod["mota"] is None or not core.close(mod["mota"], want):
        return f"{fam}: MOTA={mod['mota']}, expected 1 - {want_sw}/{g} = {float(want)}"
    return None


# ----------------------------------------------------------------------------- manager slice

_MGR_LABEL_NAMES = {LCAR: "car", LBIC: "bicycle", LPED: "pedestrian", LMOT: "motorbike"}


def _run_manager(case):
    from perception_eval.common.dataset import FrameGroundTruth
    from perception_eval.common.schema import FrameID
    from perception_eval.common.transform import HomogeneousMatrix
    from perception_eval.config import PerceptionEvaluationConfig
    from perception_eval.evaluation.result.perception_frame_config import CriticalObjectFilterConfig, PerceptionPassFailConfig
    from perception_eval.manager import PerceptionEvaluationManager

    L = _labels()
    T = [_MGR_LABEL_NAMES[i] for i in case["targets"]]
    n = len(T)
    d = {
        "evaluation_task": "tracking", "target_labels": T, "max_x_position": 1000.0, "max_y_position": 1000.0,
        "label_prefix": "autoware", "merge_similar_labels": False, "allow_matching_unknown": bool(case.get("allow_unknown", True)),
        "center_distance_thresholds": case["thr"]["center"], "plane_distance_thresholds": case["thr"]["plane"],
        "iou_2d_thresholds": case["thr"]["iou2d"], "iou_3d_thresholds": case["thr"]["iou3d"],
    }
    cfg = PerceptionEvaluationConfig(
        dataset_paths=[str(core.REPO / "perception_eval" / "test" / "sample_data")], frame_id="base_link",
        result_root_directory=tempfile.mkdtemp(prefix="c05_"), evaluation_config_dict=d,
    )
    m = PerceptionEvaluationManager(cfg)
    crit = CriticalObjectFilterConfig(cfg, T, max_x_position_list=[1000.0] * n, max_y_position_list=[1000.0] * n)
    pf = PerceptionPassFailConfig(cfg, T, matching_threshold_list=[2.0] * n)
    tpm = _tpm("ap")

    def canon_scores(tss):
        out = []
        for ts in tss:
            mo, mp, sw = ts._sum_clear()
            out.append({"mode": _mode_name(ts.matching_mode), "thrs": [float(c.matching_threshold_list[0]) for c in ts.clears],
                        "labels": [L.index(c.target_labels[0]) for c in ts.clears],
                        "clears": [_canon_clear(c) for c in ts.clears], "mota": _num(mo), "motp": _num(mp), "sw": int(sw)})
        return out

    frames_out = []
    for i, fr in enumerate(case["frames"]):
        t = 1000 * (i + 1)
        gts = [_obj(x, y, 0.0, lab, f"g{gid}", t) for (gid, lab, x, y) in fr["gts"]]
        ests = [_obj(x, y, yaw, lab, f"e{eid}", t) for (eid, lab, x, y, yaw) in fr["ests"]]
        fgt = FrameGroundTruth(t, str(i), gts, transforms=[HomogeneousMatrix((0, 0, 0), (1, 0, 0, 0), FrameID.BASE_LINK, FrameID.MAP)])
        r = m.add_frame_result(t, fgt, ests, crit, pf)
        rs = []
        for x in r.object_results:
            eo, go = x.estimated_object, x.ground_truth_object
            rs.append({
                "e": int(eo.uuid[1:]), "el": L.index(eo.semantic_label.label),
                "g": None if go is None else int(go.uuid[1:]), "gl": None if go is None else L.index(go.semantic_label.label),
                "ok": bool(x.is_label_correct), "v": {mn: _feat(x, mn, tpm)[0] for mn in MODES},
            })
        frames_out.append({"results": rs, "scores": canon_scores(r.metrics_score.tracking_scores),
                           "n_gt_left": len(r.frame_ground_truth.objects)})
    scene = m.get_scene_result()
    return {"frames": frames_out, "scene": canon_scores(scene.tracking_scores)}


def _mgr_bucket(targets, r) -> Optional[int]:
    """the label under whose history the manager files a result (independent reading of divide_objects)"""
    if r["el"] in targets:
        return r["el"]
    return r["gl"] if r["g"] is not None else None


def _mgr_R(r, mode, policy) -> _R:
    g = r["g"]
    return _R(r["e"], r["el"], g, r["gl"] if g is not None else None, (r["gl"] == LFP) if g is not None else False,
              Fraction(r["v"][mode]), _label_ok(r["el"], r["gl"], policy) if g is not None else False, Fraction(1))


def _oracle_totals(sc) -> Optional[str]:
    """_sum_clear: GT-weighted mean of the per-label MOTA, TP-weighted mean of the per-label MOTP, switches summed"""
    cl = sc["clears"]
    sw = sum(c["sw"] for c in cl)
    if sc["sw"] != sw:
        return f"total id_switch {sc['sw']} != sum over labels {sw}"
    G = sum(c["g"] for c in cl)
    if G == 0:
        if sc["mota"] is not None:
            return f"total MOTA={sc['mota']} with no ground truth"
    else:
        want = max(Fraction(0), sum((core.F(c["mota"]) * c["g"] for c in cl if c["mota"] is not None), Fraction(0)) / G)
        if sc["mota"] is None or not core.close(sc["mota"], want):
            return f"total MOTA={sc['mota']} != ground-truth-weighted mean {float(want)}"
    if all(core.F(c["tp"]).denominator == 1 for c in cl):
        TP = sum(core.F(c["tp"]) for c in cl)
        if TP == 0:
            if sc["motp"] is not None:
                return f"total MOTP={sc['motp']} with TP=0"
        else:
            want = sum((core.F(c["motp"]) * core.F(c["tp"]) for c in cl if c["motp"] is not None), Fraction(0)) / TP
            if sc["motp"] is None or not core.close(sc["motp"], want):
                return f"total MOTP={sc['motp']} != TP-weighted mean {float(want)}"
            pooled = sum(core.F(c["score"]) for c in cl) / TP
            if not core.close(sc["motp"], pooled):
                return f"total MOTP={sc['motp']} != pooled matching score / pooled TP = {float(pooled)}"
    return None


N1_TAG = "[C05-N1]"


def _oracle_manager(case, out):
    targets = case["targets"]
    policy = "ALLOW_UNKNOWN" if case.get("allow_unknown", True) else "DEFAULT"
    n1 = None
    frames = out["frames"]
    gt_counts = [[sum(1 for g in fr["gts"] if g[1] == l) for l in targets] for fr in case["frames"]]

    def check_score(sc, hists_raw: List[List[list]], gs: List[int], where: str):
        nonlocal n1
        mode = sc["mode"]
        maximize = _maximize(mode)
        if sc["labels"] != targets:
            return f"{where}: labels {sc['labels']} != target labels {targets}"
        for li, l in enumerate(targets):
            res = sc["clears"][li]
            thr = {l: Fraction(sc["thrs"][li])}
            hist = [[_mgr_R(r, mode, policy) for r in f if _mgr_bucket(targets, r) == l] for f in hists_raw]
            if res["g"] != gs[li]:
                return f"{where} {mode} label {l}: num_ground_truth {res['g']} != {gs[li]} ground truths of that label"
            why = _check_clear(hist, maximize, thr, res["g"], res, True)
            if why is None:
                why = _check_scenarios_generic(hist, maximize, thr, res["g"], res)
            if why:
                return f"{where} {mode} label {l}: {why}"
            n_bucket = sum(len(f) for f in hist[1:])
            if n1 is None and core.F(res["tp"]) + core.F(res["fp"]) != n_bucket:
                n1 = (f"{N1_TAG} {where} {mode} label {l}: {n_bucket} results are filed under the label after the initial frame but "
                      f"tp + fp = {res['tp']}+{res['fp']}: results whose ground truth carries another label are counted neither TP nor FP")
        return _oracle_totals(sc)

    prev: List[list] = []
    for i, fo in enumerate(frames):
        cur = fo["results"]
        for sc in fo["scores"]:
            why = check_score(sc, [prev, cur], gt_counts[i], f"frame {i}")
            if why:
                return why
        prev = cur
    allf = [[]] + [fo["results"] for fo in frames]
    gsum = [sum(gt_counts[i][li] for i in range(len(frames))) for li in range(len(targets))]
    if not out["scene"] and frames:
        return "scene result has no tracking score"
    for sc in out["scene"]:
        why = check_score(sc, allf, gsum, "scene")
        if why:
            return why
    return n1


# ----------------------------------------------------------------------------- interface: corpus / generate

def _s(e, g, d=0.5, el=LCAR, gl=LCAR, yaw=0.0):
    return [e, el, g, gl, d, yaw]


def _clear_case(hist, g, mode="center", targets=(LCAR,), thrs=(1.0,), tpm="ap", policy="DEFAULT", **kw):
    c = {"kind": "clear", "mode": mode, "targets": list(targets), "thrs": list(thrs), "g": g, "tpm": tpm, "policy": policy,
         "hist": hist, "ren": 7}
    c.update(kw)
    return c


def corpus():
    cs = []
    # the four probes of the design round
    cs.append(_clear_case([[]] + [[_s(1, 1), _s(2, 2)] for _ in range(3)], 6))
    cs.append(_clear_case([[], [_s(1, 1)], [_s(1, 1)], [_s(9, 1)], [_s(9, 1)]], 4))
    cs.append(_clear_case([[], [_s(1, 1), _s(2, 2)], [_s(1, 2), _s(2, 1)], [_s(1, 2), _s(2, 1)]], 6))
    cs.append(_clear_case([[], [_s(1, 1, 0.5)], [_s(1, 1, 5.0)], [_s(1, 1, 5.0)]], 3))  # carry-over of a failing current (B1), not chained
    # corners
    cs.append(_clear_case([], 0))
    cs.append(_clear_case([[]], 0))
    cs.append(_clear_case([[_s(1, 1)]], 1))
    cs.append(_clear_case([[], [_s(1, None), _s(2, 1, 3.0)]], 1))                       # only FPs: MOTA clamps at 0, MOTP inf
    cs.append(_clear_case([[], [_s(1, 1)]], 0))                                          # G = 0: MOTA inf
    cs.append(_clear_case([[], [_s(1, 1, 1.0)]], 1))                                     # distance == threshold: not better
    cs.append(_clear_case([[], [_s(1, 1, 0.5, gl=LFP), _s(2, 2, 3.0, gl=LFP)]], 2, targets=(LCAR, LFP), thrs=(1.0, 1.0)))  # FP-labelled GT
    cs.append(_clear_case([[], [_s(1, 1, 0.5, el=LBIC, gl=LBIC), _s(2, None, el=LPED), _s(3, 2, 0.5, el=LCAR, gl=LBIC)]], 1))  # non-target labels skipped
    cs.append(_clear_case([[_s(1, 1, 1.5, el=LCAR, gl=LCAR)], [_s(1, 1, 1.5), _s(2, 1, 0.5, el=LBIC, gl=LBIC)]], 2,
                          targets=(LCAR, LBIC), thrs=(2.0, 1.0)))                      # previous TP-ness depends on the CURRENT result's threshold
    cs.append(_clear_case([[_s(1, 1), _s(1, 2)], [_s(1, 2), _s(1, 1)]], 2))            # duplicate estimate id in a frame: scan order matters
    cs.append(_clear_case([[_s(1, 1, el=LCAR)], [_s(1, 1, el=LBIC, gl=LCAR)]], 1, policy="ALLOW_ANY"))  # same uuid, other estimate label
    cs.append(_clear_case([[], [_s(1, 1, 0.25, yaw=0.5)], [_s(1, 1, 0.5, yaw=1.0)], [_s(2, 1, 0.5, yaw=2.0)]], 3, tpm="aph"))
    cs.append(_clear_case([[], [_s(1, 1, 0.25)], [_s(1, 1, 0.5)], [_s(2, 1, 1.0)]], 3, mode="iou2d", thrs=(0.5,)))
    cs.append(_clear_case([[], [_s(1, 1, 0.25)], [_s(1, 1, 0.5)], [_s(2, 1, 1.0)]], 3, mode="iou3d", thrs=(0.3,), fresh=True))
    cs.append(_clear_case([[], [_s(1, 1, 0.25)], [_s(2, 1, 0.5)]], 2, mode="plane", thrs=(1.0,)))
    cs.append({"kind": "scenario", "family": "newid", "mode": "center", "targets": [LCAR], "thrs": [1.0], "g": 6,
               "hist": [[]] + [[_s(1, 1), _s(2, 2)] for _ in range(3)], "k": 2, "a": 1, "b": 9})
    cs.append({"kind": "scenario", "family": "swap", "mode": "center", "targets": [LCAR], "thrs": [1.0], "g": 6,
               "hist": [[]] + [[_s(1, 1), _s(2, 2)] for _ in range(3)], "k": 2, "a": 1, "b": 2})
    cs.append({"kind": "score", "mode": "center", "targets": [LCAR, LBIC, LPED], "thrs": [1.0, 0.5, 2.0], "gs": [2, 3, 0],
               "hists": [[[], [_s(1, 1)], [_s(2, 1)]], [[], [_s(3, 3, 0.75, LBIC, LBIC)], [_s(3, 3, 0.25, LBIC, LBIC), _s(4, None, el=LBIC)]], [[], []]]})
    # manager: the design-round scene, and the label-mismatch scene of finding C05-N1
    thr = {"center": [[1.0, 1.0, 1.0], [2.0, 0.5, 3.0]], "plane": [[2.0, 2.0, 2.0]], "iou2d": [[0.5, 0.5, 0.5]], "iou3d": [[0.5, 0.3, 0.5]]}
    cs.append({"kind": "manager", "targets": [LCAR, LBIC, LPED], "thr": thr, "allow_unknown": True, "frames": [
        {"gts": [[1, LCAR, 10.0, 0.0], [2, LCAR, 20.0, 0.0]], "ests": [[1, LCAR, 10.5, 0.0, 0.0], [2, LCAR, 20.5, 0.0, 0.0]]},
        {"gts": [[1, LCAR, 10.0, 0.0], [2, LCAR, 20.0, 0.0]], "ests": [[1, LCAR, 20.5, 0.0, 0.0], [2, LCAR, 10.5, 0.0, 0.0]]},
        {"gts": [[1, LCAR, 10.0, 0.0], [2, LCAR, 20.0, 0.0]], "ests": [[1, LCAR, 20.5, 0.0, 0.0], [3, LCAR, 10.5, 0.0, 0.0]]}]})
    cs.append({"kind": "manager", "targets": [LCAR, LBIC, LPED], "thr": thr, "allow_unknown": True, "frames": [
        {"gts": [[1, LCAR, 10.0, 0.0], [2, LBIC, 20.0, 0.0]], "ests": [[1, LCAR, 10.5, 0.0, 0.0], [2, LCAR, 20.5, 0.0, 0.0]]}
        for _ in range(3)]})
    # finding C05-N2: unknown estimate on an FP-labelled ground truth, then a frame without such a pair -> KeyError in evaluate_frame
    cs.append({"kind": "manager", "targets": [LCAR], "thr": {"center": [[1.0]], "plane": [[2.0]], "iou2d": [[0.3]], "iou3d": [[0.3]]},
               "allow_unknown": True, "frames": [{"gts": [[1, LFP, 10.0, 0.0]], "ests": [[2, LUNK, 10.5, 0.0, 0.0]]}, {"gts": [], "ests": []}]})
    # stored corner cases (harness/corpus/c05/*.json); duplicates of the above are dropped
    import json
    seen = {json.dumps(c, sort_keys=True) for c in cs}
    for f in sorted((core.VERIF / "harness" / "corpus" / "c05").glob("*.json")):
        c = json.loads(f.read_text())
        c.pop("_comment", None)
        k = json.dumps(c, sort_keys=True)
        if k not in seen:
            seen.add(k)
            cs.append(c)
    return cs


_DVALS = [0.0, 0.25, 0.5, 0.75, 1.0, 1.5, 2.5]
_YAWS = [0.0, 0.0, 0.0, 0.5, 3.0]


def _rand_thrs(rng, mode, n):
    if _maximize(mode):
        return [rng.choice([0.0, 0.1, 0.3, 0.3, 0.5, 0.7, 1.0]) for _ in range(n)]
    return [rng.choice([0.5, 1.0, 1.0, 1.5, 2.0, 2.0, 3.0]) for _ in range(n)]


def _rand_clear(rng, tier, long=False):
    mode = rng.choice(["center", "center", "plane", "iou2d", "iou3d"])
    ntl = rng.choice([1, 1, 2, 3])
    pool = [LCAR, LBIC, LPED, LFP]
    targets = rng.sample(pool, ntl)
    if LCAR not in targets and rng.random() < 0.8:
        targets[0] = LCAR
    if rng.random() < 0.1:
        targets.append(targets[0])  # a repeated target label: list.index takes the first threshold
    thrs = _rand_thrs(rng, mode, len(targets))
    policy = rng.choice(["DEFAULT", "DEFAULT", "ALLOW_UNKNOWN", "ALLOW_ANY"])
    tpm = "aph" if rng.random() < 0.2 else "ap"
    ntr = rng.randint(1, 12 if long else 4)
    nfr = rng.randint(2, 60) if long else rng.randint(1, 6)
    style = rng.choice(["tracks", "tracks", "chaos"])
    est_labels = [LCAR] * 6 + [LBIC, LBIC, LPED, LUNK]
    gt_labels = [LCAR] * 6 + [LBIC, LBIC, LPED, LFP]
    hist = []
    if style == "chaos":
        for _ in range(nfr):
            f = []
            for _ in range(rng.randint(0, min(ntr, 6))):
                g = rng.choice([None] + list(range(1, ntr + 1)))
                f.append([rng.randint(1, ntr), rng.choice(est_labels), g, rng.choice(gt_labels), rng.choice(_DVALS), rng.choice(_YAWS)])
            hist.append(f)
    else:
        # tracks with persistent labels; per frame the pairing is perturbed (switch / swap / drop / miss / duplicate)
        elab = {k: rng.choice(est_labels) for k in range(1, ntr + 3)}
        glab = {k: (elab[k] if rng.random() < 0.8 and elab[k] != LUNK else rng.choice(gt_labels)) for k in range(1, ntr + 1)}
        pairing = {k: k for k in range(1, ntr + 1)}  # est id -> gt id
        dcur = {k: rng.choice(_DVALS[:5]) for k in range(1, ntr + 1)}
        for i in range(nfr):
            r = rng.random()
            ks = list(pairing)
            if r < 0.15 and len(ks) >= 2:
                a, b = rng.sample(ks, 2)
                pairing[a], pairing[b] = pairing[b], pairing[a]
            elif r < 0.3 and ks:
                a = rng.choice(ks)
                new = rng.randint(1, ntr + 2)
                if new not in pairing:
                    pairing[new] = pairing.pop(a)
                    elab.setdefault(new, elab[a])
            elif r < 0.4 and ks:
                dcur[rng.choice(list(dcur))] = rng.choice(_DVALS)
            f = []
            for e, g in pairing.items():
                x = rng.random()
                if x < 0.1:
                    continue
                if x < 0.2:
                    f.append([e, elab[e], None, LCAR, 0.0, 0.0])
                    continue
                f.append([e, elab[e], g, glab[g], dcur[g] if rng.random() < 0.8 else rng.choice(_DVALS), rng.choice(_YAWS) if tpm == "aph" else 0.0])
                if x > 0.96:
                    f.append(list(f[-1]))  # duplicate result
            if rng.random() < 0.5:
                rng.shuffle(f)
            hist.append(f)
    n_gt = sum(1 for f in hist[1:] for s in f if s[2] is not None)
    g = rng.choice([n_gt, n_gt, n_gt + rng.randint(0, 5), rng.randint(0, 3), 0, 1])
    c = _clear_case(hist, g, mode, targets, thrs, tpm, policy)
    c["ren"] = rng.randint(0, 10**6)
    if rng.random() < 0.25 and not long:
        c["fresh"] = True
    return c


def _rand_scenario(rng, long=False):
    mode = rng.choice(["center", "center", "plane", "iou2d"])
    if _maximize(mode):
        thrs, dvals = [0.3], [0.0, 0.25, 0.5]
    else:
        thrs, dvals = [rng.choice([1.0, 2.0])], [0.0, 0.25, 0.5, 0.75]
    two = rng.random() < 0.3
    targets = [LCAR, LBIC] if two else [LCAR]
    if two:
        thrs = thrs * 2
    ntr = rng.randint(2, 10 if long else 4)
    nfr = rng.randint(3, 40 if long else 6)
    hist = _perfect_base(rng, ntr, nfr, targets, dvals, p_absent=rng.choice([0.0, 0.0, 0.15]), same_d=rng.random() < 0.5)
    fam = rng.choice(["perfect", "newid", "newid", "swap", "swap"])
    g = sum(len(f) for f in hist[1:])
    c = {"kind": "scenario", "family": fam, "mode": mode, "targets": targets, "thrs": thrs, "g": g, "hist": hist}
    if fam != "perfect":
        c["k"] = rng.randint(1, nfr - 1)
        c["a"] = rng.randint(1, ntr)
        c["b"] = 100 + rng.randint(0, 5) if fam == "newid" else rng.choice([x for x in range(1, ntr + 1) if x != c["a"]])
    return c


def _rand_score(rng):
    mode = rng.choice(MODES)
    n = rng.randint(1, 3)
    targets = rng.sample([LCAR, LBIC, LPED, LMOT], n)
    thrs = _rand_thrs(rng, mode, n)
    hists, gs = [], []
    for l in targets:
        sub = _rand_clear(rng, "quick")
        h = [[[s[0], l if rng.random() < 0.85 else s[1], s[2], l if rng.random() < 0.85 else s[3], s[4], 0.0] for s in f] for f in sub["hist"]]
        hists.append(h)
        n_gt = sum(1 for f in h[1:] for s in f if s[2] is not None)
        gs.append(rng.choice([n_gt, n_gt, 0, n_gt + 2, 1]))
    return {"kind": "score", "mode": mode, "targets": targets, "thrs": thrs, "gs": gs, "hists": hists}


def _rand_manager(rng, tier):
    n = rng.choice([1, 2, 3])
    targets = [LCAR, LBIC, LPED][:n]
    thr = {
        "center": [[rng.choice([0.5, 1.0, 2.0]) for _ in range(n)] for _ in range(rng.choice([1, 2]))],
        "plane": [[rng.choice([1.0, 2.0]) for _ in range(n)]],
        "iou2d": [[rng.choice([0.3, 0.5]) for _ in range(n)]],
        "iou3d": [[rng.choice([0.3, 0.5]) for _ in range(n)]],
    }
    ntr = rng.randint(1, 5)
    nfr = rng.randint(1, 6 if tier == "quick" else 10)
    glab = {k: rng.choice(targets + [targets[0]]) for k in range(1, ntr + 1)}
    if rng.random() < 0.25:
        glab[rng.randint(1, ntr)] = LFP  # an FP-labelled ground truth (always kept by the filters)
    gpos = {k: (10.0 * k, rng.choice([0.0, 4.0, -4.0])) for k in range(1, ntr + 1)}
    eid = {k: k for k in range(1, ntr + 1)}  # target -> estimate id currently tracking it
    elab = {}
    for k in range(1, ntr + 1):
        if glab[k] == LFP:
            elab[k] = LUNK if rng.random() < 0.04 else rng.choice(targets)  # unknown-on-FP-GT crashes the real code (C05-N2)
        else:
            elab[k] = glab[k] if rng.random() < 0.95 else rng.choice(targets + [LUNK])
    if rng.random() < 0.15:
        k = rng.randint(1, ntr)
        if glab[k] != LFP:
            elab[k] = LUNK  # an unknown-labelled estimate on an ordinary ground truth
    nxt = ntr + 1
    frames = []
    for _ in range(nfr):
        r = rng.random()
        ks = list(eid)
        if r < 0.2 and len(ks) >= 2:
            a, b = rng.sample(ks, 2)
            eid[a], eid[b] = eid[b], eid[a]
        elif r < 0.4:
            a = rng.choice(ks)
            eid[a] = nxt
            nxt += 1
        gts, ests = [], []
        for k in ks:
            if rng.random() < 0.9:
                gts.append([k, glab[k], gpos[k][0], gpos[k][1]])
            if rng.random() < 0.85:
                off = rng.choice([0.0, 0.25, 0.5, 0.75, 1.5, 2.5])
                ests.append([eid[k], elab[k], gpos[k][0] + off, gpos[k][1], rng.choice([0.0, 0.0, 0.25])])
        if rng.random() < 0.2:
            ests.append([nxt, rng.choice(targets), 10.0 * (ntr + 2), 8.0, 0.0])  # a ghost
            nxt += 1
        rng.shuffle(ests)
        frames.append({"gts": gts, "ests": ests})
    return {"kind": "manager", "targets": targets, "thr": thr, "allow_unknown": rng.random() < 0.7, "frames": frames}


_DEADLINE: Dict[str, float] = {}


def generate(rng, tier):
    cases: List[dict] = []
    _, frames = _alphabet(2, 2)
    # exhaustive part: one bundle per first frame, <= 3 frames
    for f0 in range(len(frames)):
        cases.append({"kind": "enum", "ne": 2, "ng": 2, "prefix": [f0], "depth": 3})
    if tier == "quick":
        n_clear, n_long, n_scen, n_score, n_mgr = 500, 40, 150, 80, 50
    else:
        n_clear, n_long, n_scen, n_score, n_mgr = 3000, 300, 800, 400, 400
    for _ in range(n_clear):
        cases.append(_rand_clear(rng, tier))
    for _ in range(n_long):
        cases.append(_rand_clear(rng, tier, long=True))
    for i in range(n_scen):
        cases.append(_rand_scenario(rng, long=(i % 5 == 0)))
    for _ in range(n_score):
        cases.append(_rand_score(rng))
    for _ in range(n_mgr):
        cases.append(_rand_manager(rng, tier))
    if tier == "thorough":
        # beyond the complete 3-frame space: 4-frame histories over 2x2 ids (bundle = two first frames, every 3rd and 4th),
        # 3- and 4-frame histories over 3x3 ids (bundle = all but the last frame, every last frame); prefixes drawn without
        # replacement and interleaved; run_impl stops evaluating them when the real-code time budget is used up (counted as enum:capped)
        _DEADLINE["t"] = time.time() + 400.0
        _DEADLINE["impl_budget"] = 130.0  # seconds of real-code time for the capped bundles (model + oracle cost ~1.5x as much again)
        _DEADLINE["impl_used"] = 0.0
        n2 = len(frames)
        pre4 = [[a, b] for a in range(n2) for b in range(n2)]
        rng.shuffle(pre4)
        _, frames3 = _alphabet(3, 3)
        n3 = len(frames3)
        pre3 = list(range(n3))
        rng.shuffle(pre3)
        pre34 = [[a, b] for a in range(n3) for b in range(n3)]
        rng.shuffle(pre34)
        for i in range(60):  # rounds: ~38k + 100k + 100k histories each
            for j in range(10):
                cases.append({"kind": "enum", "ne": 2, "ng": 2, "prefix": pre4[10 * i + j], "depth": 4, "capped": True})
            cases.append({"kind": "enum", "ne": 3, "ng": 3, "prefix": [pre3[i]], "depth": 3, "capped": True})
            cases.append({"kind": "enum", "ne": 3, "ng": 3, "prefix": pre34[i], "depth": 4, "capped": True})
    return cases


# ----------------------------------------------------------------------------- interface: run_impl

def run_impl(case):
    k = case["kind"]
    try:
        if k == "clear":
            hist = case["hist"]
            c, objs, tpm = _real_clear(hist, case["g"], case["targets"], case["mode"], case["thrs"], case["tpm"],
                                       case.get("policy", "DEFAULT"), case.get("fresh", False))
            out = {"res": _canon_clear(c), "feat": [[_feat(r, case["mode"], tpm) for r in f] for f in objs]}
            ren = _rename_maps(hist, case.get("ren", 0))
            c2, _, _ = _real_clear(hist, case["g"], case["targets"], case["mode"], case["thrs"], case["tpm"],
                                   case.get("policy", "DEFAULT"), case.get("fresh", False), ren=ren)
            out["ren"] = _canon_clear(c2)
            return out
        if k == "scenario":
            c, objs, tpm = _real_clear(case["hist"], case["g"], case["targets"], case["mode"], case["thrs"], "ap")
            out = {"res": _canon_clear(c), "feat": [[_feat(r, case["mode"], tpm) for r in f] for f in objs]}
            mod = _apply_scenario(case)
            if mod is not None:
                c2, _, _ = _real_clear(mod, case["g"], case["targets"], case["mode"], case["thrs"], "ap")
                out["res2"] = _canon_clear(c2)
            return out
        if k == "score":
            from perception_eval.evaluation.metrics.tracking.tracking_metrics_score import TrackingMetricsScore

            L = _labels()
            tpm = _tpm("ap")
            objs = [[[_result(s) for s in f] for f in h] for h in case["hists"]]
            tl = [L[i] for i in case["targets"]]
            ts = TrackingMetricsScore({l: o for l, o in zip(tl, objs)}, {l: g for l, g in zip(tl, case["gs"])}, tl,
                                      _mode(case["mode"]), list(case["thrs"]))
            mo, mp, sw = ts._sum_clear()
            return {"clears": [_canon_clear(c) for c in ts.clears], "mota": _num(mo), "motp": _num(mp), "sw": int(sw),
                    "feat": [[[_feat(r, case["mode"], tpm) for r in f] for f in h] for h in objs]}
        if k == "enum":
            if case.get("capped") and (time.time() > _DEADLINE.get("t", float("inf"))
                                       or _DEADLINE.get("impl_used", 0.0) > _DEADLINE.get("impl_budget", float("inf"))):
                return {"capped": True}
            t0 = time.time()
            out = _run_enum(case)
            if case.get("capped"):
                _DEADLINE["impl_used"] = _DEADLINE.get("impl_used", 0.0) + time.time() - t0
            return out
        if k == "manager":
            return _run_manager(case)
    except Exception as e:  # noqa
        return {"err": type(e).__name__, "msg": str(e)[:200]}
    raise ValueError(k)


# ----------------------------------------------------------------------------- interface: model

def _mres(s, x):
    e, el, g, gl, d, yaw = s
    return {"e": e, "el": el, "g": g, "gl": gl, "gfp": gl == LFP, "v": core.q(x[0]), "ok": bool(x[1]), "w": core.q(x[2])}


def _mhist(hist, feat):
    return [[_mres(s, x) for s, x in zip(f, ff)] for f, ff in zip(hist, feat)]


def model_requests(case, out):
    if "err" in out or out.get("capped"):
        return []
    k = case["kind"]
    if k == "clear" or k == "scenario":
        base = {"op": "clear", "maximize": _maximize(case["mode"]),
                "thresholds": [[l, core.q(t)] for l, t in zip(case["targets"], case["thrs"])], "g": case["g"]}
        reqs = [dict(base, hist=_mhist(case["hist"], out["feat"]))]
        if k == "scenario" and "res2" in out:
            reqs.append(dict(base, hist=_mhist(_apply_scenario(case), out["feat"])))
        return reqs
    if k == "score":
        return [{"op": "score", "maximize": _maximize(case["mode"]), "labels": [
            {"label": l, "thr": core.q(t), "g": g, "hist": _mhist(h, ft)}
            for l, t, g, h, ft in zip(case["targets"], case["thrs"], case["gs"], case["hists"], out["feat"])]}]
    if k == "enum":
        specs, frames = _alphabet(case["ne"], case["ng"])
        alpha = [_mres(s, [s[4] if s[2] is not None else 0.0, s[2] is not None, 1.0]) for s in specs]
        return [{"op": "enum", "maximize": False, "thresholds": [[LCAR, core.q(THR)]], "alphabet": alpha,
                 "frames": [list(f) for f in frames], "prefix": case["prefix"], "depth": case["depth"]}]
    if k == "manager":
        targets = case["targets"]
        gts = [[sum(1 for g in fr["gts"] if g[1] == l) for l in targets] for fr in case["frames"]]
        reqs = []
        for sc in out["scene"]:
            mode = sc["mode"]
            frames = [[{"e": r["e"], "el": r["el"], "g": r["g"], "gl": r["gl"] if r["g"] is not None else 0,
                        "gfp": r["gl"] == LFP, "v": core.q(r["v"][mode]), "ok": r["ok"], "w": "1"} for r in fo["results"]]
                      for fo in out["frames"]]
            reqs.append({"op": "scene", "maximize": _maximize(mode), "targets": [[l, core.q(t)] for l, t in zip(targets, sc["thrs"])],
                         "frames": frames, "gts": gts})
        return reqs
    return []


_FQ: Dict[str, Fraction] = {}


def _fq(x: str) -> Fraction:
    r = _FQ.get(x)
    if r is None:
        if len(_FQ) > 100000:
            _FQ.clear()
        r = _FQ[x] = Fraction(x)
    return r


def _cmp_clear(o: dict, m: dict, where="") -> Optional[str]:
    if o["predict_num"] != m["predict_num"]:
        return f"{where}predict_num impl {o['predict_num']} != model {m['predict_num']}"
    if core.F(o["fp"]) != m["fp"] or o["sw"] != m["sw"]:
        return f"{where}fp/id_switch impl {o['fp']}/{o['sw']} != model {m['fp']}/{m['sw']}"
    for a, b in (("tp", "tp"), ("score", "score"), ("mota", "mota"), ("motp", "motp")):
        if not core.close(o[a], core.unq(m[b])):
            return f"{where}{a} impl {o[a]} != model {m[b]}"
    return None


def _cmp_score(o: dict, m: dict, where="") -> Optional[str]:
    if len(o["clears"]) != len(m["clears"]):
        return f"{where}number of labels differs"
    for i, (a, b) in enumerate(zip(o["clears"], m["clears"])):
        if a["g"] != b["g"]:
            return f"{where}label #{i}: num_ground_truth impl {a['g']} != model {b['g']}"
        d = _cmp_clear(a, b, f"{where}label #{i}: ")
        if d:
            return d
    if o["sw"] != m["sw"]:
        return f"{where}total id_switch impl {o['sw']} != model {m['sw']}"
    for k in ("mota", "motp"):
        if not core.close(o[k], core.unq(m[k])):
            return f"{where}total {k} impl {o[k]} != model {m[k]}"
    return None


def compare(case, out, resps):
    if "err" in out:
        return f"implementation raised {out['err']}: {out.get('msg')}"
    k = case["kind"]
    if k == "clear":
        return _cmp_clear(out["res"], resps[0])
    if k == "scenario":
        d = _cmp_clear(out["res"], resps[0], "base: ")
        if d is None and "res2" in out:
            d = _cmp_clear(out["res2"], resps[1], "modified: ")
        return d
    if k == "score":
        return _cmp_score(out, resps[0])
    if k == "enum":
        mo = [[_fq(x) if isinstance(x, str) else x for x in row] for row in resps[0]["outs"]]
        if len(mo) != len(out["outs"]):
            return f"bundle sizes differ: impl {len(out['outs'])} model {len(mo)}"
        hs = None
        for i, (a, b) in enumerate(zip(out["outs"], mo)):
            ok = (a[1] == b[1] and a[2] == b[2] and a[6] == b[6] and core.close(a[0], b[0]) and core.close(a[3], b[3])
                  and core.close(a[4], b[4]) and core.close(a[5], b[5]))
            if not ok:
                hs = hs or _enum_hists(len(_alphabet(case["ne"], case["ng"])[1]), case["prefix"], case["depth"])
                return f"history {_enum_single(case, hs[i])['hist']}: impl [tp,fp,sw,score,mota,motp,n]={a} != model {b}"
        return None
    if k == "manager":
        for sc, r in zip(out["scene"], resps):
            d = _cmp_score(sc, r["scene"], f"scene {sc['mode']} {sc['thrs']}: ")
            if d:
                return d
            if len(r["frames"]) != len(out["frames"]):
                return "number of frames differs"
            for i, (fo, mf) in enumerate(zip(out["frames"], r["frames"])):
                mine = [x for x in fo["scores"] if x["mode"] == sc["mode"] and x["thrs"] == sc["thrs"]]
                if not mine:
                    return f"frame {i}: no tracking score for {sc['mode']} {sc['thrs']}"
                d = _cmp_score(mine[0], mf, f"frame {i} {sc['mode']} {sc['thrs']}: ")
                if d:
                    return d
        return None
    return None


# ----------------------------------------------------------------------------- interface: oracle / branches

_FACTS: Dict[int, Any] = {}


def _facts_clear(case, out):
    key = id(out)
    if key in _FACTS and _FACTS[key][0] is out:
        return _FACTS[key][1], _FACTS[key][2]
    fr = _frames_R(case["hist"], out["feat"], case.get("policy", "DEFAULT"))
    fa = _Facts(fr, _maximize(case["mode"]), _thr(case["targets"], case["thrs"]))
    if len(_FACTS) > 2000:
        _FACTS.clear()
    _FACTS[key] = (out, fr, fa)
    return fr, fa


def oracle(case, out):
    if "err" in out:
        return f"the real code raised {out['err']}: {out.get('msg')}"
    if out.get("capped"):
        return None
    k = case["kind"]
    if k == "clear":
        fr, fa = _facts_clear(case, out)
        maximize = _maximize(case["mode"])
        thr = _thr(case["targets"], case["thrs"])
        # the features handed to the model are re-derived where the case determines them
        for f, ff in zip(case["hist"], out["feat"]):
            for s, x in zip(f, ff):
                if s[2] is not None and case["mode"] == "center" and Fraction(x[0]) != Fraction(s[4]):
                    return f"center distance of a result displaced by {s[4]} is {x[0]}"
                if s[2] is not None and x[1] != _label_ok(s[1], s[3], case.get("policy", "DEFAULT")):
                    return f"is_label_correct={x[1]} for labels {s[1]},{s[3]} under {case.get('policy')}"
                if case["tpm"] == "ap" and x[2] != 1.0:
                    return f"TPMetricsAp weight {x[2]}"
        unit = case["tpm"] == "ap"
        why = _check_clear(fr, maximize, thr, case["g"], out["res"], unit, fa)
        if why:
            return why
        d = _same_out(out["res"], out["ren"])
        if d:
            return f"an injective renaming of the track ids changes the result ({d})"
        if unit:
            return _check_scenarios_generic(fr, maximize, thr, case["g"], out["res"])
        return None
    if k == "scenario":
        return _oracle_scenario(case, out)
    if k == "score":
        maximize = _maximize(case["mode"])
        for i, l in enumerate(case["targets"]):
            fr = _frames_R(case["hists"][i], out["feat"][i])
            why = _check_clear(fr, maximize, {l: Fraction(case["thrs"][i])}, case["gs"][i], out["clears"][i], True)
            if why:
                return f"label {l}: {why}"
            if out["clears"][i]["g"] != case["gs"][i]:
                return f"label {l}: num_ground_truth {out['clears'][i]['g']} != {case['gs'][i]}"
        return _oracle_totals(out)
    if k == "enum":
        return _oracle_enum(case, out)
    if k == "manager":
        return _oracle_manager(case, out)
    return None


def known_finding(case, out, failure):
    """C05-N1: through the manager a result is filed under its ESTIMATE's label (if that is a target label) but CLEAR looks
    the threshold up under its GROUND TRUTH's label, so a result whose ground truth carries another label is silently
    skipped: counted neither TP nor FP.  Signature: the failure is exactly that accounting gap and the scene contains such
    a result."""
    if case.get("kind") != "manager" or not isinstance(failure, str):
        return None
    t = case["targets"]
    if out.get("err") == "KeyError" and "false_positive" in str(out.get("msg")):
        # C05-N2: evaluate_frame raises KeyError when the PREVIOUS frame holds a result filed under a non-target label
        # (estimate label outside the target labels, e.g. unknown, matched to an FP-labelled ground truth) and the
        # current frame holds none: `tracking_results[label]` is indexed with the previous frame's keys.
        if any(e[1] not in t for fr in case["frames"] for e in fr["ests"]) and any(g[1] == LFP for fr in case["frames"] for g in fr["gts"]):
            return "C05-N2"
        return None
    if not failure.startswith(N1_TAG):
        return None
    for fo in out.get("frames", []):
        for r in fo["results"]:
            if r["el"] in t and r["g"] is not None and r["gl"] != r["el"]:
                return "C05-N1"
    return None


def branches(case, out):
    k = case["kind"]
    if "err" in out:
        return [f"{k}:err:{out['err']}" + ("(N2)" if k == "manager" and out["err"] == "KeyError" else "")]
    if k == "clear":
        fr, fa = _facts_clear(case, out)
        res = out["res"]
        b = [f"clear:mode:{case['mode']}", f"clear:tpm:{case['tpm']}", f"clear:policy:{case.get('policy')}",
             f"clear:labels:{len(case['targets'])}",
             "clear:frames:" + ("0" if not case["hist"] else "1" if len(case["hist"]) == 1 else "2-6" if len(case["hist"]) <= 6 else "7-20" if len(case["hist"]) <= 20 else "21-60")]
        if fa.n_eval == 0:
            b.append("trivial")
        for name, flag in (("carry-over", fa.has_carry), ("carry-over-of-failing-current", fa.has_carry_of_fp), ("switch", res["sw"] > 0),
                           ("fp", res["fp"] > 0), ("mota-clamped", case["g"] > 0 and res["tp"] - res["fp"] - res["sw"] < 0),
                           ("mota-inf", res["mota"] is None), ("motp-inf", res["motp"] is None), ("skipped-label", fa.n_skipped > 0),
                           ("gtless", fa.has_gtless), ("fp-labelled-gt-tp", fa.has_fp_gt_tp), ("dup-est-in-frame", fa.has_dup_in_frame),
                           ("not-one-to-one", not fa.well_formed), ("b1-neutral", fa.b1_neutral), ("fresh-objects", case.get("fresh", False)),
                           ("mota>1", res["mota"] is not None and res["mota"] > 1)):
            if flag:
                b.append("clear:" + name)
        return b
    if k == "scenario":
        return [f"scenario:{case['family']}:sw{out.get('res2', out['res'])['sw']}", f"scenario:mode:{case['mode']}"]
    if k == "score":
        return [f"score:labels:{len(case['targets'])}", f"score:mode:{case['mode']}",
                "score:mota-" + ("inf" if out["mota"] is None else "0" if out["mota"] == 0 else "pos"),
                "score:motp-" + ("inf" if out["motp"] is None else "num")]
    if k == "enum":
        if out.get("capped"):
            return ["enum:capped", "trivial"]
        return [f"enum:{case['ne']}x{case['ng']}:depth{case['depth']}"]
    if k == "manager":
        b = [f"manager:frames:{len(case['frames'])}", f"manager:labels:{len(case['targets'])}"]
        sws = [c["sw"] for sc in out["scene"] for c in sc["clears"]]
        if any(s > 0 for s in sws):
            b.append("manager:switch")
        t = case["targets"]
        if any(r["el"] in t and r["g"] is not None and r["gl"] != r["el"] for fo in out["frames"] for r in fo["results"]):
            b.append("manager:label-mismatch(N1)")
        if any(r["g"] is None for fo in out["frames"] for r in fo["results"]):
            b.append("manager:gtless")
        if any(r["g"] is not None and r["gl"] == LFP for fo in out["frames"] for r in fo["results"]):
            b.append("manager:fp-labelled-gt")
        if any(r["el"] == LUNK for fo in out["frames"] for r in fo["results"]):
            b.append("manager:unknown-estimate")
        if not any(fo["results"] for fo in out["frames"]):
            b.append("trivial")
        return b
    return [k]


# ----------------------------------------------------------------------------- shrink / search / evidence

def shrink(case):
    k = case["kind"]
    if k == "enum":
        out = run_impl(case)
        if "outs" not in out:
            return
        if out.get("ren_bad") is not None:
            yield _enum_single(case, out["ren_bad"])
        specs, frames = _alphabet(case["ne"], case["ng"])
        hs = _enum_hists(len(frames), case["prefix"], case["depth"])
        n = 0
        for h in sorted(hs, key=len):
            single = _enum_single(case, h)
            o = run_impl(single)
            if oracle(single, o):
                yield single
                n += 1
                if n >= 3:
                    return
        return
    if k in ("clear", "scenario"):
        hist = case["hist"]
        for i in range(len(hist) - 1, -1, -1):
            if k == "scenario" and i < case.get("k", 0) + 1:
                continue
            c = dict(case, hist=hist[:i] + hist[i + 1:])
            if k == "clear" or i >= 1:
                yield c
        for i, f in enumerate(hist):
            for j in range(len(f)):
                yield dict(case, hist=hist[:i] + [f[:j] + f[j + 1:]] + hist[i + 1:])
        if k == "clear" and len(case["targets"]) > 1:
            for i in range(len(case["targets"])):
                yield dict(case, targets=case["targets"][:i] + case["targets"][i + 1:], thrs=case["thrs"][:i] + case["thrs"][i + 1:])
        return
    if k == "manager":
        fr = case["frames"]
        for i in range(len(fr) - 1, -1, -1):
            yield dict(case, frames=fr[:i] + fr[i + 1:])
        for i, f in enumerate(fr):
            for key in ("ests", "gts"):
                for j in range(len(f[key])):
                    g = dict(f)
                    g[key] = f[key][:j] + f[key][j + 1:]
                    yield dict(case, frames=fr[:i] + [g] + fr[i + 1:])
        return
    if k == "score":
        for i in range(len(case["targets"])):
            if len(case["targets"]) > 1:
                yield dict(case, targets=case["targets"][:i] + case["targets"][i + 1:], thrs=case["thrs"][:i] + case["thrs"][i + 1:],
                           gs=case["gs"][:i] + case["gs"][i + 1:], hists=case["hists"][:i] + case["hists"][i + 1:])


def search(rng, st, disagreements):
    """targeted extra cases when a proof or the correspondence broke: small random histories of every style (the
    exhaustive bundles are part of generate(), which the runner repeats with fresh seeds)"""
    cs = []
    for _ in range(1500):
        cs.append(_rand_clear(rng, "quick"))
    for _ in range(300):
        cs.append(_rand_scenario(rng))
    for _ in range(100):
        cs.append(_rand_score(rng))
    return cs


def extra_evidence():
    return {"enumerated": dict(ENUMERATED),
            "enumerated_space": {"2x2:depth3 (complete in both tiers)": 61 + 61 ** 2 + 61 ** 3, "2x2:depth4 (thorough, sampled bundles)": 61 ** 4,
                                 "3x3:depth3 (thorough, sampled bundles)": 316 ** 3, "3x3:depth4 (thorough, sampled bundles)": 316 ** 4}}
