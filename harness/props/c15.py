"""C15 — configurations are validated; thresholds normalised to one value per label.

Tie to the code: (i) translator — supported-task lists, metric-config parameter names and the label enums
the model consults are regenerated from /repo; (ii) correspondence — the real `set_thresholds` on an
exhaustively enumerated space of specification trees x n x nest, the real `PerceptionEvaluationConfig` /
`SensingEvaluationConfig` / `CriticalObjectFilterConfig` / `PerceptionPassFailConfig` on configurations
obtained by deleting / adding / corrupting keys of a valid configuration of every task, compared with the
Lean model (accept / reject, normalised per-label lists; the error class only for set_thresholds -> ThresholdError); (iii) oracle — the property text re-stated in
Python (shape, broadcast-only, idempotence, rejection rules; acceptance rules of a configuration),
independent of the model.

Wire format of a Python value ("PyVal"): None -> null, bool -> true/false, list -> array,
number -> {"q": "p/q"} (+ "f": 1 when an integral value is to be a float), str -> {"s": "..."},
any other object -> {"x": kind, "r": text} (table `_EXOTIC`: bytes, bytearray, tuple, dict, numpy arrays,
Decimal, complex, numpy scalars, Fraction, inf / nan).  Towards the model (`to_model`) an exotic value that
is a `numbers.Real` becomes a number (its exact value; inf / nan: a placeholder, the model never computes
with entries), every other one becomes `PyVal.other`.
"""
from __future__ import annotations

import atexit
import copy
import itertools
import json
import math
import shutil
import tempfile
from fractions import Fraction
from pathlib import Path

from .. import core

PROP = "C15"
EXHAUSTIVE = True  # the set_thresholds space (see RULE); the configuration mutations are enumerated + sampled
THEOREMS = [
    "PEval.C15." + t
    for t in [
        "is3d_agrees_with_source", "readKeys_match_source",
        "setThresholds_shape", "setThresholds_shape_flat", "setThresholds_shape_nested", "setThresholds_numeric",
        "no_pad_no_truncate", "no_pad_no_truncate_flat", "no_pad_no_truncate_nested", "setThresholds_idem",
        "setThresholds_accepts_iff_flat", "setThresholds_accepts_iff_nested", "rejects_malformed",
        "rejects_only_errors", "rejects_none_str", "rejects_empty", "rejects_wrong_length_flat",
        "rejects_wrong_length_nested", "rejects_mixed_nesting", "rejects_nested_in_flat", "rejects_too_deep",
        "rejects_non_numeric_flat", "rejects_non_numeric_nested",
        "checkThresholds_sound", "checkNestedThresholds_sound", "non_numbers_not_real", "check_rejects_non_numeric", "rejects_other",
        "optFlat_sound", "optNested_sound", "metric_param_keys_valid", "checkParameters_sound", "support_tasks_wellformed",
        "config_accept_sound", "config_ignores_unread_key", "sensing_accept_sound",
        "critical_accept_sound", "passfail_accept_sound",
        # audit round 2: nLabels tied to the configuration's own target-label list (through the C14 converter model), sharp
        # per-list statements, error exits, idempotence for every n
        "config_nLabels_is_target_count", "config_targets_closed_form", "config_accept_sound_targets",
        "metrics_params_keys_fixed", "config_rejects_bad_targets", "target_list_error_iff",
        "config_rejects_both_range_kinds", "config_rejects_incomplete_range_3d", "label_enum_sizes_pos",
        "frame_config_n_is_target_count", "setThresholds_idem_iff",
    ]
]
RULE = (
    "set_thresholds: EXHAUSTIVE over (F1) every PyVal tree with <= 5 (quick) / <= 7 (thorough) nodes, nesting <= 3, "
    "list lengths <= 3, leaves in {number, bool, str, None} x n in 0..4 x nest in {F,T}, and (F2) every all-numeric "
    "tree of nesting <= 2 with list lengths <= 3 (157 shapes, distinct leaf values) together with every single-leaf "
    "corruption by {bool, str, None, [x], []} x n in 1..4 x nest in {F,T}, and (F3) for n in 1..4 every all-numeric flat "
    "list / list of <= 3 rows with lengths in {0,1,n-1,n,n+1} (+ single-leaf corruptions for <= 2 rows) x nest, and (F4) every "
    "all-numeric tree of F2 with every single leaf and every single row replaced by an entry that only LOOKS numeric, from four "
    "classes: strings float() would parse ('0.5', '2', '1e-3', 'nan', 'inf', ' 3 ', '1_0', a non-ASCII digit ...), objects that are no "
    "numbers (bytes, bytearray, tuple, dict, numpy arrays), numeric objects that are no numbers.Real (Decimal, complex, numpy.bool_, "
    "0-dimensional arrays), and numbers.Real that are no plain finite int/float (Fraction, numpy float64/float32/int64, inf, -inf, nan) "
    "- thorough: every value x n in 1..4, quick: two values per class in rotation x the n for which the uncorrupted tree is well-formed - "
    "plus seeded trees with 2-3 such entries. The direct entry points check_thresholds / check_nested_thresholds run on the same "
    "specifications (flat-mode ones / nested-mode ones; F1 only up to 4 (quick) / 5 (thorough) nodes). Configurations: for each of the 8 perception "
    "tasks (x range kind x label prefix) and the sensing task, a valid evaluation_config_dict with every single key "
    "deleted, every pool key added, every key corrupted by every pool value, every key that holds a threshold specification given "
    "well-shaped lists with one look-numeric entry (full row, singleton, second row, singleton row; quick: 8 per key in rotation), "
    "every combination of the four range bounds absent / positive / given-but-falsy (0, 0.0), every frame-id variant, plus seeded "
    "random double/triple mutations; CriticalObjectFilterConfig / PerceptionPassFailConfig keyword lists mutated the "
    "same way. A case is trivial only if it is an unchanged valid base configuration; distinct = distinct canonical JSON."
)
TRUSTED = [
    "translator harness/gen_tables.py (reads _support_tasks, inspect.signature of the metrics config classes, the label enums)",
    "model facts not regenerated: EvaluationTask.is_3d membership, the keys of f_params / m_params written in "
    "_extract_params, LabelConverter's label_prefix dispatch (all exercised by the correspondence run)",
    "objects other than int/float/bool/str/None/list are one constructor `PyVal.other` of the model (not Real, not a list, no len()); "
    "those with a length or iteration (bytes, bytearray, tuple, dict, numpy arrays of dimension >= 1) are used in entry positions only "
    "(items of a list, rows), where the code asks nothing but isinstance(., Real) / isinstance(., list) of them; as a whole "
    "specification they are outside the model",
    "numbers.Real objects other than int/float (Fraction, numpy scalars) reach the model as their exact value, inf / -inf / nan as three "
    "placeholder numbers (the model never computes with entries); the oracle compares results with the inputs including their type",
]
ASSUMPTIONS = [
    "threshold specifications are built from int, float, bool, str, None, list and the objects of the table _EXOTIC "
    "(bool is a numbers.Real, as in the code)",
    "the oracle classifies an entry by its TYPE: a number = a plain finite int / float; not a number (must be rejected) = str whatever "
    "its content, bytes, bytearray, None, tuple, dict, numpy arrays of dimension >= 1, a list where a number is expected; the text "
    "is silent on bool, Fraction, numpy scalars, inf / nan, Decimal, complex, 0-dimensional arrays: a specification holding one of "
    "these may be accepted or rejected (the unchanged code accepts exactly the numbers.Real ones - that is compared in the "
    "correspondence), but when accepted it must be normalised like a number (kept verbatim, broadcast only); any exception "
    "counts as rejection, the error kind is compared only in the correspondence",
    "check_thresholds / check_nested_thresholds called directly: an accepted value that is a list must be a normal form (exactly n "
    "numbers / rows of exactly n numbers) and is returned unchanged; a normal form of plain numbers must be accepted; values that "
    "are not lists are outside their documented domain and only compared with the model",
    "B3: a missing or falsy (None, 0, 0.0, False, '', []) metric threshold is not a rejection; what is exposed for a parameter "
    "that was not given (today None / []) is not in the text: the oracle only asks that an exposed list holds one value per "
    "target label; the mandatory parameters judged by the oracle are the task, one complete range kind for 3-D tasks and "
    "min_point_numbers for detection (the code declares it; a parameter with a default is not mandatory) - label_prefix is "
    "compared with the model only and a default for it is a counted skip",
    "the number of target labels is the number of names the caller listed (a non-empty list of strings), independent of the "
    "implementation's own target_labels; for None / [] (all labels) it is the implementation's list, compared with the model's "
    "converted list (op config_targets, theorem config_nLabels_is_target_count)",
    "error kinds: any exception is a rejection; the class is compared (model vs code, a subclass matches) only for "
    "set_thresholds -> ThresholdError, which observe_at names; cases that vary the frame-id argument are outside the "
    "quantifier (configuration dictionaries): a disagreement about their acceptance is a counted skip",
    "frame configs (CriticalObjectFilterConfig / PerceptionPassFailConfig): an accepted list is the argument itself or its "
    "broadcast (the text admits both rejecting and broadcasting a singleton there)",
    "the caller's specification: not 'left untouched' (not in the text) but 'still the same specification when normalised "
    "again for another number of labels' (clause `reuse`)",
    "an unknown metric parameter = a key ending in '_thresholds' that is not a parameter of the metrics config (finding F8)",
    "for n = 0 the oracle only checks the shape of accepted results (the code rejects every nested specification)",
    "a flat list of exactly n numbers in nested mode may be read as one row or as n broadcast rows (the code: one row)",
]

F8_ID = "F8-unknown-metric-param"
CORPUS_DIR = Path(__file__).resolve().parent.parent / "corpus" / "c15"

# --------------------------------------------------------------------------- PyVal wire format


def _np():
    import numpy as np

    return np


def _floats(r):
    return [float(t) for t in r.split(",") if t]


# kind -> (constructor from the text, class, is a numbers.Real, usable at the top level of a specification)
# class: "real" = a numbers.Real that is not a plain finite int / float; "silent" = a numeric object that is
# not a numbers.Real (the property text does not say whether it is a number); "non" = not a number.
_EXOTIC = {
    "bytes": (lambda r: r.encode(), "non", False, False),
    "bytearray": (lambda r: bytearray(r.encode()), "non", False, False),
    "tuple": (lambda r: tuple(_floats(r)), "non", False, False),
    "dict": (lambda r: {t: 1.0 for t in r.split(",") if t}, "non", False, False),
    "np.array1": (lambda r: _np().array(_floats(r)), "non", False, False),
    "np.array2": (lambda r: _np().array([_floats(r)]), "non", False, False),
    "np.array0": (lambda r: _np().array(float(r)), "silent", False, True),
    "np.bool_": (lambda r: _np().bool_(r == "True"), "silent", False, True),
    "Decimal": (lambda r: __import__("decimal").Decimal(r), "silent", False, True),
    "complex": (lambda r: complex(r), "silent", False, True),
    "Fraction": (lambda r: Fraction(r), "real", True, True),
    "np.float64": (lambda r: _np().float64(r), "real", True, True),
    "np.float32": (lambda r: _np().float32(r), "real", True, True),
    "np.int64": (lambda r: _np().int64(r), "real", True, True),
    "float": (lambda r: float(r), "real", True, True),  # inf, -inf, nan only
}
_PLACEHOLDER = {"inf": 10 ** 30, "-inf": -(10 ** 30), "nan": 10 ** 30 + 1}


def X(kind, r):
    return {"x": kind, "r": r}


def to_py(w):
    if w is None or isinstance(w, bool):
        return w
    if isinstance(w, list):
        return [to_py(x) for x in w]
    if isinstance(w, dict):
        if "q" in w:
            f = Fraction(w["q"])
            if f.denominator == 1 and not w.get("f"):
                return int(f)
            return float(f)
        if "s" in w:
            return w["s"]
        if "x" in w:
            return _EXOTIC[w["x"]][0](w["r"])
        if "other" in w:
            return _Unknown(w["other"])
    raise ValueError(f"bad wire value {w!r}")


class _Unknown:
    """an object of a kind the wire format does not know (never a number)"""

    def __init__(self, text):
        self.text = text

    def __repr__(self):
        return f"<{self.text}>"


def _enc_exotic(x):
    """wire form of a supported non-PyVal object, or None"""
    import decimal

    np = _np()
    if isinstance(x, bool):
        return None
    if isinstance(x, float) and not isinstance(x, np.floating) and (math.isnan(x) or math.isinf(x)):
        return X("float", "nan" if math.isnan(x) else ("inf" if x > 0 else "-inf"))
    if isinstance(x, np.float64):
        return X("np.float64", repr(float(x)))
    if isinstance(x, np.float32):
        return X("np.float32", repr(float(x)))
    if isinstance(x, np.int64):
        return X("np.int64", str(int(x)))
    if isinstance(x, np.bool_):
        return X("np.bool_", str(bool(x)))
    if isinstance(x, np.ndarray):
        if x.ndim == 0:
            return X("np.array0", repr(float(x)))
        if x.ndim == 1:
            return X("np.array1", ",".join(repr(float(t)) for t in x))
        if x.ndim == 2 and x.shape[0] == 1:
            return X("np.array2", ",".join(repr(float(t)) for t in x[0]))
        return None
    if isinstance(x, Fraction):
        return X("Fraction", str(x))
    if isinstance(x, decimal.Decimal):
        return X("Decimal", str(x))
    if isinstance(x, complex):
        return X("complex", repr(x))
    if isinstance(x, bytes):
        return X("bytes", x.decode())
    if isinstance(x, bytearray):
        return X("bytearray", x.decode())
    if isinstance(x, tuple) and all(type(t) is float for t in x):
        return X("tuple", ",".join(repr(t) for t in x))
    if isinstance(x, dict) and all(isinstance(t, str) for t in x):
        return X("dict", ",".join(x))
    return None


def from_py(x):
    if x is None or isinstance(x, bool):
        return x
    if type(x) in (int, float) and not (isinstance(x, float) and (math.isnan(x) or math.isinf(x))):
        return {"q": core.q(x)}
    if isinstance(x, str):
        return {"s": x}
    if isinstance(x, list):
        return [from_py(y) for y in x]
    e = _enc_exotic(x)
    if e is not None:
        return e
    if isinstance(x, (int, float)) and not (isinstance(x, float) and (math.isnan(x) or math.isinf(x))):
        return {"q": core.q(x)}
    return {"other": type(x).__name__ + ":" + repr(x)[:60]}


def strip(w):
    """wire value without the float flag (canonical form for equality; exotic values keep their kind)"""
    if isinstance(w, list):
        return [strip(x) for x in w]
    if isinstance(w, dict) and "q" in w:
        return {"q": w["q"]}
    return w


def to_model(w):
    """wire value in the model's language: exotic Reals are numbers, every other exotic value is `other`"""
    if isinstance(w, list):
        return [to_model(x) for x in w]
    if isinstance(w, dict):
        if "q" in w:
            return {"q": w["q"]}
        if "x" in w and "r" in w:
            if _EXOTIC[w["x"]][2]:
                if w["x"] == "Fraction":
                    return {"q": core.q(Fraction(w["r"]))}
                val = to_py(w)
                val = val.item() if hasattr(val, "item") else val
                if isinstance(val, float) and not math.isfinite(val):
                    return {"q": core.q(_PLACEHOLDER["nan" if math.isnan(val) else "inf" if val > 0 else "-inf"])}
                return {"q": core.q(val)}
            return {"x": w["x"] + ":" + w["r"]}
    return w


def _model_dict(d):
    return {kk: to_model(v) for kk, v in d.items()} if isinstance(d, dict) else d


def num(x):
    """wire number of a Python int/float literal"""
    w = {"q": core.q(x)}
    if isinstance(x, float) and float(x).is_integer():
        w["f"] = 1
    return w


def W(x):
    """wire value of a Python literal (ints stay ints, floats stay floats; wire dicts pass through)"""
    if x is None or isinstance(x, bool):
        return x
    if isinstance(x, dict) and ("x" in x or "q" in x or "s" in x):
        return x
    if type(x) in (int, float) and not (isinstance(x, float) and (math.isnan(x) or math.isinf(x))):
        return num(x)
    if isinstance(x, str):
        return {"s": x}
    if isinstance(x, list):
        return [W(y) for y in x]
    e = _enc_exotic(x)
    if e is not None:
        return e
    raise ValueError(x)


# --------------------------------------------------------------------------- the set_thresholds space

_NUMS = [1, 2.5, 3, 0.5, 4, 0, 7.25, -1, 9.0, 6, 0.125, 12]
_STRS = ["a", "", "xy"]


def _trees(size, depth, memo={}):
    """all tree skeletons with exactly `size` nodes, nesting <= depth, list length <= 3; leaves N B S Z"""
    key = (size, depth)
    if key in memo:
        return memo[key]
    out = []
    if size == 1:
        out += ["N", "B", "S", "Z"]
        if depth >= 1:
            out.append(())
    elif depth >= 1:
        for k in (1, 2, 3):
            for parts in itertools.product(range(1, size), repeat=k):
                if sum(parts) != size - 1:
                    continue
                for combo in itertools.product(*[_trees(p, depth - 1) for p in parts]):
                    out.append(tuple(combo))
    memo[key] = out
    return out


def _fill(skel, ctr):
    """skeleton -> wire value; leaf values depend on the DFS position so that rows are distinguishable"""
    if isinstance(skel, tuple):
        return [_fill(s, ctr) for s in skel]
    i = ctr[0]
    ctr[0] += 1
    if skel == "N":
        return num(_NUMS[i % len(_NUMS)])
    if skel == "B":
        return i % 2 == 0
    if skel == "S":
        return {"s": _STRS[i % len(_STRS)]}
    return None


# (F4) entries that look numeric but are not plain numbers, by class
_NUMSTR = [{"s": t} for t in ["0.5", "2", "1e-3", "nan", "inf", "-1", " 3 ", "1_0", "12", "\u0663", "0x10", "1.0"]]
_NONNUM = [X("bytes", "1"), X("bytes", "0.5"), X("bytearray", "2"), X("tuple", "1.0"), X("tuple", ""), X("tuple", "1.0,2.0"),
           X("dict", ""), X("dict", "a"), X("np.array1", "1.0"), X("np.array1", "1.0,2.0"), X("np.array1", ""), X("np.array2", "1.0")]
_SILENT = [X("Decimal", "0.5"), X("Decimal", "2"), X("complex", "(1+0j)"), X("complex", "2j"), X("np.bool_", "True"),
           X("np.array0", "0.5"), X("Decimal", "NaN")]
_REALS = [X("Fraction", "1/3"), X("Fraction", "2"), X("np.float64", "0.25"), X("np.float32", "0.5"), X("np.int64", "3"),
          X("float", "inf"), X("float", "-inf"), X("float", "nan"), X("np.float64", "nan")]
EXOTIC_CLASSES = [("numstr", _NUMSTR), ("nonnum", _NONNUM), ("silent", _SILENT), ("real", _REALS)]


def _top_level_ok(w):
    """may the wire value stand for a whole specification (not only for an entry)?"""
    return not (isinstance(w, dict) and "x" in w) or _EXOTIC[w["x"]][3]


def _fill_with(skel, path, w, ctr, at=()):
    """like _fill, with the leaf at `path` replaced by the wire value `w`"""
    if at == path:
        if not isinstance(skel, tuple):
            ctr[0] += 1
        return w
    if isinstance(skel, tuple):
        return [_fill_with(sk, path, w, ctr, at + (i,)) for i, sk in enumerate(skel)]
    return _fill(skel, ctr)


def _numeric_shapes():
    """all-numeric skeletons of nesting <= 2 with list lengths <= 3 (157)"""
    elems = ["N"] + [tuple("N" for _ in range(k)) for k in range(4)]
    out = ["N"]
    for k in range(4):
        out += [tuple(c) for c in itertools.product(elems, repeat=k)]
    return out


def _leaf_paths(skel, path=()):
    if isinstance(skel, tuple):
        for i, s in enumerate(skel):
            yield from _leaf_paths(s, path + (i,))
    else:
        yield path


def _replace(skel, path, new):
    if not path:
        return new
    l = list(skel)
    l[path[0]] = _replace(l[path[0]], path[1:], new)
    return tuple(l)


def thr_space(max_nodes, rng=None, tier="quick"):
    seen = set()
    cases = []
    rot = [0, 1, 2, 3]

    def add(w, ns):
        key = json.dumps(w, sort_keys=True)
        for n in ns:
            for nest in (False, True):
                k = (key, n, nest)
                if k not in seen:
                    seen.add(k)
                    cases.append({"kind": "thr", "v": w, "n": n, "nest": nest})

    for size in range(1, max_nodes + 1):
        for sk in _trees(size, 3):
            add(_fill(sk, [0]), range(0, 5))
    thr_space.n_f1 = len(cases)
    for sk in _numeric_shapes():
        add(_fill(sk, [0]), range(1, 5))
        for p in _leaf_paths(sk):
            for new in ("B", "S", "Z", ("N",), ()):
                add(_fill(_replace(sk, p, new), [0]), range(1, 5))
    # (F4) every leaf (and every row) of every all-numeric shape replaced by a value that looks numeric but is no
    # plain number: thorough = every value of every class, quick = two values of every class in rotation
    for sk in _numeric_shapes():
        paths = list(_leaf_paths(sk))
        if isinstance(sk, tuple):
            paths += [(i,) for i, r in enumerate(sk) if isinstance(r, tuple)]  # a whole row
        ns4 = list(range(1, 5))
        if tier == "quick":  # quick: only the n for which the uncorrupted shape is well-formed in some mode (+ one other)
            pv = to_py(_fill(sk, [0]))
            ns4 = [n for n in ns4 if spec_flat(pv, n) is not None or spec_nested(pv, n) is not None]
            ns4 = ns4[:3] if len(ns4) == 4 else ns4
        for p in paths:
            for ci, (_cls, vals) in enumerate(EXOTIC_CLASSES):
                if tier == "quick":
                    pick = [vals[(2 * rot[ci] + j) % len(vals)] for j in range(2)]
                    rot[ci] += 1
                else:
                    pick = vals
                for w in pick:
                    if p == () and not _top_level_ok(w):
                        continue
                    add(_fill_with(sk, p, w, [0]), ns4)
    if rng is not None:  # several such entries at once
        shapes = [sk for sk in _numeric_shapes() if isinstance(sk, tuple) and sk]
        allv = [w for _c, vals in EXOTIC_CLASSES for w in vals]
        for _ in range(400 if tier == "quick" else 6000):
            sk = rng.choice(shapes)
            v = _fill(sk, [0])
            for _k in range(rng.choice([2, 2, 3])):
                i = rng.randrange(len(v))
                if isinstance(v[i], list) and v[i] and rng.random() < 0.8:
                    v[i][rng.randrange(len(v[i]))] = rng.choice(allv)
                else:
                    v[i] = rng.choice(allv)
            add(v, [rng.randrange(1, 5)])
    # (F3) lengths relative to n: flat lists and up to 3 rows whose lengths are in {0, 1, n-1, n, n+1}
    for n in range(1, 5):
        lens = sorted({0, 1, n - 1, n, n + 1})
        rows = [tuple("N" for _ in range(k)) for k in lens]
        for r in rows:
            add(_fill(r, [0]), [n])
        for k in (1, 2, 3):
            for combo in itertools.product(rows, repeat=k):
                sk = tuple(combo)
                add(_fill(sk, [0]), [n])
                if k <= 2:
                    for p in _leaf_paths(sk):
                        for new in ("B", "S", "Z"):
                            add(_fill(_replace(sk, p, new), [0]), [n])
    return cases


# --------------------------------------------------------------------------- configurations

TASKS_3D = ["detection", "tracking", "prediction", "fp_validation"]
TASKS_2D = ["detection2d", "tracking2d", "classification2d", "fp_validation2d"]
ALL_TASK_STRINGS = TASKS_3D + TASKS_2D + ["sensing"]
DOC_SUPPORT = {"pcfg": set(TASKS_3D + TASKS_2D), "scfg": {"sensing"}}
IS_3D = {"detection", "tracking", "prediction", "sensing", "fp_validation"}
DOC_METRIC_PARAMS = {"center_distance_thresholds", "plane_distance_thresholds", "iou_2d_thresholds", "iou_3d_thresholds"}
RANGE_KEYS = ["max_x_position", "max_y_position", "max_distance", "min_distance"]
THRESHOLD_KEYS = set(RANGE_KEYS) | DOC_METRIC_PARAMS | {"max_matchable_radii", "min_point_numbers", "confidence_threshold"}
FILTER_SRC = {
    "max_x_position_list": "max_x_position", "max_y_position_list": "max_y_position",
    "max_distance_list": "max_distance", "min_distance_list": "min_distance",
    "max_matchable_radii": "max_matchable_radii", "min_point_numbers": "min_point_numbers",
    "confidence_threshold_list": "confidence_threshold",
}
AUTOWARE_LABELS = ["car", "bicycle", "pedestrian", "motorbike"]
TL_LABELS = ["green", "red", "yellow", "unknown"]


def base_config(task, rng_kind="xy", prefix="autoware", nlab=4):
    labels = (AUTOWARE_LABELS if prefix == "autoware" else TL_LABELS)[:nlab]
    d = [("evaluation_task", W(task)), ("target_labels", W(labels))]
    if task in TASKS_3D:
        if rng_kind == "xy":
            d += [("max_x_position", W(102.4)), ("max_y_position", W([10.0 + i for i in range(nlab)]))]
        else:
            d += [("max_distance", W([100.0])), ("min_distance", W(1))]
        d += [("min_point_numbers", W([0] * nlab)), ("max_matchable_radii", W([5.0]))]
    elif rng_kind == "dist":
        d += [("max_distance", W(80.0)), ("min_distance", W([0.0] * nlab))]
    elif rng_kind == "xy":
        d += [("max_x_position", W(50)), ("max_y_position", W(60.5))]
    d += [("label_prefix", W(prefix)), ("merge_similar_labels", W(False)), ("allow_matching_unknown", W(True))]
    if task.endswith("2d"):
        d += [("center_distance_thresholds", W([100.0, 200.0])), ("iou_2d_thresholds", W([0.5]))]
    else:
        d += [
            ("center_distance_thresholds", W([[1.0] * nlab, [2.0]])),
            ("plane_distance_thresholds", W([2.0, 3.0])),
            ("iou_2d_thresholds", W(0.5)),
            ("iou_3d_thresholds", W([[0.5 + i / 16 for i in range(nlab)]])),
        ]
    d += [("confidence_threshold", W(0.25))]
    return d


def exotic_pool(n, nested=True):
    """lists whose shape is right for n labels but which hold an entry that only looks numeric (every class)"""
    out = []
    for i, (_cls, vals) in enumerate(EXOTIC_CLASSES):
        for j, w in enumerate(vals):
            row = [num(1.0 + t) for t in range(n)]
            row[(i + j) % n] = w
            out.append(row)                                   # flat, full length
            if j % 3 == 0:
                out.append([w])                               # singleton (broadcast)
            if nested:
                out.append([[num(1.0)] * n, row])             # second row of a nested list
                if j % 3 == 1:
                    out.append([[num(2.0)] * n, [w]])         # singleton row (broadcast)
    return out


def corrupt_pool(n):
    """values a key is corrupted with (n = number of target labels of the base configuration)"""
    return [
        None, W(0), W(0.0), W(1.5), W(True), W(False), W("abc"), W(""), [], W([1.0]), W([1.0, 2.0]),
        W([float(i + 1) for i in range(n)]), W([1.0] * (n + 1)), W([[1.0] * n]), W([[1.0], [float(i) for i in range(n)]]),
        W([[1.0] * (n + 1)]), W([["a"] * n]), W([None] * n), W([1.0, [2.0]]), W([[1.0, [2.0]]]), W([[[1.0] * n]]),
        W(["a"] * n), W([[]]), W([True] * n), W([[1.0] * n, []]), W([0] * n), W([[0.0]]),
    ]


ADD_POOL = [
    ("foo_thresholds", W([0.8])), ("iou_bev_thresholds", W([0.5])), ("foo", W(1)),
    ("max_distance", W(90.0)), ("min_distance", W(2.0)), ("max_x_position", W(30.0)), ("max_y_position", W(30.0)),
    ("max_distance", None), ("max_x_position", None),
    ("matching_label_policy", W("allow_any")), ("matching_label_policy", W("DEFAULT")),
    ("matching_label_policy", W("bogus")), ("matching_label_policy", W(5)), ("matching_label_policy", W("")),
    ("matching_label_policy", W([1])), ("matching_label_policy", None),
    ("max_matchable_radii", W([1.0, 2.0])), ("max_matchable_radii", W(3.0)), ("confidence_threshold", W([0.1])),
    ("target_uuids", W(["a", "b"])), ("ignore_attributes", W(["x"])), ("uuid_matching_first", W(True)),
    ("count_label_number", W(False)), ("merge_similar_labels", W(True)), ("min_point_numbers", W(3)),
    ("plane_distance_thresholds", W([[1.0], [2.0], [3.0]])), ("iou_3d_thresholds", W(0.0)),
    ("box_scale_0m", W(1.5)), ("min_points_threshold", W(2)),
]
LABEL_POOL = [
    None, [], W(["car"]), W(["car", "bus", "truck", "pedestrian", "bicycle", "unknown", "animal", "motorbike"]), W("car"), W(""),
    W(3), W(True), W([1, 2]), W(["car", None]), W(["car", "car"]), W(["zzz", "CAR"]),
]
PREFIX_POOL = [W("autoware"), W("traffic_light"), W("blinker"), W("brake_lamp"), W("Autoware"), W(""), None, W(1), W(["autoware"])]
TASK_POOL = [W(t) for t in ALL_TASK_STRINGS] + [W("Detection"), W("foo"), W(""), None, W(5), W(["detection"]), W(True)]
FRAME_POOL = ["base_link", "map", ["base_link"], ["map"], ["cam_front", "cam_back"], [], ["nope"], "nope", ["base_link", "map"],
              ["cam_front"], "BASE_LINK"]


def dget(d, k):
    for kk, v in d:
        if kk == k:
            return v
    return None


def dhas(d, k):
    return any(kk == k for kk, _ in d)


def dset(d, k, v):
    out = [(kk, (v if kk == k else vv)) for kk, vv in d]
    if not dhas(d, k):
        out.append((k, v))
    return out


def ddel(d, k):
    return [(kk, vv) for kk, vv in d if kk != k]


def pcfg_case(d, frames, cls="pcfg"):
    return {"kind": cls, "d": [[k, v] for k, v in d], "frames": frames}


def _default_frames(task):
    return "base_link" if task in IS_3D else ["cam_front", "cam_back"]


def _bases():
    out = []
    for t in TASKS_3D:
        out.append((t, base_config(t, "xy")))
        out.append((t, base_config(t, "dist", nlab=3)))
    for t in TASKS_2D:
        out.append((t, base_config(t, "none")))
        out.append((t, base_config(t, "none", prefix="traffic_light", nlab=3)))
    out.append(("detection2d", base_config("detection2d", "xy", nlab=2)))
    out.append(("tracking2d", base_config("tracking2d", "dist", nlab=2)))
    return out


def sensing_base():
    return [("evaluation_task", W("sensing")), ("target_uuids", W(["u1"])), ("box_scale_0m", W(1.0)),
            ("box_scale_100m", W(1.0)), ("min_points_threshold", W(1))]


def config_cases(rng, tier):
    cases = []
    bases = _bases()
    for task, d in bases:
        fr = _default_frames(task)
        n = len(to_py(dget(d, "target_labels")))
        cases.append(dict(pcfg_case(d, fr), base=True))
        keys = [k for k, _ in d]
        for k in keys:  # delete
            cases.append(pcfg_case(ddel(d, k), fr))
        for k, v in ADD_POOL:  # add (or overwrite)
            cases.append(pcfg_case(dset(d, k, v), fr))
        pool = corrupt_pool(n)
        for k in keys:  # corrupt
            if k == "evaluation_task":
                vals = TASK_POOL
            elif k == "target_labels":
                vals = LABEL_POOL
            elif k == "label_prefix":
                vals = PREFIX_POOL
            else:
                vals = pool
            for v in vals:
                cases.append(pcfg_case(dset(d, k, v), fr))
        # entries that only look numeric, at every key that holds a threshold specification
        ex = exotic_pool(n)
        for k in keys:
            if k in THRESHOLD_KEYS:
                flat_only = k not in DOC_METRIC_PARAMS
                vals = [v for v in ex if not (flat_only and v and isinstance(v[0], list))]
                if tier == "quick":
                    start = rng.randrange(len(vals))
                    vals = [vals[(start + 7 * j) % len(vals)] for j in range(8)]
                for v in vals:
                    cases.append(pcfg_case(dset(d, k, v), fr))
        for f in FRAME_POOL:
            cases.append(pcfg_case(d, f))
        # both range kinds / partial range kinds
        # (0 = absent, 1 = a positive bound, 2 = a bound that is given but falsy: 0.0 / 0)
        for ks in itertools.product([0, 1, 2], repeat=4):
            dd = d
            for j, (k, on) in enumerate(zip(RANGE_KEYS, ks)):
                dd = dset(ddel(dd, k), k, W(20.0) if on == 1 else W(0.0) if j % 2 == 0 else W(0)) if on else ddel(dd, k)
            cases.append(pcfg_case(dd, fr))
    # sensing
    sb = sensing_base()
    cases.append(dict(pcfg_case(sb, "base_link", "scfg"), base=True))
    for k, _ in sb:
        cases.append(pcfg_case(ddel(sb, k), "base_link", "scfg"))
    for v in TASK_POOL:
        cases.append(pcfg_case(dset(sb, "evaluation_task", v), "base_link", "scfg"))
    for v in PREFIX_POOL:
        cases.append(pcfg_case(dset(sb, "label_prefix", v), "base_link", "scfg"))
    for f in FRAME_POOL:
        cases.append(pcfg_case(sb, f, "scfg"))
    for k, v in ADD_POOL:
        cases.append(pcfg_case(dset(sb, k, v), "base_link", "scfg"))
    for k in ("box_scale_0m", "target_uuids", "min_points_threshold"):
        for v in (None, W("abc"), W([1.0]), W(0)):
            cases.append(pcfg_case(dset(sb, k, v), "base_link", "scfg"))
    # the perception class fed with every task string as well
    # seeded random multi-mutations
    n_rand = 1500 if tier == "quick" else 20000
    for _ in range(n_rand):
        task, d = rng.choice(bases)
        fr = _default_frames(task)
        n = len(to_py(dget(d, "target_labels")))
        pool = corrupt_pool(n)
        for _m in range(rng.choice([2, 2, 3])):
            r = rng.random()
            keys = [k for k, _ in d]
            if r < 0.25 and len(keys) > 1:
                d = ddel(d, rng.choice(keys))
            elif r < 0.5:
                k, v = rng.choice(ADD_POOL)
                d = dset(d, k, v)
            elif r < 0.9:
                k = rng.choice(keys)
                vals = TASK_POOL if k == "evaluation_task" else LABEL_POOL if k == "target_labels" else PREFIX_POOL if k == "label_prefix" else pool
                if k in THRESHOLD_KEYS and rng.random() < 0.3:
                    vals = exotic_pool(n, nested=k in DOC_METRIC_PARAMS)
                d = dset(d, k, rng.choice(vals))
            else:
                fr = rng.choice(FRAME_POOL)
        cases.append(pcfg_case(d, fr))
    return cases


# ---- frame configs (CriticalObjectFilterConfig / PerceptionPassFailConfig)

CRIT_KEYS = ["max_x_position_list", "max_y_position_list", "max_distance_list", "min_distance_list",
             "min_point_numbers", "confidence_threshold_list"]
PF_KEYS = ["matching_threshold_list", "confidence_threshold_list"]


def frame_pool(n):
    return [
        None, [], W([1.0] * n), W([float(i) for i in range(n)]), W([1.0] * (n + 1)), W([1.0] * max(n - 1, 0)), W([1.0]),
        W(2.0), W(0), W(True), W(False), W("abc"), W(""), W(["a"] * n), W([None] * n), W([[1.0] * n]), W([True] * n),
        W([1.0] * (n - 1) + ["x"]) if n else W(["x"]), W([0] * n),
    ]


def frame_cases(rng, tier):
    cases = []
    evs = [("detection", "autoware"), ("fp_validation", "autoware"), ("detection2d", "autoware"),
           ("classification2d", "traffic_light"), ("tracking", "autoware"), ("tracking2d", "traffic_light")]
    label_variants = [W(AUTOWARE_LABELS), W(["car", "bus"]), None, [], W(["car"]), W("car"), W(3), W(["car", 2])]
    for task, prefix in evs:
        for labels in label_variants:
            try:
                n = len(to_py(labels)) if labels else None
            except TypeError:
                n = 1
            if n is None:
                n = 4
            pool = frame_pool(n)
            good = W([1.0 + i for i in range(n)])
            bases = [
                [("max_x_position_list", good), ("max_y_position_list", good)],
                [("max_distance_list", good), ("min_distance_list", W([0.0] * n))],
                [],
                [("max_x_position_list", good), ("max_y_position_list", good), ("max_distance_list", good), ("min_distance_list", good)],
                [("max_x_position_list", good)],
            ]
            full = labels is label_variants[0] or labels is None
            for b in bases:
                cases.append({"kind": "crit", "task": task, "prefix": prefix, "args": [["target_labels", labels]] + [[k, v] for k, v in b]})
                if not full and tier == "quick":
                    continue
                for k in CRIT_KEYS:
                    for v in pool:
                        a = dset(b, k, v)
                        cases.append({"kind": "crit", "task": task, "prefix": prefix, "args": [["target_labels", labels]] + [[k2, v2] for k2, v2 in a]})
            if n:
                ex = exotic_pool(n, nested=False)
                if tier == "quick":
                    start = rng.randrange(len(ex))
                    ex = [ex[(start + 5 * j) % len(ex)] for j in range(6 if full else 2)]
                for j, v in enumerate(ex):
                    b = bases[j % 2]
                    kk = CRIT_KEYS[j % len(CRIT_KEYS)]
                    cases.append({"kind": "crit", "task": task, "prefix": prefix,
                                  "args": [["target_labels", labels]] + [[k2, v2] for k2, v2 in dset(b, kk, v)]})
                    cases.append({"kind": "pf", "task": task, "prefix": prefix,
                                  "args": [["target_labels", labels], [PF_KEYS[j % 2], v]]})
            for k in PF_KEYS:
                for v in pool:
                    cases.append({"kind": "pf", "task": task, "prefix": prefix, "args": [["target_labels", labels], [k, v]]})
            cases.append({"kind": "pf", "task": task, "prefix": prefix, "args": [["target_labels", labels]]})
    n_rand = 800 if tier == "quick" else 10000
    for _ in range(n_rand):
        task, prefix = rng.choice(evs)
        labels = rng.choice(label_variants)
        pool = frame_pool(rng.choice([1, 2, 4]))
        kind = rng.choice(["crit", "crit", "pf"])
        keys = CRIT_KEYS if kind == "crit" else PF_KEYS
        a = [["target_labels", labels]]
        for k in keys:
            if rng.random() < 0.6:
                a.append([k, rng.choice(pool)])
        cases.append({"kind": kind, "task": task, "prefix": prefix, "args": a})
    return cases


# --------------------------------------------------------------------------- corpus / generate


def corpus():
    cs = []
    if CORPUS_DIR.is_dir():
        for f in sorted(CORPUS_DIR.glob("*.json")):
            j = json.loads(f.read_text())
            if isinstance(j, dict) and "case" in j:
                cs.append(j["case"])
            elif isinstance(j, list):
                cs.extend(j)
    cs.extend(_target_label_cases())
    return cs


def _target_label_cases():
    """audit round 2: configurations whose target_labels are aliases / case variants / unregistered names, under both merge
    settings and both label families -- the converted LIST (not only its length) is compared with the model's configTargetLabels"""
    out = []
    names = [["Trailer", "BUS", "motorcycle", "vehicle.car"], ["PEDESTRIAN", "pedestrian.adult", "nonsense"], ["animal", "Truck"],
             ["static_object.forklift", "forklift", "false_positive"]]
    for tl in names:
        for merge in (False, True, 1, "yes", [], None):
            for task in ("detection", "tracking", "detection2d"):
                d = [(k, v) for k, v in base_config(task, "xy", nlab=len(tl)) if k not in ("target_labels", "merge_similar_labels")]
                d += [("target_labels", W(tl)), ("merge_similar_labels", W(merge))]
                out.append(pcfg_case(d, _default_frames(task)))
    for tl in (["GREEN", "red_left", "crosswalk_red", "red_left_straight"], ["traffic_light", "Yellow", "unknown"]):
        for task in ("detection2d", "tracking2d", "classification2d"):
            d = [(k, v) for k, v in base_config(task, "none", prefix="traffic_light", nlab=3) if k != "target_labels"]
            d += [("target_labels", W(tl))]
            out.append(pcfg_case(d, _default_frames(task)))
    return out


def _size(w):
    return 1 + sum(_size(x) for x in w) if isinstance(w, list) else 1


def check_cases(thr_cases, tier):
    """the direct entry points: check_thresholds on every flat-mode specification, check_nested_thresholds on every
    nested-mode one (depth <= 3), for the same n"""
    out = []
    for i, c in enumerate(thr_cases):
        if i < thr_space.n_f1 and _size(c["v"]) > (4 if tier == "quick" else 5):
            continue  # the tree enumeration (F1) only up to 4 (quick) / 5 (thorough) nodes
        if c["n"] >= 1 and _depth(c["v"]) <= 3:
            out.append({"kind": "chkn" if c["nest"] else "chk", "v": c["v"], "n": c["n"]})
    return out


def generate(rng, tier):
    cases = thr_space(5 if tier == "quick" else 7, rng, tier)
    cases += check_cases(cases, tier)
    cases += config_cases(rng, tier)
    cases += frame_cases(rng, tier)
    return cases


# --------------------------------------------------------------------------- the real code

_TMP = None


def _tmpdir():
    global _TMP
    if _TMP is None:
        _TMP = tempfile.mkdtemp(prefix="c15_")
        atexit.register(shutil.rmtree, _TMP, True)
    return _TMP


_EV_CACHE = {}


def _evaluator(task, prefix):
    """a valid real PerceptionEvaluationConfig for the frame-config cases"""
    key = (task, prefix)
    if key not in _EV_CACHE:
        from perception_eval.config import PerceptionEvaluationConfig

        d = base_config(task, "xy" if task in IS_3D else "none", prefix=prefix, nlab=3)
        _EV_CACHE[key] = PerceptionEvaluationConfig(
            dataset_paths=["x"], frame_id=_default_frames(task), result_root_directory=_tmpdir(),
            evaluation_config_dict={k: to_py(v) for k, v in d},
        )
    return _EV_CACHE[key]


def _err(e):
    """an exception of the real code: class name + the names of its base classes (a subclass of an expected class is a
    match; the class is looked at only where `observe_at` names it: set_thresholds -> ThresholdError)"""
    return {"err": type(e).__name__,
            "mro": [c.__name__ for c in type(e).__mro__ if c not in (object, BaseException, Exception)]}


def _is_a(out, cls):
    """did the real code raise `cls` or a subclass of it?"""
    return cls in (out.get("mro") or [out.get("err")])


def _norm_twice(fn, r):
    try:
        r2 = fn(copy.deepcopy(r))
        return {"ok": from_py(r2)}
    except Exception as e:
        return _err(e)


def _metric_configs(mc):
    """the per-task metrics configs a MetricsScoreConfig holds: every public attribute value that itself exposes one of
    the documented threshold lists (today: detection_config / tracking_config / classification_config / prediction_config;
    found by what they expose, not by their attribute names)"""
    try:
        vals = [v for kk, v in vars(mc).items() if not kk.startswith("_")]
    except TypeError:
        vals = [getattr(mc, kk, None) for kk in dir(mc) if not kk.startswith("_")]
    return [v for v in vals if v is not None and not isinstance(v, (str, int, float, list, tuple, dict))
            and any(hasattr(v, kk) for kk in DOC_METRIC_PARAMS)]


def run_impl(case):
    # NOTE (harness/run_check.py convention): only the library call the property is about sits in a `try` that produces
    # out["err"]; set-up (temp dir, the evaluator of the frame configs, imports) and the reading of the public attributes
    # afterwards propagate and are infrastructure errors / unexpected exceptions, never a recorded rejection.
    k = case["kind"]
    if k == "thr":
        from perception_eval.common.threshold import set_thresholds

        v = to_py(case["v"])
        n, nest = case["n"], case["nest"]
        try:
            r = set_thresholds(v, n, nest)
        except Exception as e:
            return _err(e)
        out = {"ok": from_py(r), "again": _norm_twice(lambda x: set_thresholds(x, n, nest), r),
               "input_after": from_py(v)}
        if n >= 1:
            # the SAME specification object normalised once more, for another number of labels (the text quantifies
            # "for all numbers of target labels" over one specification)
            try:
                out["reuse"] = {"n": n + 1, "ok": from_py(set_thresholds(v, n + 1, nest))}
            except Exception as e:
                out["reuse"] = dict(_err(e), n=n + 1)
        return out
    if k in ("chk", "chkn"):
        from perception_eval.common import threshold as _thr

        fn = _thr.check_thresholds if k == "chk" else _thr.check_nested_thresholds
        v = to_py(case["v"])
        try:
            r = fn(v, case["n"])
        except Exception as e:
            return _err(e)
        return {"ok": from_py(r), "input_after": from_py(v)}
    if k in ("pcfg", "scfg"):
        from perception_eval.config import PerceptionEvaluationConfig, SensingEvaluationConfig

        d = {kk: to_py(v) for kk, v in case["d"]}
        cls = PerceptionEvaluationConfig if k == "pcfg" else SensingEvaluationConfig
        tmp = _tmpdir()  # set-up: an OSError here is not a rejection of the configuration
        try:
            c = cls(dataset_paths=["x"], frame_id=case["frames"], result_root_directory=tmp, evaluation_config_dict=d)
        except Exception as e:
            return _err(e)
        out = {"task": c.evaluation_task.value if hasattr(c.evaluation_task, "value") else repr(c.evaluation_task),
               "n_frames": len(c.frame_ids), "support": list(c.support_tasks)}
        fp = c.filtering_params
        if k == "scfg":
            out["n"] = 0
            out["filtering"] = {kk: from_py(v) for kk, v in fp.items()}
            out["metrics"] = {kk: from_py(v) for kk, v in c.metrics_params.items()}
            return {"ok": out}
        out["n"] = len(c.target_labels)
        out["labels"] = [getattr(l, "name", repr(l)) for l in c.target_labels]
        out["n_f"] = len(fp["target_labels"]) if "target_labels" in fp else None
        out["filtering"] = {kk: from_py(v) for kk, v in fp.items() if kk != "target_labels"}
        cfgs = _metric_configs(c.metrics_config)
        if cfgs:
            ms = [{kk: from_py(getattr(x, kk, {"other": "missing"})) for kk in sorted(DOC_METRIC_PARAMS)} for x in cfgs]
            out["metrics"] = ms[0]
            out["metrics_all_same"] = all(m == ms[0] for m in ms) and all(
                len(getattr(x, "target_labels", out["labels"])) == out["n"] for x in cfgs)
        else:
            out["metrics"] = None
            out["metrics_all_same"] = True
        return {"ok": out}
    if k in ("crit", "pf"):
        from perception_eval.evaluation.result.perception_frame_config import CriticalObjectFilterConfig, PerceptionPassFailConfig

        ev = _evaluator(case["task"], case["prefix"])
        a = {kk: to_py(v) for kk, v in case["args"]}
        try:
            c = CriticalObjectFilterConfig(ev, **a) if k == "crit" else PerceptionPassFailConfig(ev, **a)
        except Exception as e:
            return _err(e)
        keys = CRIT_KEYS if k == "crit" else PF_KEYS
        lists = {kk: from_py(getattr(c, kk)) for kk in keys}
        same = all(from_py(c.filtering_params[kk]) == lists[kk] for kk in keys if kk in c.filtering_params) if k == "crit" else True
        return {"ok": {"n": len(c.target_labels), "filtering": lists, "params_same": same}}
    raise ValueError(k)


# --------------------------------------------------------------------------- the model


def _n_all(prefix):
    from perception_eval.common.label import AutowareLabel, TrafficLightLabel

    return len(list(AutowareLabel if prefix == "autoware" else TrafficLightLabel))


def _task_of(case):
    t = dget([tuple(p) for p in case["d"]], "evaluation_task")
    return t.get("s") if isinstance(t, dict) else None


def _frames_in_quantifier(case):
    """C15 quantifies over "configuration dictionaries obtained by deleting, adding or corrupting keys of a valid
    configuration"; the frame ids are a separate constructor argument.  Cases that vary the frame ids are kept as
    correspondence material, but a disagreement about ACCEPTANCE on them is outside the quantifier (counted skip)."""
    t = _task_of(case)
    return t is None or case["frames"] == _default_frames(t)


def _f8_keys(case):
    """signature of the known finding F8: keys ending in `_thresholds` that no metrics config accepts"""
    return [kk for kk, _ in case["d"] if kk.endswith("_thresholds") and kk not in DOC_METRIC_PARAMS]


def _broadcast_args(case, ok):
    """the keyword lists of an ACCEPTED frame config with every scalar / singleton that the real config exposes as its
    broadcast written out (None when there is none): the text lets a frame config reject `[1.0]` for two labels (today)
    or broadcast it ("scalars and singletons broadcast"); the model (verbatim or reject) is then asked about the
    written-out arguments"""
    keys = CRIT_KEYS if case["kind"] == "crit" else PF_KEYS
    n = ok["n"]
    alt, changed = [], False
    for kk, v in case["args"]:
        val = ok["filtering"].get(kk)
        if kk in keys and v is not None and val is not None and strip(val) != strip(v):
            try:
                spec = spec_flat(to_py(v), n)
            except Exception:
                spec = None
            if spec is not None and from_py(spec[0]) == val:
                alt.append([kk, val])
                changed = True
                continue
        alt.append([kk, v])
    return alt if changed else None


def model_requests(case, out):
    k = case["kind"]
    if k == "thr":
        return [{"op": "set_thresholds", "v": to_model(case["v"]), "n": case["n"], "nest": case["nest"]}]
    if k in ("chk", "chkn"):
        return [{"op": "check_thresholds" if k == "chk" else "check_nested_thresholds", "v": to_model(case["v"]), "n": case["n"]}]
    if k in ("pcfg", "scfg"):
        fr = case["frames"]
        reqs = [{"op": "perception_config" if k == "pcfg" else "sensing_config",
                 "d": [[kk, to_model(v)] for kk, v in case["d"]], "frames": [fr] if isinstance(fr, str) else list(fr)}]
        if k == "pcfg":
            # audit round 2: the converted target-label LIST of the same configuration (model: configTargetLabels)
            reqs.append({"op": "config_targets", "d": [[kk, to_model(v)] for kk, v in case["d"]]})
        return reqs
    if k in ("crit", "pf"):
        def req(args):
            r = {"op": "critical_config" if k == "crit" else "passfail_config",
                 "args": [[kk, to_model(v)] for kk, v in args], "nAll": _n_all(case["prefix"])}
            if k == "crit":
                r["is2d"] = case["task"] not in IS_3D
            return r

        reqs = [req(case["args"])]
        if "ok" in out:  # accepted: the same arguments with scalars / singletons written out (see _broadcast_args)
            alt = _broadcast_args(case, out["ok"])
            if alt is not None:
                reqs.append(req(alt))
        return reqs
    return []


# reasons of the counted skips, for the evidence file only (`extra_evidence`); never read by a verdict
_SKIP_REASONS = {}


def _skip(kind):
    _SKIP_REASONS[kind] = _SKIP_REASONS.get(kind, 0) + 1
    return "skip"


def extra_evidence():
    return {"skipped_by_reason": dict(sorted(_SKIP_REASONS.items()))}


def _cmp_acceptance(case, out, r):
    """raised-vs-returned.  The text says "rejected with an error"; an exception CLASS is compared only where
    `anchors.observe_at` names it ("set_thresholds(...) return value or ThresholdError"); a subclass is a match."""
    k = case["kind"]
    if "err" in out and "err" in r:
        if k == "thr" and r["err"] == "ThresholdError" and not _is_a(out, "ThresholdError"):
            return f"set_thresholds rejected with {out['err']}, the model (and observe_at) say ThresholdError"
        return None
    if k in ("pcfg", "scfg") and not _frames_in_quantifier(case):
        return _skip("acceptance:frame-id-argument-varied")
    if "err" in out:
        if k == "pcfg" and _f8_keys(case):
            # known finding F8: the model hard-codes the DEFECTIVE acceptance of an unknown `*_thresholds` key; the text
            # ("accepted only if ... no unknown metric parameter is supplied") demands exactly this rejection, so on the
            # finding's signature both outcomes are accepted (a repair of F8 must not alarm)
            return None
        return f"impl rejects ({out['err']}), model accepts {_short(r)}"
    if k == "pcfg" and not dhas([tuple(p) for p in case["d"]], "label_prefix"):
        # WHICH parameters are mandatory is not in the text ("mandatory parameters are present"): a default label
        # prefix is a legitimate change; the model has no default to compare the result with
        return _skip("acceptance:label_prefix-defaulted")
    return f"impl accepts {_short(out)}, model rejects ({r['err']})"


def _tolerated_default(val, n, nest):
    """an exposed list for a parameter that was NOT given (the text is silent; today None / []): anything that is not a
    list, or a list of the right shape"""
    if val is None or val == []:
        return True
    if isinstance(val, dict) and "other" in val:
        return False
    try:
        return _shape_ok(to_py(val), n, nest)
    except Exception:
        return False


def _cmp_frame_lists(a, r):
    b = r["ok"]
    if a["n"] != b["n"]:
        return f"number of target labels: impl {a['n']} != model {b['n']}"
    mf = dict((kk, v) for kk, v in b["filtering"])
    if _model_dict(a["filtering"]) != mf:
        return f"lists: impl {_short(a['filtering'])} != model {_short(mf)}"
    return None


def compare(case, out, resps):
    r = resps[0]
    k = case["kind"]
    if k in ("crit", "pf") and "ok" in out:
        # accepted frame config: the model on the arguments as given, or on the arguments with scalars / singletons
        # broadcast ("scalars and singletons broadcast" - the text admits both a rejection and a broadcast here)
        ds = [(_cmp_frame_lists(out["ok"], x) if "ok" in x else _cmp_acceptance(case, out, x)) for x in resps]
        return None if any(d is None for d in ds) else ds[0]
    if "err" in out or "err" in r:
        return _cmp_acceptance(case, out, r)
    if k in ("thr", "chk", "chkn"):
        return None if to_model(out["ok"]) == r["ok"] else f"impl {_short(out['ok'])} != model {_short(r['ok'])}"
    a, b = out["ok"], r["ok"]
    if a["n"] != b["n"]:
        return f"number of target labels: impl {a['n']} != model {b['n']}"
    n = b["n"]
    if k == "pcfg" and len(resps) > 1:
        # an accepted configuration: the model's target-label list is the real `target_labels`, and `n` is its length
        t = resps[1]
        if "ok" not in t:
            return f"target labels: impl {a.get('labels')} != model {_short(t)}"
        if a.get("labels") != t["ok"] or len(t["ok"]) != b["n"]:
            return f"target labels: impl {a.get('labels')} != model {t['ok']} (model n = {b['n']})"
    mf = dict((kk, v) for kk, v in b["filtering"])
    if a["task"] != b["task"]:
        return f"task: impl {a['task']} != model {b['task']}"
    af = _model_dict(a["filtering"])
    if k == "scfg":
        # sensing: the property names no list of the sensing configuration; the keys both sides know are compared
        mm = dict((kk, v) for kk, v in (b["metrics"] or []))
        am = _model_dict(a["metrics"] or {})
        for kk in sorted(set(af) & set(mf)):
            if af[kk] != mf[kk]:
                return f"filtering_params[{kk}]: impl {_short(af[kk])} != model {_short(mf[kk])}"
        for kk in sorted(set(am) & set(mm)):
            if am[kk] != mm[kk]:
                return f"metrics_params[{kk}]: impl {_short(am[kk])} != model {_short(mm[kk])}"
        return None
    # perception: the PER-LABEL lists the property speaks of (FILTER_SRC keys, DOC_METRIC_PARAMS); other / new keys of
    # filtering_params (ignore_attributes, target_uuids, uuid_matching_first, ...) are not its subject
    for kk in FILTER_SRC:
        if kk not in af:
            continue  # the oracle reports the missing key
        if af[kk] == mf.get(kk):
            continue
        if mf.get(kk) is None and _tolerated_default(a["filtering"][kk], n, False):
            continue  # parameter not given: the text is silent on what is exposed (a default list of n values is fine)
        return f"filtering_params[{kk}]: impl {_short(a['filtering'][kk])} != model {_short(mf.get(kk))}"
    mm = None if b["metrics"] is None else dict((kk, v) for kk, v in b["metrics"])
    if (a["metrics"] is None) != (mm is None):
        return f"metrics lists: impl {_short(a['metrics'])} != model {_short(mm)}"
    if mm is not None:
        am = _model_dict(a["metrics"])
        for kk in sorted(DOC_METRIC_PARAMS):
            if am.get(kk) == mm.get(kk):
                continue
            if mm.get(kk) == [] and _tolerated_default(a["metrics"].get(kk), n, True):
                continue  # threshold not given (or falsy)
            return f"metrics list {kk}: impl {_short(a['metrics'].get(kk))} != model {_short(mm.get(kk))}"
    return None


def _short(x):
    s = json.dumps(x, sort_keys=True)
    return s if len(s) < 400 else s[:400] + "..."


# --------------------------------------------------------------------------- the oracle (independent of the model)


def _leaf_class(x):
    """how the property text reads one entry, decided by its TYPE only (never by what float() would make of it):
    "num" = a plain finite int / float; "silent" = a numeric object about which the text is silent (bool, Fraction,
    numpy scalars, inf / nan, Decimal, complex, 0-dimensional arrays): neither acceptance nor rejection is demanded,
    only that it is not altered when accepted; "non" = not a number (str whatever its content, bytes, bytearray,
    None, tuple, dict, arrays, lists): must be rejected"""
    if type(x) in (int, float):
        return "num" if (isinstance(x, int) or math.isfinite(x)) else "silent"
    if x is None or isinstance(x, (str, bytes, bytearray, list, tuple, dict)):
        return "non"
    e = _enc_exotic(x) if not isinstance(x, bool) else None
    if isinstance(x, bool) or (e is not None and _EXOTIC[e["x"]][1] in ("silent", "real")):
        return "silent"
    return "non"


def _is_num(x):
    return _leaf_class(x) != "non"


def _has_bool(v):
    """holds an entry on which the property text is silent (bool and the other "silent" kinds)"""
    if isinstance(v, list):
        return any(_has_bool(x) for x in v)
    return _leaf_class(v) == "silent"


def spec_flat(v, n):
    """property text: the admissible normal forms of a flat specification, or None = must be rejected"""
    if _is_num(v):
        return [[v] * n]
    if isinstance(v, list) and len(v) >= 1 and all(_is_num(x) for x in v):
        if len(v) == n:
            return [list(v)]
        if len(v) == 1:
            return [[v[0]] * n]
    return None


def spec_nested(v, n):
    if _is_num(v):
        return [[[v] * n]]
    if isinstance(v, list) and len(v) >= 1:
        if all(_is_num(x) for x in v):
            alts = [[[x] * n for x in v]]
            if len(v) == n:
                alts.append([list(v)])
            return alts
        if all(isinstance(r, list) and len(r) >= 1 and len(r) in (1, n) and all(_is_num(x) for x in r) for r in v):
            return [[([r[0]] * n if len(r) == 1 else list(r)) for r in v]]
    return None


def _why_malformed(v, nest):
    if not isinstance(v, list):
        return "not a number or list"
    if isinstance(v, list):
        if not v:
            return "empty list"
        if any(isinstance(x, list) for x in v) and not all(isinstance(x, list) for x in v):
            return "mixed nesting"
        if any(isinstance(x, list) for x in v):
            if not nest:
                return "nested list for a flat threshold"
            if any(len(r) == 0 for r in v):
                return "empty row"
            if any(isinstance(x, list) for r in v for x in r):
                return "nesting deeper than two"
            if any(not _is_num(x) for r in v for x in r):
                return "non-numeric entry"
            return "row of wrong length"
        if any(not _is_num(x) for x in v):
            return "non-numeric entry"
        return "wrong length"
    return "unsupported type"


def _shape_ok(r, n, nest):
    """r is a Python value: flat = list of exactly n numbers; nested = non-empty list of such rows"""
    if nest:
        return isinstance(r, list) and len(r) >= 1 and all(_shape_ok(row, n, False) for row in r)
    return isinstance(r, list) and len(r) == n and all(_is_num(x) for x in r)


def _check_norm(v, n, nest, result_w, what):
    """complaints about one normalised list (result in wire form) against the specification v (Python value)"""
    out = []
    if isinstance(result_w, dict) and "other" in result_w:
        return [("shape", f"{what}: not a list of numbers: {result_w}")]
    r = to_py(result_w)
    spec = (spec_nested if nest else spec_flat)(v, n)
    if not _shape_ok(r, n, nest):
        out.append(("shape", f"{what}: accepted result {_short(result_w)} does not hold exactly {n} numbers per row"))
    if n >= 1:
        if spec is None:
            out.append(("malformed-accepted", f"{what}: malformed specification ({_why_malformed(v, nest)}) {_short(from_py(v))} accepted as {_short(result_w)}"))
        elif not any(from_py(alt) == result_w for alt in spec):
            out.append(("altered", f"{what}: {_short(from_py(v))} normalised to {_short(result_w)}: rows are neither input rows nor broadcasts (padded / truncated / altered)"))
    return out


def _names_given(tl):
    """the number of target labels the CALLER named: a non-empty list of strings names len(list) labels (one converted
    label per name); None / [] ("all labels") and ill-typed values: no independent count (None)"""
    if isinstance(tl, list) and tl and all(isinstance(x, str) for x in tl):
        return len(tl)
    return None


def _complaints(case, out):
    k = case["kind"]
    cs = []
    if k == "thr":
        v, n, nest = to_py(case["v"]), case["n"], case["nest"]
        if "err" in out:
            spec = (spec_nested if nest else spec_flat)(v, n)
            if n >= 1 and spec is not None and not _has_bool(v):  # whether bool counts as a number is left to the code
                cs.append(("wellformed-rejected", f"well-formed specification {_short(case['v'])} (n={n}, nest={nest}) rejected with {out['err']}"))
            return cs
        cs += _check_norm(v, n, nest, out["ok"], f"set_thresholds(n={n}, nest={nest})")
        if n >= 1 and out.get("again") != {"ok": out["ok"]}:
            cs.append(("idempotence", f"normalising the accepted result {_short(out['ok'])} again gives {_short(out.get('again'))}"))
        # "A threshold given as a scalar, a flat list or a nested list is normalised to lists holding exactly one value per
        # target label ... for all numbers of target labels": the SAME specification object, normalised for n labels and
        # then for n+1, must still be read as the specification the caller wrote (this is where a normalisation that
        # rewrites the caller's list in place breaks the statement; "the input is untouched" itself is not in the text)
        ru = out.get("reuse")
        if n >= 1 and isinstance(ru, dict) and not _has_bool(v):
            n2 = ru["n"]
            spec2 = (spec_nested if nest else spec_flat)(v, n2)
            what = (f"the specification {_short(case['v'])}, after having been normalised for {n} labels (left as "
                    f"{_short(out.get('input_after'))}), normalised for {n2} labels (nest={nest})")
            if "err" in ru:
                if spec2 is not None:
                    cs.append(("reuse", f"{what}: well-formed but rejected with {ru['err']}"))
            elif spec2 is None:
                cs.append(("reuse", f"{what}: malformed ({_why_malformed(v, nest)}) but accepted as {_short(ru['ok'])}"))
            elif not any(from_py(alt) == ru["ok"] for alt in spec2):
                cs.append(("reuse", f"{what}: gives {_short(ru['ok'])}, neither its rows nor their broadcasts"))
        return cs
    if k in ("chk", "chkn"):
        v, n = to_py(case["v"]), case["n"]
        nest = k == "chkn"
        what = "check_nested_thresholds" if nest else "check_thresholds"
        normal = isinstance(v, list) and (all(_shape_ok(r, n, False) for r in v) if nest else _shape_ok(v, n, False))
        if "err" in out:
            if normal and not _has_bool(v) and not (nest and not v):
                cs.append(("wellformed-rejected", f"{what}: normal form {_short(case['v'])} (n={n}) rejected with {out['err']}"))
            return cs
        if not isinstance(v, list):
            return cs  # not a list at all ("" has nothing to check): outside the documented domain
        if nest and not v:
            return cs  # []: no row to check
        # an accepted list: "rejected with an error instead of being padded or truncated" - what comes back is the value
        # itself or (scalars and singletons broadcast) its broadcast, never anything else
        return _check_norm(v, n, nest, out["ok"], f"{what}(n={n})")
    if "err" in out:
        return cs  # "accepted only if": a rejection never violates the property
    a = out["ok"]
    n_impl = a["n"]
    if k in ("pcfg", "scfg"):
        d = {kk: to_py(v) for kk, v in case["d"]}
        task = d.get("evaluation_task")
        if not isinstance(task, str) or task not in DOC_SUPPORT[k]:
            cs.append(("unsupported-task", f"task {task!r} is not supported by the {'perception' if k == 'pcfg' else 'sensing'} manager but the configuration was accepted"))
            return cs
        # (the number of frame ids of a 3-D task is not in the statement - mechanism only: compared with the model)
        if k == "scfg":
            return cs
        # "lists whose length equals the number of target labels": the labels the caller named where he named them
        # (independent of the implementation's own `target_labels`), else the implementation's list
        n = _names_given(d.get("target_labels"))
        if n is None:
            n = n_impl
        elif n_impl != n:
            cs.append(("labels", f"{n} target labels were named but the configuration's target_labels has {n_impl} entries"))
        xy = [d.get("max_x_position") is not None, d.get("max_y_position") is not None]
        dist = [d.get("max_distance") is not None, d.get("min_distance") is not None]
        if task in IS_3D and not ((all(xy) and not any(dist)) or (all(dist) and not any(xy))):
            cs.append(("range-kind", f"3-D task accepted with range bounds x/y given={xy}, max/min distance given={dist} (exactly one complete kind is required)"))
        # "mandatory parameters are present": the text does not list them; judged is the one the code itself declares
        # ("In detection task, min point numbers must be specified"); a parameter that has a default is not mandatory
        if task == "detection" and d.get("min_point_numbers") is None and a["filtering"].get("min_point_numbers") is None:
            cs.append(("mandatory", "detection accepted without min_point_numbers"))
        for kk in d:
            if kk.endswith("_thresholds") and kk not in DOC_METRIC_PARAMS:
                cs.append(("unknown-metric-param", f"unknown metric parameter {kk!r} accepted (MetricsParameterError documented)"))
        if a.get("n_f") is not None and a.get("n_f") != n:
            cs.append(("labels", f"filtering target_labels has {a.get('n_f')} entries, config has {n}"))
        used_xy = all(xy)
        for key, src in FILTER_SRC.items():
            if key not in a["filtering"]:
                cs.append(("missing-list", f"filtering_params lacks {key}"))
                continue
            val = a["filtering"][key]
            v = d.get(src)
            if key in ("max_x_position_list", "max_y_position_list") and not used_xy:
                v = None
            if key in ("max_distance_list", "min_distance_list") and not all(dist):
                v = None
            if v is None:
                # parameter not given / range kind not used: the text is silent on what is exposed (today None); an
                # exposed LIST must still hold one value per target label
                if not _tolerated_default(val, n, False):
                    cs.append(("shape", f"{key} = {_short(val)} ({src} not given) does not hold exactly {n} numbers"))
                continue
            if val is None:
                cs.append(("dropped", f"{src} = {_short(from_py(v))} given but {key} is None"))
                continue
            cs += _check_norm(v, n, False, val, key)
        if a["metrics"] is not None:
            if not a.get("metrics_all_same"):
                cs.append(("metrics", "the metrics configs of one task expose different lists"))
            for key in sorted(DOC_METRIC_PARAMS):
                val = a["metrics"].get(key)
                v = d.get(key)
                if not v:  # missing or falsy: no threshold of this kind (B3); exposed today as [] - the text is silent
                    if not _tolerated_default(val, n, True):
                        cs.append(("shape", f"{key} not given but exposed as {_short(val)}: rows do not hold exactly {n} numbers"))
                    continue
                cs += _check_norm(v, n, True, val, key)
        return cs
    # frame configs: every exposed list holds exactly n numbers and is the argument itself or (scalars and singletons
    # broadcast) its broadcast
    args = {kk: to_py(v) for kk, v in case["args"]}
    n = _names_given(args.get("target_labels"))
    if n is None:
        n = n_impl
    elif n_impl != n:
        cs.append(("labels", f"{n} target labels were named but the frame config's target_labels has {n_impl} entries"))
    if k == "crit" and not a.get("params_same"):
        cs.append(("params", "filtering_params differs from the attributes"))
    for key, val in a["filtering"].items():
        if val is None:
            continue
        if args.get(key) is None:
            if not _tolerated_default(val, n, False):
                cs.append(("shape", f"{key} = {_short(val)} (not given) accepted for {n} target labels"))
            continue
        cs += _check_norm(args.get(key), n, False, val, key)
    return cs


def oracle(case, out):
    cs = _complaints(case, out)
    if not cs:
        return None
    return "; ".join(f"[{c}] {m}" for c, m in cs)


def known_finding(case, out, failure):
    """F8: the only complaint is that an unknown *_thresholds key was accepted"""
    if case.get("kind") != "pcfg" or "ok" not in out:
        return None
    cs = _complaints(case, out)
    if cs and all(c == "unknown-metric-param" for c, _ in cs):
        return F8_ID
    return None


# --------------------------------------------------------------------------- histogram, shrinking


def _depth(w):
    if isinstance(w, list):
        return 1 + max([_depth(x) for x in w], default=0)
    return 0


def _exotics(w):
    """the kinds of exotic entries of a wire value ("numstr" = a str that float() would parse)"""
    out = set()
    if isinstance(w, list):
        for x in w:
            out |= _exotics(x)
    elif isinstance(w, dict):
        if "x" in w:
            out.add("entry=" + w["x"] + (":" + w["r"] if w["x"] == "float" else ""))
        elif "s" in w:
            try:
                float(w["s"])
                out.add("entry=numstr")
            except ValueError:
                pass
    return out


def branches(case, out):
    k = case["kind"]
    res = "err:" + out["err"] if "err" in out else "ok"
    if k == "thr":
        v = case["v"]
        top = "list%d" % len(v) if isinstance(v, list) else "scalar"
        pv = to_py(v)
        nest = case["nest"]
        if res == "ok":
            if _is_num(pv):
                path = "scalar-broadcast"
            elif all(_is_num(x) for x in pv):
                if nest:
                    path = "flat-as-one-row" if len(pv) == case["n"] else "flat-entries-broadcast"
                else:
                    path = "singleton-broadcast" if len(pv) == 1 and case["n"] != 1 else "list-unchanged"
            else:
                kinds = {("singleton" if len(r) == 1 and case["n"] != 1 else "full") for r in pv}
                path = "rows-" + "+".join(sorted(kinds))
            detail = f"thr:nest={int(nest)}:accept:{path}"
        else:
            detail = f"thr:nest={int(nest)}:reject:{_why_malformed(pv, nest) if case['n'] else 'n=0'}"
        return [f"thr:nest={int(nest)}:{res}", f"thr:n={case['n']}", f"thr:depth={_depth(v)}:{res}", f"thr:{top}:{res}", detail] + [
            f"thr:{e}:{res}" for e in _exotics(v)]
    if k in ("chk", "chkn"):
        return [f"{k}:{res}", f"{k}:n={case['n']}", f"{k}:depth={_depth(case['v'])}:{res}"] + [f"{k}:{e}:{res}" for e in _exotics(case["v"])]
    if k in ("pcfg", "scfg"):
        if case.get("base"):
            return ["trivial", f"{k}:base:{res}"]
        t = dget([tuple(p) for p in case["d"]], "evaluation_task")
        t = t.get("s") if isinstance(t, dict) else "non-str"
        b = [f"{k}:{res}", f"{k}:task={t}:{'ok' if res == 'ok' else 'err'}"]
        ex = set()
        for _kk, v in case["d"]:
            ex |= _exotics(v)
        b += [f"{k}:{e}:{'ok' if res == 'ok' else 'err'}" for e in ex]
        if res == "ok" and k == "pcfg":
            b.append("pcfg:metrics=" + ("none" if out["ok"]["metrics"] is None else "lists"))
            b.append("pcfg:range=" + ("xy" if out["ok"]["filtering"].get("max_x_position_list") is not None else
                                      "dist" if out["ok"]["filtering"].get("max_distance_list") is not None else "none"))
            if any(kk.endswith("_thresholds") and kk not in DOC_METRIC_PARAMS for kk, _ in case["d"]):
                b.append("pcfg:F8-unknown-key-accepted")
        return b
    ex = set()
    for _kk, v in case["args"]:
        ex |= _exotics(v)
    return [f"{k}:{res}", f"{k}:{'2d' if case['task'] not in IS_3D else '3d'}:{'ok' if res == 'ok' else 'err'}"] + [
        f"{k}:{e}:{res}" for e in ex]


def shrink(case):
    k = case["kind"]
    if k in ("thr", "chk", "chkn"):
        v = case["v"]
        if isinstance(v, list):
            for i in range(len(v)):
                yield dict(case, v=v[:i] + v[i + 1:])
                if isinstance(v[i], list):
                    for j in range(len(v[i])):
                        yield dict(case, v=v[:i] + [v[i][:j] + v[i][j + 1:]] + v[i + 1:])
                    if v[i]:
                        yield dict(case, v=v[:i] + [v[i][0]] + v[i + 1:])
            if len(v) == 1:
                yield dict(case, v=v[0])
        if case["n"] > 1:
            yield dict(case, n=case["n"] - 1)
        return
    if k in ("pcfg", "scfg"):
        d = case["d"]
        for i in range(len(d)):
            if d[i][0] not in ("evaluation_task",):
                c = dict(case, d=d[:i] + d[i + 1:])
                c.pop("base", None)
                yield c
        return
    a = case["args"]
    for i in range(len(a)):
        yield dict(case, args=a[:i] + a[i + 1:])
