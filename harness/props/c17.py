"""C17 — ground-truth lookup picks the nearest frame in tolerance; interpolation is exact.

Tie to the code: REAL `FrameGroundTruth` lists holding REAL `DynamicObject`s (BASE_LINK or MAP dataset
frame, one ego->map `HomogeneousMatrix` per frame, uuids appearing / disappearing / reordered, velocity
`None` or a tuple) are handed to the real `get_now_frame`, `get_interpolated_now_frame`,
`interpolate_ground_truth_frames` and `PerceptionEvaluationManager.get_ground_truth_now_frame(unix_time,
threshold, interpolate)` (a manager built without a dataset); the same timelines go to the Lean model
(`PEval.Model.Lookup`) as exact rationals.

Compared with the model (`compare`), on inputs inside the property's quantifier only and only what the statement
observes: nothing / a loaded frame / a new frame; for the nearest-frame lookup ANY frame as close as the model's
(ties are left open by "the loaded frame closest in time"); the stamp of an interpolated frame, its SET of uuids, the
position and yaw per uuid (1e-9; the small-angle blend of pyquaternion allowed for); "raised" vs "returned".

Every case is a short CALL SEQUENCE on ONE list of loaded frames (the primary query, the same query again, 1..3
other queries in the same / a neighbouring interval incl. the earlier frame's own stamp, the primary query once
more; functions or one manager); around every lookup a full value snapshot of the loaded frames is taken.

Oracle (independent of the model; exact `Fraction` arithmetic for yaw-only poses, a float reference with full 3-D
rotations for poses with roll / pitch), for EVERY lookup of the sequence and always with respect to the frames as
described by the case (= freshly built data): arg-min and tolerance recomputed from the timestamps (any arg-min; the
frame itself or an equal copy); neighbours = max{time <= t}, min{time > t}; gating; for paired uuids the position is
`p1 + a (p2 - p1)` with `a = (t - t1)/(t2 - t1)` in [0, 1] and the orientation is `a` of the way along the shortest
arc; unpaired uuids are kept with their own pose; frame time = query time; the lookup left the stamps, uuids, poses and
ego poses of the loaded frames as they were; a query asked earlier in the sequence gets the answer it got then.
"""
from __future__ import annotations

import math
import tempfile
from fractions import Fraction

from .. import core

PROP = "C17"
EXHAUSTIVE = False
THEOREMS = [
    "PEval.C17." + t
    for t in [
        "getNow_spec", "getNow_first_tie", "getNow_errors",
        "neighbours_split", "neighbours_spec",
        "gating", "gating_both", "gating_before_only", "gating_after_only", "gating_none",
        "interp_time_eq_query", "interp_reaches", "interp_objects",
        "interp_on_segment", "interp_at_neighbour", "interp_at_later_neighbour",
        "query_on_frame", "interp_never_at_later",
        "interp_keeps_unpaired", "interp_second_pass_filter", "interp_uuids",
        "yaw_shortest_arc", "arc_spec", "manager_dispatch",
        # the CODE's decision tables / interpolation formulas (PEval/Gen/LookupTables.lean, regenerated on every run).
        # The per-run obligations are exactly as strong as the text: get_now_frame = "the loaded frame closest in time if
        # it is within the tolerance and nothing otherwise" = ANY arg-min within the tolerance (`getNow_code_table_argmin`,
        # `_spec`, `_eq_model_mod_ties`), over "all time-ordered frame lists" (non-decreasing stamps; strictly increasing for
        # the interpolated lookup, where the neighbours are then determined).  `getNow_first_tie` / `getNow_errors` are
        # theorems about the MODEL only (first of equidistant frames, IndexError on [], the unit guard): the code's table is
        # not held to them, so `<` -> `<=`, a bisection, `[] -> None` keep every theorem below true.
        "getNow_code_table_argmin", "getNow_code_table_spec", "getNow_code_table_eq_model_mod_ties",
        "getInterp_code_table_eq_model", "getInterp_code_table_eq_getInterpolated",
        "getInterp_code_table_gating", "getInterp_code_table_none",
        "interpList_code_eq_model", "interpState_code_eq_model", "interpState_code_velocity_presence",
        "interpState_code_eq_lerp", "interpList_code_endpoints", "interpList_code_between_linear",
        # success companions of the interpolating branch (well-formed neighbours => `.ok (.interp f)`, explicit f), the error
        # exits, the end-to-end segment clause, "reproduces a neighbour at its own timestamp" with the map-conversion caveat
        "gating_both_ok", "loaded_wellFormed", "getInterpolated_errors", "interp_errors_iff", "interp_success_on_segment",
        "interp_at_own_timestamp", "interp_at_own_timestamp_not_verbatim",
    ]
] + ["PEval.Lookup.interpolateFrames_total", "PEval.Lookup.interpolateFrames_total'", "PEval.Lookup.neighbours_bounds"]
RULE = (
    "seeded random timelines of 0..8 frames (integer micro-second stamps from bases 0, 1e3, 1.6e15, near 1e17; gaps 1..1e5; "
    "mostly sorted, a flagged share with duplicate stamps or unsorted) with 0..5 objects per frame drawn from a pool of "
    "uuids (appearing / disappearing / reordered, rarely duplicated or None), dyadic positions / sizes / velocities, yaws "
    "k/64 half-turns incl. equal, nearly equal, antipodal and beyond +-1; ego poses = rational unit complex + translation; "
    "20% of the interpolating / direct cases with roll and pitch (k/64 half-turns, |.| <= 45 deg) on every ego pose and most "
    "objects; queries before / on / between / after frames; tolerances on and around the two actual gaps (dt-1, dt, dt+1), "
    "0, -1, huge; each through the function or the manager.  Every case is a call sequence on one frame list: primary query, "
    "the same again, 1..3 other queries (same interval incl. the earlier frame's stamp / neighbouring interval / anywhere, "
    "tolerance mostly admitting both neighbours, 20% in the other lookup mode), the primary query again; direct "
    "interpolation of a pair is repeated the same way.  Non-trivial = at least one frame and no error outcome; distinct = "
    "distinct canonical case"
)
TRUSTED = [
    "pyquaternion: Quaternion(axis=z, angle), Quaternion(w, x, y, z), Quaternion(matrix=R), rotation_matrix, elements, "
    "yaw_pitch_roll and slerp are taken as their mathematical contracts (slerp = shortest-arc interpolation)",
    "pyquaternion.slerp falls back to a normalised linear blend when the two rotations are closer than 3.62 deg "
    "(dot > 0.9995): the result then deviates from the proportional point of the arc by <= 0.0045*|d|^3 rad (<= 1.1e-6 rad); "
    "the comparison and the oracle allow exactly that much in that regime and 1e-9 elsewhere",
    "the bridge arg(z1 z2) = arg z1 + arg z2 (DESIGN 4.2): the harness hands tau = atan2(s, c)/pi of each ego pose to the model",
    "numpy matrix products and copy.deepcopy; the harness's own float quaternion algebra (product, rotation of a vector, "
    "shortest-arc interpolation) as the reference for poses with roll / pitch",
    "harness/dt_c17.py: the symbolic stubs (linear forms with canonical three-valued order atoms, expression trees), the DFS over "
    "decision prefixes and the Lean printer; `interp i j` is read off the traceback (the callee that first reads more than a "
    "frame's stamp received frames i, j and the unchanged query time)",
]
ASSUMPTIONS = [
    "histories: a lookup must leave the stamps, uuids, object poses and ego poses of the loaded frames as they were, and the "
    "same query on the same loaded frames gets the same answer (demanded on timelines inside the property's quantifier); "
    "other writes to loaded frames (an added transform entry, caches, frame names) are recorded as `seq:MUTATED:benign` only",
    "the Lean model is yaw-only (slerp is modelled on the yaw angle in half-turns): cases with roll / pitch are judged by the "
    "oracle alone",
    "timestamps and tolerances are Python ints",
    "3-D DynamicObject only (DynamicObject2D frames have camera frame ids, which convert_objects_to_global rejects)",
    "exactly antipodal headings (arc = half a turn) have two shortest arcs: either direction is accepted",
    "decision tables cover frame lists of length 0..3 only (a bounded skeleton); they are held to the property's text on "
    "time-ordered stamps (get_now_frame: any arg-min within the tolerance on non-decreasing stamps, q <= 1e17, n >= 1; "
    "get_interpolated_now_frame: the model skeleton's leaf on strictly increasing stamps), decided by integer linear "
    "arithmetic on the paths; inputs that are not plain numbers (None tolerance, NaN) and what happens inside "
    "interpolate_ground_truth_frames are outside the tables and stay with the correspondence runs",
    "interpolate_list / interpolate_state are tabulated as exact rational expressions (float rounding is outside); the slerp itself "
    "(pyquaternion) is not tabulated, only its parameter",
    "oracle AND comparison are evaluated on time-ordered timelines with per-frame unique uuids, ego poses present and "
    "base_link / map objects (the property's quantifier); unsorted, duplicate-uuid, missing-ego, foreign-frame-id inputs, "
    "get_now_frame beyond its unit guard (t > 1e17) and the EMPTY list are neither judged nor compared (counted as skipped / "
    "`quantifier:outside`).  OPEN: [] is a time-ordered list and the statement says \"nothing otherwise\", yet "
    "get_now_frame([]) raises IndexError today (AUDIT3 G1)",
    "which of several equidistant frames get_now_frame returns, the order of the objects of an interpolated frame, per-object "
    "stamps / frame ids / velocities / sizes, the ego pose of an interpolated frame, exception classes and whether a returned "
    "loaded frame is the same Python object or an equal copy are not stated by the property and not checked",
]

NONE_UUID = 999
N_QUICK, N_THOROUGH = 4000, 40000
TWO_PI = 2 * math.pi
F = Fraction

# ----------------------------------------------------------------------------- real objects

_MANAGERS = {}


def _manager(frame):
    """a real manager WITHOUT a dataset (`dataset_paths=[]`): the lookup needs `manager.ground_truth_frames` only, so the
    check does not hinge on /repo's test/sample_data.  Building it is set-up: a failure propagates (infrastructure)."""
    if frame not in _MANAGERS:
        from perception_eval.config import PerceptionEvaluationConfig
        from perception_eval.manager import PerceptionEvaluationManager

        d = {
            "evaluation_task": "detection", "target_labels": ["car", "bicycle", "pedestrian", "motorbike"],
            "max_x_position": 100.0, "max_y_position": 100.0, "min_point_numbers": [0, 0, 0, 0],
            "label_prefix": "autoware", "merge_similar_labels": False, "allow_matching_unknown": True,
            "center_distance_thresholds": [[1.0, 1.0, 1.0, 1.0]], "plane_distance_thresholds": [2.0],
            "iou_2d_thresholds": [0.5], "iou_3d_thresholds": [0.5],
        }
        cfg = PerceptionEvaluationConfig(
            dataset_paths=[], frame_id=frame, result_root_directory=tempfile.mkdtemp(prefix="c17_"),
            evaluation_config_dict=d)
        _MANAGERS[frame] = PerceptionEvaluationManager(cfg)
    return _MANAGERS[frame]


def _ego_tau(e):
    """heading of the ego pose in half-turns, as the float handed to both sides"""
    return math.atan2(float(F(e["s"])), float(F(e["c"]))) / math.pi


def _ids(case):
    """harness ids: frame i -> i, object j of frame i -> 100*i + j"""
    return [[100 * i + j for j in range(len(f["objs"]))] for i, f in enumerate(case["frames"])]


def _obj_frame(case, o):
    return o.get("frame", case["frame"])


def _uuid_num(u):
    return NONE_UUID if u is None else int(u)


# ---- plain-float quaternions (w, x, y, z) of the harness: poses with roll / pitch are built and judged with these,
# independently of pyquaternion

def _qmul(a, b):
    aw, ax, ay, az = a
    bw, bx, by, bz = b
    return (aw * bw - ax * bx - ay * by - az * bz, aw * bx + ax * bw + ay * bz - az * by,
            aw * by - ax * bz + ay * bw + az * bx, aw * bz + ax * by - ay * bx + az * bw)


def _qconj(a):
    return (a[0], -a[1], -a[2], -a[3])


def _qunit(a):
    n = math.sqrt(sum(v * v for v in a))
    return tuple(v / n for v in a)


def _q_ypr(yaw, pitch, roll):
    """rotation about z by yaw, then about (new) y by pitch, then about (new) x by roll (radians)"""
    qz = (math.cos(yaw / 2), 0.0, 0.0, math.sin(yaw / 2))
    qy = (math.cos(pitch / 2), 0.0, math.sin(pitch / 2), 0.0)
    qx = (math.cos(roll / 2), math.sin(roll / 2), 0.0, 0.0)
    return _qunit(_qmul(_qmul(qz, qy), qx))


def _q_angle(a, b):
    """angle in [0, pi] of the rotation taking a to b (well conditioned at 0 and at pi; blind to q / -q)"""
    r = _qmul(_qconj(a), b)
    return 2.0 * math.atan2(math.sqrt(r[1] ** 2 + r[2] ** 2 + r[3] ** 2), abs(r[0]))


def _q_rot(q, v):
    r = _qmul(_qmul(q, (0.0, v[0], v[1], v[2])), _qconj(q))
    return [r[1], r[2], r[3]]


def _q_slerp(a, b, s):
    """the point at fraction s of the SHORTEST arc from a to b"""
    r = _qmul(_qconj(a), b)
    if r[0] < 0:
        r = tuple(-v for v in r)
    n = math.sqrt(r[1] ** 2 + r[2] ** 2 + r[3] ** 2)
    if n < 1e-300:
        return a
    th = math.atan2(n, r[0])
    k = math.sin(s * th) / n
    return _qunit(_qmul(a, (math.cos(s * th), r[1] * k, r[2] * k, r[3] * k)))


def _rp(x):
    """(roll, pitch) in radians of an object / ego description; None = yaw only"""
    rp = x.get("rp")
    return None if rp is None else (float(F(rp[0])) * math.pi, float(F(rp[1])) * math.pi)


def _is3d(case):
    return any(f["ego"] is not None and f["ego"].get("rp") is not None or any(o.get("rp") is not None for o in f["objs"])
               for f in case["frames"])


def _obj_quat(o):
    rp = _rp(o) or (0.0, 0.0)
    return _q_ypr(float(F(o["tau"])) * math.pi, rp[1], rp[0])


def _ego_quat(e):
    rp = _rp(e) or (0.0, 0.0)
    return _q_ypr(_ego_tau(e) * math.pi, rp[1], rp[0])


def _build(case):
    from pyquaternion import Quaternion
    from perception_eval.common.dataset import FrameGroundTruth
    from perception_eval.common.label import AutowareLabel, Label
    from perception_eval.common.object import DynamicObject
    from perception_eval.common.schema import FrameID
    from perception_eval.common.shape import Shape, ShapeType
    from perception_eval.common.transform import HomogeneousMatrix

    fid = {"base_link": FrameID.BASE_LINK, "map": FrameID.MAP, "other": FrameID.LIDAR_TOP}
    frames = []
    for i, f in enumerate(case["frames"]):
        objs = []
        for j, o in enumerate(f["objs"]):
            vel = None if o["vel"] is None else tuple(float(F(v)) for v in o["vel"])
            ori = (Quaternion(axis=[0, 0, 1], angle=float(F(o["tau"])) * math.pi) if o.get("rp") is None
                   else Quaternion(*_obj_quat(o)))
            objs.append(DynamicObject(
                o.get("time", f["time"]), fid[_obj_frame(case, o)], tuple(float(F(v)) for v in o["pos"]), ori,
                Shape(ShapeType.BOUNDING_BOX, tuple(float(F(v)) for v in o["size"])), vel, 0.9,
                Label(AutowareLabel.CAR, "car", []), uuid=None if o["uuid"] is None else f"u{o['uuid']}",
                pointcloud_num=100 * i + j))
        tr = None
        if f["ego"] is not None:
            e = f["ego"]
            rot = (Quaternion(axis=[0, 0, 1], angle=_ego_tau(e) * math.pi) if e.get("rp") is None
                   else Quaternion(*_ego_quat(e)))
            tr = [HomogeneousMatrix(tuple(float(F(v)) for v in e["trans"]), rot, FrameID.BASE_LINK, FrameID.MAP)]
        frames.append(FrameGroundTruth(f["time"], str(i), objs, transforms=tr))
    return frames


def _yaw(q):
    return float(q.yaw_pitch_roll[0])


def _canon_obj(o):
    from perception_eval.common.schema import FrameID

    fr = o.frame_id.value if isinstance(o.frame_id, FrameID) else str(o.frame_id)
    u = o.uuid
    return {
        "id": int(o.pointcloud_num), "uuid": NONE_UUID if u is None else int(u[1:]), "time": int(o.unix_time),
        "frame": fr if fr in ("base_link", "map") else "other",
        "pos": [float(v) for v in o.state.position], "yaw": _yaw(o.state.orientation),
        "quat": [float(v) for v in o.state.orientation.elements],
        "size": [float(v) for v in o.state.size],
        "vel": None if o.state.velocity is None else [float(v) for v in o.state.velocity],
        "pos_type": type(o.state.position).__name__,
    }


def _steps(case):
    """the lookups of a case in call order: the primary query (case['mode'/'t'/'thr']) and then case['more']"""
    return [{"mode": case["mode"], "t": case["t"], "thr": case["thr"]}] + list(case.get("more") or [])


def _sub(case, st):
    """the single-lookup case of one step (same frame list)"""
    return dict(case, mode=st["mode"], t=st["t"], thr=st.get("thr", 0), more=[])


def _qkey(st):
    return (st["mode"], st["t"], st.get("thr", 0))


def _fid_str(x):
    return str(getattr(x, "value", x))


def _snap_obj(o):
    s = o.state
    return (o.pointcloud_num, o.uuid, o.unix_time, _fid_str(o.frame_id), tuple(map(float, s.position)),
            tuple(s.orientation.elements.tolist()), None if s.velocity is None else tuple(map(float, s.velocity)),
            tuple(map(float, s.size)))


def _snap_tf(tr):
    items = []
    for k, m in tr.items():
        items.append((_fid_str(k.src), _fid_str(k.dst), _fid_str(m.src), _fid_str(m.dst), tuple(m.matrix.ravel().tolist()),
                      tuple(map(float, m.position)), tuple(m.rotation.elements.tolist())))
    items.sort(key=lambda x: x[:2])
    return tuple(items)


def _snapshot(frames):
    """a full value snapshot of loaded frames: stamps, names, every object's id / uuid / stamp / frame_id / position /
    orientation / velocity / size, every registered transform (key, src, dst, matrix, position, rotation).  Used (a) as
    EVIDENCE of any write to the loaded frames (histogram `seq:MUTATED`, never a verdict) and (b) to recognise a returned
    frame that is a COPY of a loaded one"""
    return tuple((f.unix_time, f.frame_name, tuple(_snap_obj(o) for o in f.objects), _snap_tf(f.transforms)) for f in frames)


def _qsign(q):
    """q and -q are the same rotation: first non-zero component positive"""
    for v in q:
        if v != 0:
            return tuple(q) if v > 0 else tuple(-x for x in q)
    return tuple(q)


def _observed(snap):
    """(from a `_snapshot`) what the property's answers are functions of, per loaded frame: the stamp, per uuid the
    object's frame id and pose, and the ego pose (the registered base_link -> map matrix).  Additional registered
    transforms (a memoised inverse), other spellings of a frame id, frame names, point counts, velocities, sizes and the
    order of a frame's objects are NOT part of it."""
    out = []
    for t, _name, objs_, tfs in snap:
        objs = {}
        for o in objs_:
            objs.setdefault(o[1], []).append((o[3], o[4], _qsign(o[5])))
        ego = None
        for tf in tfs:
            if (tf[0], tf[1]) == ("base_link", "map"):
                ego = tf[4]
        out.append((int(t), objs, ego))
    return out


def _observed_diff(a, b):
    """first difference (in words) of two `_observed` values beyond 1e-9, None when the same"""
    if len(a) != len(b):
        return f"number of loaded frames {len(a)} -> {len(b)}"
    for i, ((ta, oa, ea), (tb, ob, eb)) in enumerate(zip(a, b)):
        if ta != tb:
            return f"loaded frame {i}: unix_time {ta} -> {tb}"
        if sorted(oa, key=str) != sorted(ob, key=str) or any(len(oa[u]) != len(ob[u]) for u in oa):
            return f"loaded frame {i}: uuids {sorted(oa, key=str)} -> {sorted(ob, key=str)}"
        for u in oa:
            for (fa, pa, ra), (fb, pb, rb) in zip(oa[u], ob[u]):
                if fa != fb:
                    return f"loaded frame {i}, uuid {u}: frame_id {fa} -> {fb}"
                if not _vec_close(pa, pb):
                    return f"loaded frame {i}, uuid {u}: position {pa} -> {pb}"
                if not _vec_close(ra, rb):
                    return f"loaded frame {i}, uuid {u}: orientation {ra} -> {rb}"
        if (ea is None) != (eb is None) or (ea is not None and not _vec_close(ea, eb)):
            return f"loaded frame {i}: ego pose (base_link -> map matrix) {ea} -> {eb}"
    return None


_SNAP_OBJ = ("harness id", "uuid", "unix_time", "frame_id", "position", "orientation", "velocity", "size")
_SNAP_TF = ("key src", "key dst", "src", "dst", "matrix", "position", "rotation")


def _snap_diff(a, b):
    """first difference of two snapshots, in words"""
    if len(a) != len(b):
        return f"number of loaded frames {len(a)} -> {len(b)}"
    for i, (fa, fb) in enumerate(zip(a, b)):
        if fa == fb:
            continue
        if fa[0] != fb[0]:
            return f"loaded frame {i}: unix_time {fa[0]} -> {fb[0]}"
        if fa[1] != fb[1]:
            return f"loaded frame {i}: frame_name {fa[1]} -> {fb[1]}"
        if len(fa[2]) != len(fb[2]):
            return f"loaded frame {i}: number of objects {len(fa[2])} -> {len(fb[2])}"
        for j, (oa, ob) in enumerate(zip(fa[2], fb[2])):
            for name, x, y in zip(_SNAP_OBJ, oa, ob):
                if x != y:
                    return f"loaded frame {i}, object {j} (uuid {oa[1]}): {name} {x} -> {y}"
        if [t[:2] for t in fa[3]] != [t[:2] for t in fb[3]]:
            return f"loaded frame {i}: registered transforms {[t[:2] for t in fa[3]]} -> {[t[:2] for t in fb[3]]}"
        for ta, tb in zip(fa[3], fb[3]):
            for name, x, y in zip(_SNAP_TF, ta, tb):
                if x != y:
                    return f"loaded frame {i}: transform {ta[0]}->{ta[1]}: {name} {x} -> {y}"
    return "loaded frames changed"


def _lookup(case, frames, st, m, loaded):
    """one real lookup, canonical result.  `loaded` = the value snapshot of the frames as they are before the call.
    Only the library call itself is inside the `try`; everything else is harness code and propagates."""
    from perception_eval.common import dataset as ds
    from perception_eval.common.schema import FrameID

    mode, t = st["mode"], st["t"]
    if mode == "direct":
        # a mechanism anchor of the property, not one of its `observe_at` entry points: observed while it exists
        fn = getattr(ds, "interpolate_ground_truth_frames", None)
        if fn is None:
            return {"unobservable": "interpolate_ground_truth_frames"}
        try:
            import inspect

            inspect.signature(fn).bind(frames[0], frames[1], t)
        except TypeError:
            return {"unobservable": "interpolate_ground_truth_frames(before_frame, after_frame, unix_time)"}
        except ValueError:
            pass
    try:
        if mode == "direct":
            r = fn(frames[0], frames[1], t)
        elif m is not None:
            r = m.get_ground_truth_now_frame(t, st["thr"], mode == "interp")
        elif mode == "now":
            r = ds.get_now_frame(frames, t, st["thr"])
        else:
            r = ds.get_interpolated_now_frame(frames, t, st["thr"])
    except Exception as e:
        return {"err": type(e).__name__}
    if r is None:
        return {"res": "none"}
    for i, f in enumerate(frames):
        if r is f:
            return {"res": "orig", "idx": i}
    # not one of the loaded OBJECTS.  The text says "returns that neighbour" / "returns the loaded frame": a defensive
    # copy of a loaded frame is that frame; `same` lists the loaded frames the result equals value by value.
    snap = _snapshot([r])[0]
    out = {"res": "interp", "time": r.unix_time, "time_type": type(r.unix_time).__name__, "name": r.frame_name,
           "objs": [_canon_obj(o) for o in r.objects], "same": [i for i, s in enumerate(loaded) if s == snap]}
    try:
        e = r.transforms[(FrameID.BASE_LINK, FrameID.MAP)]
        out["ego"] = {"pos": [float(v) for v in e.position], "yaw": _yaw(e.rotation)}
    except Exception as ex:  # pragma: no cover
        out["ego"] = {"err": type(ex).__name__}
    return out


def run_impl(case):
    """the whole call sequence on ONE list of loaded frames.  After every lookup the loaded frames are compared with what
    they were before that lookup: `mut` = a change of what the property's answers depend on (stamps, uuids, poses, ego
    pose; None otherwise), `mut_any` = any difference at all of the full snapshot or of the list (evidence only)."""
    frames = _build(case)
    m = None
    if case["via"] == "manager" and case["mode"] != "direct":
        m = _manager(case["frame"])
        m.ground_truth_frames = frames
    ids = [id(f) for f in frames]
    prev = _snapshot(frames)
    outs, mut, mut_any = [], [], []
    for st in _steps(case):
        outs.append(_lookup(case, frames, st, m, prev))
        cur_list = frames if m is None else m.ground_truth_frames
        cur = _snapshot(cur_list)
        why = any_ = None
        if cur != prev:
            why = _observed_diff(_observed(prev), _observed(cur))
            any_ = _snap_diff(prev, cur)
        elif cur_list is not frames or [id(f) for f in cur_list] != ids:
            any_ = "the list of loaded frames was replaced or holds other (equal) frame objects"
        mut.append(why)
        mut_any.append(any_)
        # every lookup is judged against the frames it found: continue with the harness's own list
        if m is not None and m.ground_truth_frames is not frames:
            m.ground_truth_frames = frames
        if any_ is not None:
            prev, ids = _snapshot(frames), [id(f) for f in frames]
    return {"steps": outs, "mut": mut, "mut_any": mut_any}


# ----------------------------------------------------------------------------- model side

def _model_frames(case):
    ids = _ids(case)
    fs = []
    for i, f in enumerate(case["frames"]):
        ego = None
        if f["ego"] is not None:
            e = f["ego"]
            ego = {"c": e["c"], "s": e["s"], "tau": core.q(_ego_tau(e)), "trans": [core.q(F(v)) for v in e["trans"]]}
        objs = []
        for j, o in enumerate(f["objs"]):
            objs.append({
                "id": ids[i][j], "uuid": _uuid_num(o["uuid"]), "time": o.get("time", f["time"]),
                "frame": _obj_frame(case, o), "pos": [core.q(F(v)) for v in o["pos"]], "tau": core.q(F(o["tau"])),
                "size": [core.q(F(v)) for v in o["size"]], "vel": None if o["vel"] is None else [core.q(F(v)) for v in o["vel"]],
            })
        fs.append({"id": i, "time": f["time"], "ego": ego, "objs": objs})
    return fs


def _unique_queries(case):
    """(distinct queries in order of first use, index of each step's query in that list) -- the model is a pure function
    of (frames, query), so one request serves every repetition"""
    uniq, idx, pos = [], [], {}
    for st in _steps(case):
        k = _qkey(st)
        if k not in pos:
            pos[k] = len(uniq)
            uniq.append(st)
        idx.append(pos[k])
    return uniq, idx


def model_requests(case, out):
    if _is3d(case) or "steps" not in out:
        return []            # the Lean model is yaw-only: poses with roll / pitch are judged by the oracle alone
    fs = _model_frames(case)
    reqs = []
    for st in _unique_queries(case)[0]:
        if st["mode"] == "direct":
            reqs.append({"op": "direct", "frames": fs[:2], "t": st["t"]})
        elif case["via"] == "manager":
            reqs.append({"op": "manager", "frames": fs, "t": st["t"], "thr": st["thr"], "interpolate": st["mode"] == "interp"})
        elif st["mode"] == "now":
            reqs.append({"op": "now", "frames": fs, "t": st["t"], "thr": st["thr"]})
        else:
            reqs.append({"op": "interp", "frames": fs, "t": st["t"], "thr": st["thr"]})
    return reqs


def _wrap_pi(x):
    """into [-pi, pi)"""
    return (x + math.pi) % TWO_PI - math.pi


def _wrap1(x: Fraction) -> Fraction:
    """half-turns into [-1, 1)"""
    return x - 2 * math.floor((x + 1) / 2)


def _yaw_tol(d_tau: float) -> float:
    """allowed deviation (rad) of an interpolated yaw from the proportional angle, see TRUSTED"""
    d = abs(d_tau) * math.pi
    return 1e-9 + (0.0045 * d ** 3 if d < 0.0640 else 0.0)


def _yaw_matches(yaw_impl: float, tau1, d, a) -> bool:
    """`yaw_impl` (rad) = tau1 + a*d half-turns modulo a turn; both directions when antipodal"""
    tol = _yaw_tol(float(d))
    cands = [float(tau1 + a * d)]
    if abs(abs(float(d)) - 1.0) < 1e-6:
        cands.append(float(tau1 - a * d))
    return any(abs(_wrap_pi(yaw_impl - c * math.pi)) <= tol for c in cands)


def _vec_close(a, b):
    if a is None or b is None:
        return a is None and b is None
    return len(a) == len(b) and all(core.close(x, y) for x, y in zip(a, b))


def _global_pose(case, fi, oj):
    """(pos, tau) of object oj of frame fi in the map frame, exact rationals (tau through the float bridge)"""
    f = case["frames"][fi]
    o = f["objs"][oj]
    p = [F(v) for v in o["pos"]]
    tau = F(o["tau"])
    if _obj_frame(case, o) == "base_link":
        e = f["ego"]
        c, s = F(e["c"]), F(e["s"])
        tr = [F(v) for v in e["trans"]]
        p = [c * p[0] - s * p[1] + tr[0], s * p[0] + c * p[1] + tr[1], p[2] + tr[2]]
        tau = F(_ego_tau(e)) + tau
    return p, tau


def _pair_arc(case, ib, ia, obj_id, uuid_num):
    """(tau1, shortest arc) between the map-frame headings of the object `obj_id` of frame ib and the first object
    with the same uuid in frame ia; None when the object is not an interpolated pair"""
    if obj_id // 100 != ib:
        return None
    jb = obj_id % 100
    ja = None
    for j, o in enumerate(case["frames"][ia]["objs"]):
        if _uuid_num(o["uuid"]) == uuid_num:
            ja = j
            break
    if ja is None:
        return None
    _, t1 = _global_pose(case, ib, jb)
    _, t2 = _global_pose(case, ia, ja)
    return t1, _wrap1(t2 - t1)


def _cmp_interp(case, out, mi, ib, ia, a):
    """implementation's interpolated frame vs the model's, on what the property observes: the stamp, the SET of uuids
    ("objects present in only one neighbour are kept" -- the text does not order the objects) and, per uuid, the pose
    ("lies on the straight segment and shortest rotation arc ... at the proportional time").  Not compared (the statement
    is silent about them; the model's values are one admissible choice): the order of the objects, per-object stamps and
    frame ids, the Python type of a position, which neighbour's other attributes an object inherits, velocities, sizes, the
    ego pose of the interpolated frame."""
    if out["time"] != mi["time"]:
        return f"frame time impl {out['time']} model {mi['time']}"
    io, mo = out["objs"], mi["objs"]
    if sorted(o["uuid"] for o in io) != sorted(o["uuid"] for o in mo):
        return f"uuids impl {sorted(o['uuid'] for o in io)} model {sorted(o['uuid'] for o in mo)}"
    by_uuid = {o["uuid"]: o for o in mo}
    for x in io:
        y = by_uuid[x["uuid"]]
        tag = f"object uuid {x['uuid']}"
        if x["frame"] != y["frame"]:
            continue        # the pose is given with respect to another frame id than the model's: not comparable here
        if not _vec_close(x["pos"], [core.unq(v) for v in y["pos"]]):
            return f"{tag}: position impl {x['pos']} model {y['pos']}"
        pa = _pair_arc(case, ib, ia, y["id"], x["uuid"])
        mtau = core.unq(y["tau"])
        if pa is None:
            ok = abs(_wrap_pi(x["yaw"] - float(mtau) * math.pi)) <= 1e-9
        else:
            t1, d = pa
            ok = _yaw_matches(x["yaw"], t1, d, a)
            # the model's own value must be the proportional point of the same arc
            if abs(_wrap_pi(float(mtau - (t1 + a * d)) * math.pi)) > 1e-9:
                return f"{tag}: model tau {y['tau']} is not tau1 + a*arc = {t1 + a * d}"
        if not ok:
            return f"{tag}: yaw impl {x['yaw']} rad, model tau {float(mtau)} half-turns"
    return None


def _neighbour_idx(case):
    """indices (before, after) the scan of the code selects; recomputed here for the comparison's arc bookkeeping"""
    t = case["t"]
    b = a = None
    for i, f in enumerate(case["frames"]):
        if t - f["time"] >= 0:
            b = i
        else:
            a = i
            break
    return b, a


def _step_tag(k, steps):
    st = steps[k]
    q = f"{st['mode']} t={st['t']}" + ("" if st["mode"] == "direct" else f" tol={st.get('thr')}")
    return f"lookup #{k + 1} of {len(steps)} on one frame list ({q}): " if len(steps) > 1 else ""


def compare(case, out, resps):
    """every lookup of the sequence against the model's answer for that query -- on inputs inside the property's
    quantifier ("all time-ordered frame lists, all query times ... and tolerances; all object sets with ids appearing /
    disappearing between neighbours; any ego poses").  Steps outside it (unsorted stamps, duplicated uuids in a frame,
    missing ego pose, foreign frame ids, the empty list, a query beyond the unit guard of get_now_frame, a direct
    interpolation outside [t1, t2]) are not compared; a case without any comparable step is a counted "skip"."""
    if "steps" not in out:
        return None          # the real code raised out of run_impl: run_check reports that itself
    steps = _steps(case)
    _, idx = _unique_queries(case)
    compared = 0
    for k, (st, o) in enumerate(zip(steps, out["steps"])):
        sub = _sub(case, st)
        if "unobservable" in o or not _comparable(sub):
            continue
        compared += 1
        d = _compare1(sub, o, resps[idx[k]])
        if d:
            return _step_tag(k, steps) + d
    return None if compared else "skip"


def _comparable(case):
    """is this single lookup inside the quantifier AND is its answer determined by the text up to the ties `_compare1`
    handles?  (interpolated lookups on lists with repeated stamps are left to the oracle, which tries every admissible
    pair of neighbours)"""
    if not _in_quantifier(case):
        return False
    ts = [f["time"] for f in case["frames"]]
    if case["mode"] == "direct":
        return len(ts) == 2 and ts[0] < ts[1] and ts[0] <= case["t"] <= ts[1]
    if case["mode"] == "interp":
        return all(x < y for x, y in zip(ts, ts[1:]))
    return True


def _as_orig(case, out, want_time=None):
    """indices of the loaded frames the answer stands for: the returned OBJECT, or -- for a returned copy -- every loaded
    frame it equals value by value ("returns that neighbour" is about the frame, not about the Python object)"""
    if out["res"] == "orig":
        return [out["idx"]]
    if out["res"] == "interp":
        return list(out.get("same") or [])
    return []


def _compare1(case, out, r):
    # exceptions: "raised" vs "returned" only -- the property names no exception class, and inside the quantifier the
    # model raises nowhere
    if "err" in out or "err" in r:
        return None if ("err" in out and "err" in r) else f"impl {_brief(out)} != model {_brief(r)}"
    if r.get("none"):
        return None if out["res"] == "none" else f"impl {_brief(out)} != model none"
    ts = [f["time"] for f in case["frames"]]
    if "orig" in r:
        idxs = _as_orig(case, out)
        if case["mode"] == "now":
            # "the loaded frame closest in time": ANY frame as far from the query as the model's
            # (PEval.C17.getNow_code_table_eq_model_mod_ties)
            want = abs(case["t"] - ts[r["orig"]])
            ok = any(abs(case["t"] - ts[i]) == want for i in idxs)
        else:
            ok = r["orig"] in idxs
        return None if ok else f"impl {_brief(out)} != model frame {r['orig']}"
    if "interp" in r:
        mi = r["interp"]
        if case["mode"] == "direct":
            ib, ia = 0, 1
        else:
            ib, ia = _neighbour_idx(case)
            if ib is None or ia is None or mi["base"] != ib:
                return f"model interpolates from frame {mi['base']}, scan gives {ib},{ia}"
        t1, t2 = case["frames"][ib]["time"], case["frames"][ia]["time"]
        a = F(case["t"] - t1, t2 - t1)
        if out["res"] == "orig":
            # the loaded frame itself where the model interpolates: admissible exactly at that frame's own stamp when it
            # already holds every object of both neighbours (see `_own_stamp_ok`)
            return None if _own_stamp_ok(case, out["idx"], ib, ia) else f"impl {_brief(out)} != model interpolated frame"
        if out["res"] != "interp":
            return f"impl {_brief(out)} != model interpolated frame"
        return _cmp_interp(case, out, mi, ib, ia, a)
    return f"unexpected model response {r}"


def _brief(o):
    if isinstance(o, dict) and "objs" in o:
        return {k: v for k, v in o.items() if k != "objs"}
    return o


# ----------------------------------------------------------------------------- oracle = the property

def _in_quantifier(case):
    """time-ordered, non-empty, ego poses present, base_link/map objects, uuids unique per frame; for the nearest-frame
    lookup also t within its unit guard (get_interpolated_now_frame has no such guard: "all query times")"""
    if case["mode"] == "now" and case["t"] > 10 ** 17:
        return False
    return _frames_in_quantifier(case)


def _frames_in_quantifier(case):
    fs = case["frames"]
    if not fs:
        # OPEN QUESTION (AUDIT3 G1): [] is a time-ordered list and the text says "nothing otherwise", but get_now_frame([])
        # raises IndexError today.  Until that is decided the empty list is treated as outside: neither judged nor pinned.
        return False
    ts = [f["time"] for f in fs]
    if any(x > y for x, y in zip(ts, ts[1:])):
        return False
    for f in fs:
        if f["ego"] is None:
            return False
        us = [_uuid_num(o["uuid"]) for o in f["objs"]]
        if len(set(us)) != len(us):
            return False
        if any(_obj_frame(case, o) == "other" for o in f["objs"]):
            return False
    return True


def _own_stamp_ok(case, idx, ib, ia):
    """both neighbours are within tolerance and the code returned the LOADED frame `idx` instead of a new one: that is
    "reproducing a neighbour exactly at that neighbour's own timestamp" when the query time is that frame's stamp, the
    frame is one of the two neighbours and it holds every uuid of both ("objects present in only one neighbour are
    kept")"""
    fs = case["frames"]
    if idx not in (ib, ia) or fs[idx]["time"] != case["t"]:
        return False
    both = {_uuid_num(o["uuid"]) for i in (ib, ia) for o in fs[i]["objs"]}
    return {_uuid_num(o["uuid"]) for o in fs[idx]["objs"]} == both


def _global_pose3(case, fi, oj):
    """(pos, unit quaternion) of object oj of frame fi in the map frame, plain floats (poses with roll / pitch)"""
    f = case["frames"][fi]
    o = f["objs"][oj]
    p = [float(F(v)) for v in o["pos"]]
    q = _obj_quat(o)
    if _obj_frame(case, o) == "base_link":
        e = f["ego"]
        qe = _ego_quat(e)
        p = [x + float(F(t)) for x, t in zip(_q_rot(qe, p), e["trans"])]
        q = _qunit(_qmul(qe, q))
    return p, q


def _check_objects3(case, out, got, ub, ua, ib, ia, a):
    """`_check_objects` for poses with roll / pitch (float reference, 1e-9): position on the segment of the two map-frame
    positions, orientation = the point at fraction a of the shortest arc between the two map-frame orientations"""
    af = float(a)
    for u, o in got.items():
        qo = _qunit(o["quat"])
        if u in ub and u in ua:
            p1, q1 = _global_pose3(case, ib, ub[u])
            p2, q2 = _global_pose3(case, ia, ua[u])
            want = [x + af * (y - x) for x, y in zip(p1, p2)]
            if not _vec_close(o["pos"], want):
                return f"uuid {u}: position {o['pos']} is not p1 + a (p2 - p1) = {want} (a = {a}, p1 = {p1}, p2 = {p2})"
            d = _q_angle(q1, q2)
            tol = 1e-9 + (0.0045 * d ** 3 if d < 0.0640 else 0.0)
            if math.pi - d < 1e-6:
                ok = abs(_q_angle(q1, qo) - af * d) <= 1e-6 and abs(_q_angle(qo, q2) - (1 - af) * d) <= 1e-6
            else:
                ok = _q_angle(_q_slerp(q1, q2, af), qo) <= tol
            if not ok:
                return (f"uuid {u}: orientation {o['quat']} is not a = {a} of the way along the shortest arc ({d} rad) from "
                        f"{q1} to {q2} (expected {_q_slerp(q1, q2, af)})")
        else:
            fi, j = (ib, ub[u]) if u in ub else (ia, ua[u])
            src = case["frames"][fi]["objs"][j]
            if o["frame"] == "map":
                p, q = _global_pose3(case, fi, j)
            else:
                p, q = [float(F(v)) for v in src["pos"]], _obj_quat(src)
            if not _vec_close(o["pos"], p) or _q_angle(q, qo) > 1e-9:
                return f"uuid {u} (in one neighbour only) is not kept with its pose: {o['pos']}, {o['quat']} vs {p}, {q}"
    return None


def _check_objects(case, out, ib, ia, a):
    """paired on segment + arc at proportional time `a`; unpaired kept; nothing else"""
    fb, fa = case["frames"][ib], case["frames"][ia]
    ub = {_uuid_num(o["uuid"]): j for j, o in enumerate(fb["objs"])}
    ua = {_uuid_num(o["uuid"]): j for j, o in enumerate(fa["objs"])}
    got = {}
    for o in out["objs"]:
        if o["uuid"] in got:
            return f"uuid {o['uuid']} appears twice in the interpolated frame"
        got[o["uuid"]] = o
    if set(got) != set(ub) | set(ua):
        return f"interpolated frame holds uuids {sorted(got)}, neighbours hold {sorted(set(ub) | set(ua))}"
    if _is3d(case):
        return _check_objects3(case, out, got, ub, ua, ib, ia, a)
    for u, o in got.items():
        if u in ub and u in ua:
            p1, t1 = _global_pose(case, ib, ub[u])
            p2, t2 = _global_pose(case, ia, ua[u])
            want = [x + a * (y - x) for x, y in zip(p1, p2)]
            if not _vec_close(o["pos"], want):
                return (f"uuid {u}: position {o['pos']} is not p1 + a (p2 - p1) = {[float(w) for w in want]} "
                        f"(a = {a}, p1 = {[float(x) for x in p1]}, p2 = {[float(x) for x in p2]})")
            d = _wrap1(t2 - t1)
            if not _yaw_matches(o["yaw"], t1, d, a):
                return (f"uuid {u}: yaw {o['yaw'] / math.pi} half-turns is not a = {a} of the way along the shortest arc "
                        f"from {float(t1)} by {float(d)}")
        else:
            fi, j = (ib, ub[u]) if u in ub else (ia, ua[u])
            src = case["frames"][fi]["objs"][j]
            if o["frame"] == "map":
                p, tau = _global_pose(case, fi, j)
            else:
                p, tau = [F(v) for v in src["pos"]], F(src["tau"])
            if not _vec_close(o["pos"], p) or abs(_wrap_pi(o["yaw"] - float(tau) * math.pi)) > 1e-9:
                return f"uuid {u} (in one neighbour only) is not kept with its pose: {o['pos']}, yaw {o['yaw']} vs {[float(x) for x in p]}, {float(tau)} half-turns"
    return None


def _same_answer(case, a, b):
    """two answers to the same query on the same loaded frames (None = the same), on what the property observes: nothing /
    a loaded frame with the same stamp / a frame with the same stamp, the same uuids and the same pose per uuid"""
    if "err" in a or "err" in b:
        return None if ("err" in a and "err" in b) else f"{_brief(a)} first, {_brief(b)} later"
    ts = [f["time"] for f in case["frames"]]
    ia, ib = _as_orig(case, a), _as_orig(case, b)
    if a["res"] == "none" or b["res"] == "none":
        return None if a["res"] == b["res"] else f"{_brief(a)} first, {_brief(b)} later"
    if a["res"] == "orig" or b["res"] == "orig":
        # a loaded frame (object or copy) both times, with the same stamp
        if ia and ib and {ts[i] for i in ia} & {ts[i] for i in ib}:
            return None
        return f"{_brief(a)} first, {_brief(b)} later"
    if a["time"] != b["time"]:
        return f"frame stamped {a['time']} first, {b['time']} later"
    oa = {o["uuid"]: o for o in a["objs"]}
    ob = {o["uuid"]: o for o in b["objs"]}
    if len(a["objs"]) != len(b["objs"]) or set(oa) != set(ob):
        return f"uuids {sorted(o['uuid'] for o in a['objs'])} first, {sorted(o['uuid'] for o in b['objs'])} later"
    for u, x in oa.items():
        y = ob[u]
        if x["frame"] != y["frame"]:
            continue
        if not _vec_close(x["pos"], y["pos"]):
            return f"uuid {u}: pos {x['pos']} first, {y['pos']} later"
        if _q_angle(_qunit(x["quat"]), _qunit(y["quat"])) > 1e-9:
            return f"uuid {u}: orientation {x['quat']} first, {y['quat']} later"
    return None


def oracle(case, out):
    """the property for every lookup of the sequence, each judged on the frames AS LOADED (the case description, i.e.
    freshly built data): (1) the single-lookup statement, (2) the lookup left what the answers depend on (stamps, uuids,
    poses, ego poses of the loaded frames) as it was, (3) a query asked before gets the answer it got before"""
    if "steps" not in out:
        if out.get("unexpected"):
            return f"the real code raised {out.get('err')} outside the anticipated places: {_brief(out)}"
        raise RuntimeError(f"c17.oracle: malformed implementation output {_brief(out)}")
    steps = _steps(case)
    state = _frames_in_quantifier(case)
    first = {}
    for k, (st, o) in enumerate(zip(steps, out["steps"])):
        if "unobservable" in o:
            continue
        why = _oracle1(_sub(case, st), o)
        if why:
            return _step_tag(k, steps) + why
        if not state:
            continue
        if out["mut"][k]:
            # quantifier over "histories": every lookup of a history is held to the frames as loaded; a lookup that changes
            # a stamp, an object's pose or an ego pose of a loaded frame changes the answer of some later query.  (Writes
            # that do not touch those -- an added transform entry, a cache attribute -- are `seq:MUTATED:benign` evidence.)
            return _step_tag(k, steps) + "the lookup modified the loaded frames: " + out["mut"][k]
        j = first.setdefault(_qkey(st), k)
        if j != k:
            why = _same_answer(case, out["steps"][j], o)
            if why:
                return _step_tag(k, steps) + f"the same query was lookup #{j + 1} and the answers differ: {why}"
    return None


def _oracle1(case, out):
    if not _in_quantifier(case):
        return None
    fs = case["frames"]
    t = case["t"]
    ts = [f["time"] for f in fs]
    mode = case["mode"]
    if mode == "direct":
        t1, t2 = ts[0], ts[1]
        if len(fs) != 2 or not (t1 <= t <= t2) or t1 == t2:
            return None
        if "err" in out:
            return f"interpolate_ground_truth_frames raised {out['err']} on a valid pair"
        if out["res"] != "interp" or out["time"] != t:
            return f"interpolated frame is stamped {out.get('time')} instead of the query time {t}"
        return _check_objects(case, out, 0, 1, F(t - t1, t2 - t1))
    thr = case["thr"]
    if "err" in out:
        return f"lookup raised {out['err']} on a valid timeline"
    idxs = _as_orig(case, out)      # the loaded frame(s) the answer stands for (the object itself or an equal copy)
    if mode == "now":
        # "returns the loaded frame closest in time if it is within the tolerance and nothing otherwise"
        m = min(abs(t - x) for x in ts)
        if m > thr:
            return None if out["res"] == "none" else f"closest frame is {m} us away (> tolerance {thr}) but {_brief(out)} was returned"
        if not idxs:
            return f"a frame lies {m} us away (<= tolerance {thr}) but {_brief(out)} was returned"
        if all(abs(t - ts[i]) != m for i in idxs):
            return f"returned frame {idxs[0]} is {abs(t - ts[idxs[0]])} us away, the closest is {m} us away"
        return None
    # interpolated lookup
    le = [x for x in ts if x <= t]
    gt = [x for x in ts if x > t]
    t1 = max(le) if le else None
    t2 = min(gt) if gt else None
    b_ok = t1 is not None and t - t1 <= thr
    a_ok = t2 is not None and t2 - t <= thr
    if not b_ok and not a_ok:
        return None if out["res"] == "none" else f"no neighbour within tolerance (before {t1}, after {t2}, t {t}, tol {thr}) but {_brief(out)} returned"
    if b_ok != a_ok:
        # "when only one neighbour is within tolerance it returns that neighbour" (the frame: the object or an equal copy)
        want = t1 if b_ok else t2
        if not any(ts[i] == want for i in idxs):
            return (f"only the {'earlier' if b_ok else 'later'} neighbour (t={want}) is within tolerance {thr} of {t} "
                    f"(before {t1}, after {t2}) but {_brief(out)} returned")
        return None
    a = F(t - t1, t2 - t1)
    if not (0 <= a <= 1):
        return f"proportional time {a} outside [0, 1]"
    if out["res"] == "orig":
        for ib in [i for i, x in enumerate(ts) if x == t1]:
            for ia in [i for i, x in enumerate(ts) if x == t2]:
                if _own_stamp_ok(case, out["idx"], ib, ia):
                    return None
    if out["res"] != "interp":
        return f"both neighbours ({t1}, {t2}) are within tolerance {thr} of {t} but {_brief(out)} returned"
    if out["time"] != t:
        return f"interpolated frame is stamped {out['time']} instead of the query time {t}"
    why = None
    for ib in [i for i, x in enumerate(ts) if x == t1]:
        for ia in [i for i, x in enumerate(ts) if x == t2]:
            why = _check_objects(case, out, ib, ia, a)
            if why is None:
                return None
    return why


# ----------------------------------------------------------------------------- generation

def _rat_unit(rng):
    """a rational point of the unit circle"""
    k = rng.random()
    if k < 0.15:
        return rng.choice([(F(1), F(0)), (F(0), F(1)), (F(-1), F(0)), (F(0), F(-1))])
    u = F(rng.randint(-24, 24), rng.choice([1, 2, 3, 4, 8]))
    c, s = (1 - u * u) / (1 + u * u), 2 * u / (1 + u * u)
    return c, s


def _gen_ego(rng):
    c, s = _rat_unit(rng)
    big = rng.random() < 0.5
    tr = [core.dyadic(rng, -4096, 4096, 8) if big else core.dyadic(rng, -8, 8, 8) for _ in range(2)] + [core.dyadic(rng, -2, 2, 8)]
    return {"c": core.q(c), "s": core.q(s), "trans": [core.q(v) for v in tr]}


def _gen_tau(rng, prev=None):
    k = rng.random()
    if prev is not None:
        p = F(prev)
        if k < 0.15:
            return core.q(p)
        if k < 0.30:
            return core.q(p + F(rng.randint(-5, 5), 256))       # inside pyquaternion's small-angle blend
        if k < 0.38:
            return core.q(p + rng.choice([1, -1]))              # antipodal
        if k < 0.46:
            return core.q(p + rng.choice([1, -1]) + F(rng.choice([-1, 1]), 64))  # just beyond / short of half a turn
    if k < 0.8:
        return core.q(F(rng.randint(-64, 64), 64))
    return core.q(F(rng.randint(-128, 128), 64))                # beyond +-1: q and -q spellings


def _gen_vec(rng, lo, hi, denom=8):
    return [core.q(core.dyadic(rng, lo, hi, denom)) for _ in range(3)]


def _gen_obj(rng, uuid, prev, vel_mode):
    o = {"uuid": uuid}
    if prev is not None and rng.random() < 0.1:
        o["pos"] = list(prev["pos"])
    else:
        o["pos"] = _gen_vec(rng, -64, 64)
    o["tau"] = _gen_tau(rng, None if prev is None else prev["tau"])
    o["size"] = [core.q(core.dyadic(rng, 0.25, 6, 8)) for _ in range(3)]
    r = rng.random()
    if vel_mode == "none" or (vel_mode == "mix" and r < 0.35):
        o["vel"] = None
    else:
        o["vel"] = _gen_vec(rng, -16, 16)
    return o


def _gen_times(rng, n, kind):
    base = rng.choice([0, 1000, 1_600_000_000_000_000, 1_624_157_578_750_212, 10 ** 17 - 500_000, -5000])
    gaps = []
    for _ in range(max(0, n - 1)):
        g = rng.choice([1, 2, 3, 10, 100, 50_000, 100_000, rng.randint(1, 200_000)])
        if kind == "dupstamp" and rng.random() < 0.35:
            g = 0
        gaps.append(g)
    ts = [base]
    for g in gaps:
        ts.append(ts[-1] + g)
    if kind == "unsorted" and n > 1:
        rng.shuffle(ts)
    return ts[:n]


def _gen_query(rng, ts):
    """(t, class)"""
    if not ts:
        return rng.randint(0, 1000), "empty"
    s = sorted(ts)
    k = rng.random()
    if k < 0.18:
        return s[0] - rng.choice([1, 2, 10, 75, 100_000, rng.randint(1, 300_000)]), "before"
    if k < 0.36:
        return s[-1] + rng.choice([1, 2, 10, 75, 100_000, rng.randint(1, 300_000)]), "after"
    if k < 0.58 or len(s) == 1:
        return rng.choice(s), "on"
    i = rng.randrange(len(s) - 1)
    lo, hi = s[i], s[i + 1]
    if hi - lo <= 1:
        return rng.choice([lo, hi]), "on"
    kk = rng.random()
    if kk < 0.25:
        return (lo + hi) // 2, "between"          # the exact midpoint (ties of |dt|) when the gap is even
    if kk < 0.4:
        return lo + 1, "between"
    if kk < 0.55:
        return hi - 1, "between"
    return rng.randint(lo + 1, hi - 1), "between"


def _gen_thr(rng, ts, t):
    cands = [0, -1, 10 ** 9, 75_000]
    if ts:
        le = [x for x in ts if x <= t]
        gt = [x for x in ts if x > t]
        for d in ([t - max(le)] if le else []) + ([min(gt) - t] if gt else []) + [min(abs(t - x) for x in ts)]:
            cands += [d - 1, d, d, d + 1, d + 1]
        if le and gt:
            cands += [max(t - max(le), min(gt) - t)] * 3    # both just within
    return rng.choice(cands)


def _both_thr(rng, s, t):
    """a tolerance that admits both neighbours of t (those that exist)"""
    le = [x for x in s if x <= t]
    gt = [x for x in s if x > t]
    d = max(([t - max(le)] if le else []) + ([min(gt) - t] if gt else []) + [0])
    return rng.choice([d, d, d + 1, max(d, 75_000), 10 ** 9])


def _gen_more(rng, ts, mode, t, thr):
    """the rest of the call sequence after the primary query q0:  q0 again, 1..3 other queries (same interval incl. its
    earlier frame's own stamp, a neighbouring interval, anywhere; now and then the other lookup mode), q0 again"""
    q0 = {"mode": mode, "t": t, "thr": thr}
    if rng.random() < 0.06:
        return [dict(q0)]
    others = []
    if mode == "direct":
        lo, hi = min(ts[:2]), max(ts[:2])
        for _ in range(rng.randint(1, 2)):
            others.append({"mode": "direct", "t": rng.choice([lo, hi, (lo + hi) // 2, rng.randint(lo, hi)]), "thr": 0})
    else:
        s = sorted(set(ts))
        for _ in range(rng.randint(1, 3)):
            m2 = mode if rng.random() < 0.8 else ("now" if mode == "interp" else "interp")
            k = rng.random()
            if len(s) < 2 or k > 0.85:
                t2, _ = _gen_query(rng, ts)
                cls = "any"
            else:
                i = max(0, min(len(s) - 2, sum(1 for x in s if x <= t) - 1))
                cls = "same"
                if k > 0.5 and len(s) > 2:
                    i = rng.choice([j for j in (i - 1, i + 1) if 0 <= j <= len(s) - 2])
                    cls = "neighbour"
                lo, hi = s[i], s[i + 1]
                t2 = rng.choice([lo, lo, min(lo + 1, hi - 1), (lo + hi) // 2, hi - 1, rng.randint(lo, hi - 1)])
            thr2 = _both_thr(rng, s, t2) if rng.random() < 0.65 else _gen_thr(rng, ts, t2)
            others.append({"mode": m2, "t": t2, "thr": thr2, "cls": cls})
    return [dict(q0)] + others + [dict(q0)]


def _gen_case(rng, tier):
    k = rng.random()
    kind = "sorted"
    if k < 0.07:
        kind = "dupstamp"
    elif k < 0.14:
        kind = "unsorted"
    n = rng.choice([1, 1, 2, 2, 2, 3, 3, 4, 4, 5, 6, 7, 8]) if rng.random() < 0.98 else 0
    mode = rng.choice(["now", "interp", "interp", "interp", "interp", "direct"])
    if mode == "direct":
        n, kind = 2, "sorted"
    frame = rng.choice(["base_link", "map"])
    ts = _gen_times(rng, n, kind)
    if mode == "direct" and rng.random() < 0.06:
        ts[1] = ts[0]
    pool = rng.sample(range(1, 12), rng.randint(1, 6))
    vel_mode = rng.choice(["all", "all", "mix", "mix", "none"])
    special = rng.random()
    frames = []
    last = {}
    for i, t_i in enumerate(ts):
        if mode == "now" and rng.random() < 0.7:
            us = rng.sample(pool, min(len(pool), rng.randint(0, 2)))
        else:
            us = rng.sample(pool, rng.randint(0, min(len(pool), 5)))
        us = [u for u in us]
        if us and special < 0.04:
            us.append(rng.choice(us))                 # duplicated uuid within a frame
        objs = []
        for u in us:
            uu = None if (special > 0.97 and u == pool[0]) else u
            o = _gen_obj(rng, uu, last.get(u), vel_mode)
            if 0.04 <= special < 0.07 and rng.random() < 0.3:
                o["frame"] = rng.choice(["map", "base_link"])   # mixed frame ids inside one dataset
            if 0.07 <= special < 0.09 and rng.random() < 0.2:
                o["frame"] = "other"
            if rng.random() < 0.05:
                o["time"] = t_i + rng.choice([-1, 1, 7])
            last[u] = o
            objs.append(o)
        ego = _gen_ego(rng)
        if 0.09 <= special < 0.115 and rng.random() < 0.4:
            ego = None
        frames.append({"time": t_i, "ego": ego, "objs": objs})
    if mode == "direct":
        lo, hi = ts[0], ts[1]
        kk = rng.random()
        if kk < 0.2:
            t = lo
        elif kk < 0.45:
            t = hi
        elif kk < 0.52:
            t = rng.choice([lo - 1, hi + 1])
        else:
            t = rng.randint(lo, hi)
        qc = "direct"
        thr = 0
    else:
        t, qc = _gen_query(rng, ts)
        if rng.random() < 0.015:
            t, qc = 10 ** 17 + rng.choice([0, 1, 1000]), "guard"
        thr = _gen_thr(rng, ts, t)
        if mode == "interp" and qc in ("between", "on") and rng.random() < 0.3:
            thr = _both_thr(rng, sorted(set(ts)), t)
    case = {"kind": "lookup", "via": rng.choice(["func", "manager"]) if mode != "direct" else "func", "mode": mode,
            "frame": frame, "timeline": kind, "qclass": qc, "frames": frames, "t": t, "thr": thr,
            "more": _gen_more(rng, ts, mode, t, thr)}
    if mode != "now" and rng.random() < 0.2:
        _tilt(rng, case)
    return case


def _gen_rp(rng):
    """(roll, pitch) in half-turns, |.| <= 1/4 (45 deg), multiples of 1/64"""
    return [core.q(F(rng.randint(-16, 16), 64)), core.q(F(rng.randint(-16, 16), 64))]


def _tilt(rng, case):
    """"any ego poses": give the ego poses (and most objects) roll and pitch.  Such cases are judged by the oracle alone
    (float reference with full 3-D rotations); the Lean model is yaw-only."""
    for f in case["frames"]:
        if f["ego"] is not None:
            f["ego"]["rp"] = _gen_rp(rng)
        for o in f["objs"]:
            if rng.random() < 0.7:
                o["rp"] = _gen_rp(rng)


def generate(rng, tier):
    n = N_QUICK if tier == "quick" else N_THOROUGH
    return table_witness_cases() + [_gen_case(rng, tier) for _ in range(n)]


# ----------------------------------------------------------------------------- decision tables of the real code

def table_witness_cases():
    """valuations on which the CODE's decision table differs from the model's skeleton, realised as concrete lookups
    (empty on a tree whose tables equal the skeleton); also rational points where an interpolation formula differs"""
    from .. import dt_c17

    cs = []
    try:
        for w in dt_c17.witness_inputs():
            frames = [{"time": t, "ego": _e(k, 0), "objs": [_o(1, k, 0)]} for k, t in enumerate(w["ts"])]
            srt = all(a < b for a, b in zip(w["ts"], w["ts"][1:]))
            mode = "now" if w["fn"] == "getNow" else "interp"
            for via in ("func", "manager"):
                cs.append(_case(mode, frames, w["q"], w["tol"], via=via, timeline="sorted" if srt else "unsorted",
                                qclass="table-witness"))
        kern = dt_c17.STATE.get("arith")
        for d in (dt_c17.arith_differences(kern) if kern else []):
            p = {k: F(v) for k, v in d["point"].items()}
            t1, t2, t = int(p["t1"]), int(p["t2"]), int(p["t"])
            objs1 = [_o(1, p["a0"], p["a1"], tau="0", vel=(core.q(p["a0"]), core.q(p["a1"]), core.q(p["a2"])))]
            objs2 = [_o(1, p["b0"], p["b1"], tau="1/2", vel=(core.q(p["b0"]), core.q(p["b1"]), core.q(p["b2"])))]
            frames = [{"time": t1, "ego": _e(), "objs": objs1}, {"time": t2, "ego": _e(), "objs": objs2}]
            cs.append(_case("interp", frames, t, t2 - t1, qclass="table-witness"))
            cs.append(_case("direct", frames, t, 0, qclass="table-witness"))
    except Exception:  # noqa: BLE001 - the witness step must never break the check
        return cs
    return cs


def extra_evidence():
    from .. import dt_c17

    return {"tables": dt_c17.evidence()}


# ----------------------------------------------------------------------------- corpus

def _o(uuid, x, y, tau="0", vel=("0", "0", "0"), size=("2", "4", "3/2"), **kw):
    d = {"uuid": uuid, "pos": [core.q(F(x)), core.q(F(y)), "0"], "tau": tau, "size": list(size),
         "vel": None if vel is None else list(vel)}
    d.update(kw)
    return d


def _e(x=0, y=0, c="1", s="0"):
    return {"c": c, "s": s, "trans": [core.q(F(x)), core.q(F(y)), "0"]}


def _case(mode, frames, t, thr, via="func", frame="base_link", timeline="sorted", qclass="corpus", more=()):
    return {"kind": "lookup", "via": via, "mode": mode, "frame": frame, "timeline": timeline, "qclass": qclass,
            "frames": frames, "t": t, "thr": thr, "more": [dict(m) for m in more]}


def _q(mode, t, thr=0):
    return {"mode": mode, "t": t, "thr": thr}


def corpus():
    cs = []
    four = [{"time": 1000 * k, "ego": _e(k, 0), "objs": [_o(1, k, 0)]} for k in range(1, 5)]
    # F10 (fixed): 10 us before the first of four frames, tolerance 75 -> the first frame
    for via in ("func", "manager"):
        cs.append(_case("interp", four, 990, 75, via=via, qclass="before"))
        cs.append(_case("now", four, 990, 75, via=via, qclass="before"))
    # F15 (fixed): same uuid in both neighbours, velocity None
    two = [{"time": 1000, "ego": _e(), "objs": [_o(1, 1, 0, vel=None), _o(2, 5, 5), _o(4, 9, 9)]},
           {"time": 2000, "ego": _e(), "objs": [_o(1, 2, 0, vel=None)]}]
    cs.append(_case("interp", two, 1500, 1000, qclass="between"))
    # F16 (fixed): unpaired base_link objects must come out with tuple positions in the map frame
    cs.append(_case("interp", two, 1500, 1000, via="manager", qclass="between"))
    # tolerance exactly on both gaps / one too small on either side
    for thr in (500, 499):
        cs.append(_case("interp", two, 1500, thr, qclass="between"))
    cs.append(_case("interp", two, 1400, 400, qclass="between"))
    cs.append(_case("interp", two, 1600, 400, qclass="between"))
    # query on a frame: alpha = 0 with the later frame as second neighbour, or the frame itself
    cs.append(_case("interp", four, 2000, 1000, qclass="on"))
    cs.append(_case("interp", four, 2000, 999, qclass="on"))
    cs.append(_case("interp", four, 4000, 0, qclass="on"))
    # rotated ego poses, antipodal and wrapping headings, q / -q spellings
    rot = [{"time": 0, "ego": _e(10, -5, "3/5", "4/5"), "objs": [_o(1, 1, 2, "3/4"), _o(2, 0, 0, "-63/64"), _o(3, 1, 1, "7/4")]},
           {"time": 10, "ego": _e(12, -5, "-4/5", "3/5"), "objs": [_o(3, 1, 1, "-1/4"), _o(2, 0, 1, "63/64"), _o(1, 2, 2, "-3/4")]}]
    for t in (0, 3, 5, 9):
        cs.append(_case("interp", rot, t, 10, qclass="between"))
        cs.append(_case("interp", rot, t, 10, frame="map", qclass="between"))
    for t in (0, 5, 10, 11, -1):
        cs.append(_case("direct", rot, t, 0, qclass="direct"))
    # ego poses and objects with roll / pitch (oracle only): base_link and map datasets, function and manager, direct
    tilt = [{"time": 0, "ego": dict(_e(10, -5, "3/5", "4/5"), rp=["1/8", "-1/16"]),
             "objs": [_o(1, 1, 2, "3/4", rp=["1/16", "1/8"]), _o(2, 0, 0, "-63/64"), _o(3, 1, 1, "7/4", rp=["-1/8", "0"])]},
            {"time": 10, "ego": dict(_e(12, -5, "-4/5", "3/5"), rp=["-1/16", "3/32"]),
             "objs": [_o(3, 1, 1, "-1/4", rp=["1/8", "1/16"]), _o(2, 0, 1, "63/64", rp=["0", "-1/8"]), _o(1, 2, 2, "-3/4"), _o(5, 4, 4)]}]
    for t in (0, 3, 5, 9):
        cs.append(_case("interp", tilt, t, 10, qclass="between"))
        cs.append(_case("interp", tilt, t, 10, frame="map", via="manager", qclass="between"))
    for t in (0, 4, 10):
        cs.append(_case("direct", tilt, t, 0, qclass="direct"))
    # ties of |dt|: any of the equidistant frames may be returned (today: the first)
    cs.append(_case("now", four, 1500, 500, qclass="between"))
    cs.append(_case("now", four, 1500, 499, qclass="between"))
    # errors
    cs.append(_case("now", [], 5, 5, qclass="empty"))
    cs.append(_case("interp", [], 5, 5, qclass="empty"))
    cs.append(_case("now", four, 10 ** 17 + 1, 10 ** 18, qclass="guard"))
    cs.append(_case("now", four, 10 ** 17, 10 ** 18, qclass="guard"))
    cs.append(_case("interp", four, 10 ** 17 + 1, 10 ** 18, qclass="guard"))
    noego = [dict(two[0], ego=None), two[1]]
    cs.append(_case("interp", noego, 1500, 1000, qclass="between"))
    cs.append(_case("interp", noego, 1500, 400, qclass="between"))
    # call sequences on ONE frame list: lookups leave the loaded frames alone and are repeatable.  The ego drives and
    # turns between the frames; objects w.r.t. base_link (converted with the ego pose of their frame) and w.r.t. map.
    drive = [{"time": 1_000_000, "ego": _e(10, -5, "4/5", "3/5"), "objs": [_o(1, 12, 3, "-1/8"), _o(2, -6, -2, "15/16"), _o(3, 1, 1)]},
             {"time": 1_100_000, "ego": _e(18, -2, "-3/5", "4/5"), "objs": [_o(1, 9, 1, "-3/8"), _o(2, -8, "-3/2", "-31/32"), _o(4, 0, 7)]},
             {"time": 1_200_000, "ego": _e(20, 6, "-1", "0"), "objs": [_o(2, -9, 0, "-7/8"), _o(1, 5, 1, "-1/2")]},
             {"time": 1_300_000, "ego": _e(12, 9, "0", "-1"), "objs": [_o(1, 2, 1, "-5/8")]}]
    tol = 100_000
    for frame in ("base_link", "map"):
        for via in ("func", "manager"):
            for fl in (drive[:2], drive):
                # same query twice, other queries in the interval, on the earlier frame, just before the later one, nearest
                cs.append(_case("interp", fl, 1_050_000, tol, via=via, frame=frame, qclass="between", more=[
                    _q("interp", 1_050_000, tol), _q("interp", 1_025_000, tol), _q("interp", 1_075_000, tol),
                    _q("interp", 1_000_000, tol), _q("interp", 1_099_999, tol), _q("now", 1_000_010, tol),
                    _q("interp", 1_050_000, tol)]))
            # neighbouring intervals and back; a frame is the later neighbour first and the earlier one afterwards
            cs.append(_case("interp", drive, 1_150_000, tol, via=via, frame=frame, qclass="between", more=[
                _q("interp", 1_150_000, tol), _q("interp", 1_050_000, tol), _q("interp", 1_250_000, tol),
                _q("interp", 1_100_000, tol), _q("interp", 1_199_999, tol), _q("now", 1_100_000, 0),
                _q("interp", 1_150_000, tol)]))
            # query on a loaded frame first (alpha = 0 writes that frame's own pose), then inside the interval
            cs.append(_case("interp", drive, 1_100_000, tol, via=via, frame=frame, qclass="on", more=[
                _q("interp", 1_100_000, tol), _q("interp", 1_160_000, tol), _q("interp", 1_100_000, tol)]))
            # nearest-frame lookups interleaved with interpolated ones
            cs.append(_case("now", drive, 1_100_010, tol, via=via, frame=frame, qclass="between", more=[
                _q("interp", 1_130_000, tol), _q("now", 1_100_010, tol), _q("interp", 1_130_000, tol), _q("now", 1_100_010, tol)]))
        cs.append(_case("direct", drive[:2], 1_050_000, 0, frame=frame, qclass="direct", more=[
            _q("direct", 1_050_000), _q("direct", 1_000_000), _q("direct", 1_100_000), _q("direct", 1_020_000), _q("direct", 1_050_000)]))
    return cs


# ----------------------------------------------------------------------------- histogram, shrinking

def _ego_differs(case, ib, ia):
    fs = case["frames"]
    return fs[ib]["ego"] is not None and fs[ia]["ego"] is not None and fs[ib]["ego"] != fs[ia]["ego"]


def _seq_branches(case, out):
    """histogram keys of the call sequence (state / repeatability part of the check)"""
    steps = _steps(case)
    outs = out["steps"]
    b = [f"seq:steps:{len(steps)}" if len(steps) < 6 else "seq:steps:6+"]
    if len(steps) == 1:
        return b
    uniq, idx = _unique_queries(case)
    b.append(f"seq:distinct-queries:{len(uniq)}")
    b.append("seq:primary-repeated:" + ("err" if "err" in outs[0] else outs[0]["res"]))
    in_q = _frames_in_quantifier(case)
    b.append("seq:state-checked" if in_q else "seq:state-not-checked(outside-quantifier)")
    if any(st["mode"] != steps[0]["mode"] for st in steps):
        b.append("seq:mixed-modes")
    for st in steps:
        if "cls" in st:
            b.append(f"seq:other-query:{st['cls']}")
    # which loaded frame served as the earlier neighbour of an interpolation, how often and for how many distinct times
    used = {}
    for st, o in zip(steps, outs):
        if o.get("res") == "interp" and not o.get("same"):
            ib, ia = (0, 1) if st["mode"] == "direct" else _neighbour_idx(_sub(case, st))
            used.setdefault((ib, ia), []).append(st["t"])
    n_int = sum(len(v) for v in used.values())
    b.append(f"seq:interpolating-lookups:{min(n_int, 4)}" + ("+" if n_int >= 4 else ""))
    for (ib, ia), tl in used.items():
        if len(tl) < 2:
            continue
        key = f"seq:earlier-frame-reused:{case['frame']}" + (":ego-differs" if _ego_differs(case, ib, ia) else ":ego-same")
        b.append(key)
        if len(set(tl)) > 1:
            b.append("seq:earlier-frame-reused:distinct-times")
        if case["frames"][ib]["time"] in tl:
            b.append("seq:earlier-frame-reused:incl-its-own-stamp")
    if len(used) > 1:
        b.append("seq:interpolations-in-several-intervals")
        ibs = {k[0] for k in used}
        if any(k[1] in ibs for k in used):
            b.append("seq:frame-is-later-then-earlier-neighbour")
    if any(o.get("res") == "orig" for o in outs) and used:
        b.append("seq:loaded-frame-returned-and-interpolated")
    if any(out["mut"]):
        b.append("seq:MUTATED")
    elif any(out.get("mut_any") or []):
        b.append("seq:MUTATED:benign")     # a write that does not touch stamps / uuids / poses / ego poses (evidence only)
    return b


_TABLE_NOTE = []


def _table_branches():
    """once per run: how the decision tables of the real code came out (`table:untranslatable` = the translator fell back)"""
    if _TABLE_NOTE:
        return []
    _TABLE_NOTE.append(1)
    try:
        from .. import dt_c17

        ev = dt_c17.evidence()
        b = [f"table:untranslatable:{k}" for k in ev["decision_tables_untranslatable"]]
        if ev["decision_tables_untranslatable"]:
            b.append("table:untranslatable")
        if ev["arith_kernels"] != "translated":
            b += ["table:untranslatable", "table:untranslatable:arith"]
        return b + [f"table:{k}:paths={v['paths']}" for k, v in ev["decision_tables"].items()]
    except Exception:  # noqa: BLE001
        return ["table:untranslatable"]


def branches(case, out):
    if "steps" not in out:
        return ["unexpected-exception", "trivial"]
    b = _branches1(case, out["steps"][0])
    b += [f"unobservable:{o['unobservable']}" for o in out["steps"] if "unobservable" in o][:1]
    if any(o.get("res") == "interp" and o.get("same") for o in out["steps"]):
        b.append("returned:copy-of-a-loaded-frame")
    return b + _seq_branches(case, out) + _table_branches()


def _branches1(case, out):
    fs = case["frames"]
    b = [f"mode:{case['mode']}", f"via:{case['via']}", f"dataset:{case['frame']}", f"n:{len(fs)}",
         f"timeline:{case['timeline']}", f"query:{case['qclass']}"]
    b.append("quantifier:inside" if _in_quantifier(case) else "quantifier:outside(not-judged,not-compared)")
    if _is3d(case):
        b.append("pose:roll-pitch(oracle-only)")
    if "unobservable" in out:
        return b + ["trivial"]
    if "err" in out:
        b += [f"err:{out['err']}", "trivial"]
        return b
    if not fs:
        b.append("trivial")
    res = out["res"]
    t = case["t"]
    ts = [f["time"] for f in fs]
    if case["mode"] == "now":
        b.append(f"now:{res}")
        if ts:
            m = min(abs(t - x) for x in ts)
            if sum(1 for x in ts if abs(t - x) == m) > 1:
                b.append("now:tie")
            if m == case["thr"]:
                b.append("tol:exact")
        return b
    if res == "interp" and out.get("same"):
        res = "orig"
        out = dict(out, res="orig", idx=out["same"][0])
    if case["mode"] == "interp":
        ib, ia = _neighbour_idx(case)
        if res == "orig":
            b.append("interp:before-only" if out["idx"] == ib else "interp:after-only" if out["idx"] == ia else "interp:orig-?")
        else:
            b.append(f"interp:{res}")
        if ib is not None and t - ts[ib] == case["thr"] or ia is not None and ts[ia] - t == case["thr"]:
            b.append("tol:exact")
        if ib is None:
            b.append("nb:no-before")
        if ia is None:
            b.append("nb:no-after")
    else:
        ib, ia = 0, 1
    if res == "interp":
        t1, t2 = ts[ib], ts[ia]
        a = F(t - t1, t2 - t1)
        b.append("alpha:0" if a == 0 else "alpha:1" if a == 1 else "alpha:1/2" if a == F(1, 2) else "alpha:inner")
        ub = [_uuid_num(o["uuid"]) for o in fs[ib]["objs"]]
        ua = [_uuid_num(o["uuid"]) for o in fs[ia]["objs"]]
        if set(ub) & set(ua):
            b.append("objs:paired")
        if set(ub) - set(ua):
            b.append("objs:only-before")
        if set(ua) - set(ub):
            b.append("objs:only-after")
        if len(set(ub)) != len(ub) or len(set(ua)) != len(ua):
            b.append("objs:dup-uuid")
        if not out["objs"]:
            b.append("objs:none")
        for u in (set(ub) & set(ua) if not _is3d(case) else ()):
            pa = _pair_arc(case, ib, ia, 100 * ib + ub.index(u), u)
            d = abs(float(pa[1]))
            b.append("arc:zero" if d == 0 else "arc:small-blend" if d * math.pi < 0.064 else "arc:antipodal" if abs(d - 1) < 1e-6 else "arc:normal")
            ob = fs[ib]["objs"][ub.index(u)]
            oa = fs[ia]["objs"][ua.index(u)]
            if abs(F(oa["tau"]) - F(ob["tau"])) > 1:
                b.append("arc:wrapped")
            b.append("vel:both" if ob["vel"] is not None and oa["vel"] is not None else "vel:some-none")
        if _is3d(case) and _frames_in_quantifier(case):
            for u in set(ub) & set(ua):
                d = _q_angle(_global_pose3(case, ib, ub.index(u))[1], _global_pose3(case, ia, ua.index(u))[1])
                b.append("arc3d:small-blend" if d < 0.064 else "arc3d:antipodal" if math.pi - d < 1e-6 else "arc3d:normal")
        if any(_obj_frame(case, o) != case["frame"] for f in (fs[ib], fs[ia]) for o in f["objs"]):
            b.append("objs:mixed-frame-ids")
    return b


def shrink(case):
    fs = case["frames"]
    more = list(case.get("more") or [])
    if more:
        # promote a later lookup to be the only one, then drop single steps
        for st in more:
            yield dict(case, mode=st["mode"], t=st["t"], thr=st.get("thr", 0), more=[])
        for i in range(len(more)):
            yield dict(case, more=more[:i] + more[i + 1:])
        yield dict(case, mode=more[0]["mode"], t=more[0]["t"], thr=more[0].get("thr", 0), more=more[1:])
    if case["mode"] != "direct" and all(st["mode"] != "direct" for st in more):
        for i in range(len(fs)):
            c = dict(case)
            c["frames"] = fs[:i] + fs[i + 1:]
            yield c
    for i, f in enumerate(fs):
        for j in range(len(f["objs"])):
            c = dict(case)
            c["frames"] = [dict(g, objs=g["objs"][:j] + g["objs"][j + 1:]) if k == i else g for k, g in enumerate(fs)]
            yield c
    for i, f in enumerate(fs):
        if f["ego"] is not None and (f["ego"]["c"] != "1" or any(v != "0" for v in f["ego"]["trans"])):
            c = dict(case)
            c["frames"] = [dict(g, ego=_e()) if k == i else g for k, g in enumerate(fs)]
            yield c
    for i, f in enumerate(fs):
        for j, o in enumerate(f["objs"]):
            if o["tau"] != "0":
                c = dict(case)
                c["frames"] = [dict(g, objs=[dict(p, tau="0") if l == j else p for l, p in enumerate(g["objs"])]) if k == i else g
                               for k, g in enumerate(fs)]
                yield c
    if _is3d(case):
        c = dict(case)
        c["frames"] = [dict(g, ego=None if g["ego"] is None else {k: v for k, v in g["ego"].items() if k != "rp"},
                            objs=[{k: v for k, v in p.items() if k != "rp"} for p in g["objs"]]) for g in fs]
        yield c
        for i, f in enumerate(fs):
            for j, o in enumerate(f["objs"]):
                if o.get("rp") is not None:
                    c = dict(case)
                    c["frames"] = [dict(g, objs=[{k: v for k, v in p.items() if k != "rp"} if l == j else p
                                                 for l, p in enumerate(g["objs"])]) if k == i else g for k, g in enumerate(fs)]
                    yield c
    if case["via"] == "manager":
        yield dict(case, via="func")
    if fs:
        base = min(f["time"] for f in fs)
        if base > 1000:
            c = dict(case, t=case["t"] - base, more=[dict(st, t=st["t"] - base) for st in more])
            c["frames"] = [dict(f, time=f["time"] - base,
                                objs=[dict(o, time=o["time"] - base) if "time" in o else o for o in f["objs"]]) for f in fs]
            yield c


def search(rng, st, disagreements):
    """witnesses of a broken table theorem first, then more interpolated lookups (the branch every C17 mechanism feeds into)"""
    out = table_witness_cases()
    while len(out) < 4000:
        c = _gen_case(rng, "thorough")
        if c["mode"] != "now" or rng.random() < 0.3:
            out.append(c)
    return out
