"""C10 — object filtering keeps exactly the objects satisfying the configured criteria.

Tie to the code: REAL `DynamicObject` lists (BASE_LINK, and MAP with a random ego pose registered as a
base_link→map `HomogeneousMatrix` in a `TransformDict`), REAL `DynamicObject2D` lists, REAL
`DynamicObjectWithPerceptionResult` lists and the REAL `PerceptionEvaluationManager._filter_objects`
are pushed through `filter_objects` / `filter_object_results`; the kept ids (in order) and
raised-vs-returned are compared with the Lean model `PEval.Filter` (which receives the ego-relative
position exactly as the real transform produced it) -- inside the docstrings' contract and leaving out
the objects on which the property text leaves the outcome open (`noclaim:*`, see `_verdict`); outside
the contract a difference (also of the exception class) is a counted skip.

Oracle (independent of the model): the kept set recomputed from the property's criteria in exact
`Fraction`s — ego-relative position through an exact rational rigid motion (the poses are rational
quaternions, so the rotation matrix is rational), bounds looked up per label, the mean for relaxed
unknown estimates — plus order preservation, idempotence (the real filter applied twice),
monotonicity (the real filter under widened bounds keeps a super-list) and input immutability.
"""
from __future__ import annotations

import copy
import math
import os
from collections import Counter
from fractions import Fraction

from .. import core

# 4x4 matrix products / inversions gain nothing from BLAS threads; their spin-waiting triples the wall time
for _v in ("OMP_NUM_THREADS", "OPENBLAS_NUM_THREADS", "MKL_NUM_THREADS"):
    os.environ.setdefault(_v, "1")

PROP = "C10"
EXHAUSTIVE = False
THEOREMS = [
    "PEval.C10." + t
    for t in [
        "call_site_keywords_declared", "critical_params_declared",
        "isTarget_iff_criteria", "filter_sublist", "mem_filter_iff", "filter_exact", "filter_idem",
        "filter_mono", "fp_label_passes", "unknown_uses_mean", "resultTarget_iff", "filterResults_both",
        "filterResults_idem", "no_exception_in_contract", "dist_encoding_sound", "frame_invariant",
        "filter_frame_invariant",
        # decision table of _is_target_object, regenerated from the source on every run (harness/dt_c10.py)
        "isTarget_table_check", "isTarget_code_table_eq_model", "isTarget_all_valuations_consistent",
        "isTarget_eq_skeleton", "isTarget_code_table_eq_isTarget", "table_iff_criteria", "table_fp_label_passes",
        "table_unknown_uses_mean", "table_no_exception_in_contract",
        # result level (filter_object_results): totality in the contract, monotonicity in the bounds, frame invariance
        "filterResults_total", "filterResults_mono", "resultTarget_frame_invariant", "filterResults_frame_invariant",
        # locality: every element is judged on its own (no state from one element to the next, position is no criterion)
        "filterE_append", "filter_append", "filterResults_append", "filter_singleton", "filter_length",
    ]
]
RULE = (
    "seeded random scenes: 3-D objects in BASE_LINK / MAP (rational ego pose, yaw-only or full 3-D) / mixed frames, "
    "with, without or with an incomplete TransformDict; 2-D objects with and without position; estimates and ground "
    "truths; label sets with/without unknown, None, [] and duplicates; per-label lists (x/y, max/min distance, "
    "confidence, point numbers) of the right and of a wrong length; uuid and ignore-attribute lists; results with "
    "and without ground truth; the manager's _filter_objects. Coordinates and bounds share a dyadic grid (1/8; "
    "confidence 1/16) so a compared pair is exactly equal or >= 1e-4 apart. A case is non-trivial when it filters "
    "at least one object with at least one criterion configured; distinct = distinct canonical JSON of the case"
)
TRUSTED = [
    "decision-table translator (harness/dtable.py, harness/dt_c10.py): the symbolic stubs stand for DynamicObject / "
    "DynamicObject2D (get_distance_bev, pointcloud_num), Label (is_fp, is_unknown, contains_any), list (in, index, [], "
    "truthiness, np.mean incl. nan on []) and TransformDict.transform (identity for src == dst, KeyError when no matrix) "
    "as atoms; the modules under test are executed from their current source with the single rewrite `a is b` -> "
    "`__dt_is__(a, b)` (identity tests cannot be intercepted by an object); what the stubs abstract is covered by the "
    "correspondence runs on real objects",
    "numpy mean / math.hypot / np.linalg.inv / pyquaternion rotation matrices are compared with exact rational "
    "arithmetic; decisions closer than 1e-7 to a bound (other than exact ties in untransformed coordinates) are not judged",
    "the ego-relative position handed to the Lean model is the output of the real TransformDict.transform (converted "
    "exactly); its correctness is checked by the oracle's exact rigid motion, not by the model",
]
ASSUMPTIONS = [
    "decision table: order atoms of different pairs of terms (and Boolean atoms) are treated as independent - an "
    "over-approximation of the input space, sound for 'table = model'; when the source leaves the abstraction the table "
    "is marked untranslatable (branch key table:untranslatable) and only the correspondence ties model and code",
    "contract of the docstrings: every per-label list that is given has the length of target_labels (\"each of them must be same "
    "length list\"), the object's label has an entry; objects are complete (position, point count, registered transform). Outside "
    "it the oracle makes no claim at all and a difference between code and model (also: which exception, or none) is a counted skip "
    "of the correspondence, never a disagreement; inside it only raised-vs-returned is compared, not the exception class",
    "where the property text and today's code part ways, or the text is silent, the oracle makes no claim about the object and the "
    "object is left out of the model comparison (reasons `noclaim:*` in the branch histogram, listed in `_verdict`): confidence applied "
    "to ground truths, attributes of a result's estimate not tested, confidence bound 0 and no attribute test for relaxed unknown "
    "estimates, target_labels == [], a key that is only a substring of the label name, ground-truth-less results under target uuids. "
    "The Lean model follows today's code also there. The regenerated decision table of `_is_target_object` is compared (theorems "
    "isTarget_table_check / isTarget_code_table_eq_model) with the model skeleton under ONE of the eight readings of three of these "
    "points (PEval.FilterTable.Reading: confidence applied to ground truths or not, target_labels == [] targets everything or "
    "nothing, confidence bound 0 or mean for relaxed unknown estimates), exception classes not compared; the corollaries for the "
    "code's table (table_iff_criteria ...) are stated for inputs whose atoms avoid the valuations on which the readings differ "
    "(PEval.C10.InQuantifier). A change of the code on the other `noclaim:*` inputs (attribute test of relaxed estimates, name "
    "substrings) still breaks the table theorem and is reported without a failing input",
    "manager level: `_filter_objects` is resolved with getattr, the per-case criteria are installed by assigning "
    "`evaluator_config.filtering_params` / `target_labels` and read back through the manager's public properties; when either is not "
    "possible the manager observation is dropped for the run (branch `unobservable:*`), never reported",
    "target_labels contains LabelType members only (no CommonLabel members); target_uuids is a list of str or None",
    "strings are compared code point by code point (Python str / Lean String)",
]

EPS = 1e-7
EPS_Q = "1/10000000"
LABEL_PARAMS = ["max_x_position_list", "max_y_position_list", "max_distance_list", "min_distance_list",
                "confidence_threshold_list", "min_point_numbers"]
ALL_PARAMS = ["target_labels", "ignore_attributes"] + LABEL_PARAMS + ["target_uuids"]
FP_LABELS = ("AutowareLabel.FP", "TrafficLightLabel.FP")
UNKNOWN_LABELS = ("AutowareLabel.UNKNOWN", "TrafficLightLabel.UNKNOWN")

A_LABELS = ["CAR", "TRUCK", "BUS", "BICYCLE", "MOTORBIKE", "PEDESTRIAN", "ANIMAL", "UNKNOWN", "FP"]
T_LABELS = ["TRAFFIC_LIGHT", "GREEN", "YELLOW", "RED", "RED_LEFT", "UNKNOWN", "FP"]
NAMES = {
    "CAR": ["car", "vehicle.car", "vehicle.police"], "TRUCK": ["truck", "vehicle.truck", "trailer"],
    "BUS": ["bus", "vehicle.bus"], "BICYCLE": ["bicycle", "vehicle.bicycle"], "MOTORBIKE": ["motorbike", "motorcycle"],
    "PEDESTRIAN": ["pedestrian", "pedestrian.adult", "stroller"], "ANIMAL": ["animal"],
    "UNKNOWN": ["unknown", "movable_object.barrier", "forklift"], "FP": ["false_positive"],
    "TRAFFIC_LIGHT": ["traffic_light"], "GREEN": ["green", "crosswalk_green"], "YELLOW": ["yellow"],
    "RED": ["red", "crosswalk_red"], "RED_LEFT": ["red_left"],
}
ATTRS = ["vehicle.parked", "parked", "cycle.without_rider", "pedestrian.sitting_lying_down", "occluded"]
IGNORE_KEYS = ["parked", "cycle.without_rider", "car", "vehicle", "occluded", "bus", "x", ""]

# ----------------------------------------------------------------------------- real objects

_CACHE = {}


def _mods():
    if _CACHE:
        return _CACHE
    from pyquaternion import Quaternion
    from perception_eval.common.label import AutowareLabel, Label, TrafficLightLabel
    from perception_eval.common.object import DynamicObject
    from perception_eval.common.object2d import DynamicObject2D
    from perception_eval.common.schema import FrameID
    from perception_eval.common.shape import Shape, ShapeType
    from perception_eval.common.transform import HomogeneousMatrix, TransformDict
    from perception_eval.evaluation import DynamicObjectWithPerceptionResult
    from perception_eval.evaluation.matching.objects_filter import filter_object_results, filter_objects

    _CACHE.update(
        Quaternion=Quaternion, AutowareLabel=AutowareLabel, TrafficLightLabel=TrafficLightLabel, Label=Label,
        DynamicObject=DynamicObject, DynamicObject2D=DynamicObject2D, FrameID=FrameID, Shape=Shape,
        ShapeType=ShapeType, HomogeneousMatrix=HomogeneousMatrix, TransformDict=TransformDict,
        Result=DynamicObjectWithPerceptionResult, filter_objects=filter_objects,
        filter_object_results=filter_object_results,
        shape=Shape(ShapeType.BOUNDING_BOX, (1.0, 1.0, 1.0)), quat=Quaternion(),
    )
    return _CACHE


def _label(s):
    M = _mods()
    cls, name = s.split(".")
    return getattr(M[cls], name)


def _mk_obj(o):
    M = _mods()
    lab = M["Label"](_label(o["label"]), o["name"], list(o["attrs"]))
    frame = M["FrameID"].from_value(o["frame"])
    pos = tuple(o["pos"]) if o["pos"] is not None else None
    if o["dim"] == "2d":
        return M["DynamicObject2D"](100, frame, o["score"], lab, roi=(0, 0, 10, 10), uuid=o["uuid"], position=pos)
    return M["DynamicObject"](100, frame, pos, M["quat"], M["shape"], (0.0, 0.0, 0.0), o["score"], lab,
                              pointcloud_num=o["pc"], uuid=o["uuid"])


def _mk_tf(tf):
    """None -> None; list of matrices -> TransformDict"""
    if tf is None:
        return None
    M = _mods()
    mats = []
    for m in tf:
        q = [float(Fraction(x)) for x in m["q"]]
        t = [float(Fraction(x)) for x in m["t"]]
        mats.append(M["HomogeneousMatrix"](tuple(t), M["Quaternion"](*q), m["src"], m["dst"]))
    import zlib

    if not mats or zlib.crc32(repr(tf).encode()) % 2:
        return M["TransformDict"](mats)
    # the same registry WITH A HISTORY, as the library produces it for interpolated frames (deepcopy of another
    # frame's registry, then the entries are replaced): built from decoy matrices, queried in both directions,
    # copied, every entry overwritten with the real matrix. A correct registry behaves like a fresh one.
    from copy import deepcopy

    decoys = [M["HomogeneousMatrix"]((m.position[0] + 37.5, m.position[1] - 61.25, m.position[2] + 1.5),
                                     M["Quaternion"](axis=[0, 0, 1], angle=1.1) * m.rotation, m.src, m.dst) for m in mats]
    td = M["TransformDict"](decoys)
    for m in mats:
        for key in ((m.src, m.dst), (m.dst, m.src)):
            try:
                td.transform(key, (1.0, 2.0, 0.5))
            except Exception:
                pass
    td = deepcopy(td)
    for m in mats:
        td[(m.src, m.dst)] = m
    return td


def _mk_params(P):
    kw = {}
    for k in ALL_PARAMS:
        v = P.get(k)
        if v is None:
            kw[k] = None
        elif k == "target_labels":
            kw[k] = [_label(s) for s in v]
        else:
            kw[k] = list(v)
    return kw


def _snap_obj(x):
    st = x.state
    return (
        type(x).__name__, x.frame_id.value, None if st.position is None else tuple(float(v) for v in st.position),
        type(x.semantic_label.label).__name__ + "." + x.semantic_label.label.name, x.semantic_label.name,
        tuple(x.semantic_label.attributes), float(x.semantic_score), getattr(x, "pointcloud_num", None), x.uuid,
    )


def _snap_params(kw):
    return {k: (None if v is None else list(v)) for k, v in kw.items()}


def _ego(td, obj):
    """what the real TransformDict makes of the object's position (floats), None when not needed / unavailable"""
    M = _mods()
    if td is None or obj.state.position is None or obj.frame_id == M["FrameID"].BASE_LINK:
        return None
    try:
        p = td.transform((obj.frame_id, M["FrameID"].BASE_LINK), obj.state.position)
        return [float(p[0]), float(p[1])]
    except KeyError:
        return None


class HarnessSetupError(RuntimeError):
    """raised by harness code only (scene construction, manager set-up): run_check files it as an infrastructure error"""


def _setup(fn, what):
    """run a SET-UP step (building the scene with the library's constructors); a failure is not a statement about filtering"""
    try:
        return fn()
    except Exception as e:  # noqa: BLE001
        raise HarnessSetupError(f"{what}: {type(e).__name__}: {e}")


def _snap_item(x):
    if hasattr(x, "estimated_object"):
        g = x.ground_truth_object
        return ("result", _snap_obj(x.estimated_object), None if g is None else _snap_obj(g))
    return _snap_obj(x)


def _ids(lst, items, ids):
    """ids of the returned elements: the element of the input list it IS, else (a filter that hands out copies) the first
    not yet used input element with the same value; -1 for an element that is neither ("sub-list" is a statement about
    which objects are returned, not about Python object identity)"""
    pos = {}
    for i, x in enumerate(items):
        pos.setdefault(id(x), i)
    used, out, snaps = set(), [], None
    for x in lst:
        i = pos.get(id(x))
        if i is None:
            if snaps is None:
                snaps = [_snap_item(y) for y in items]
            sx = _snap_item(x)
            i = next((j for j, sy in enumerate(snaps) if j not in used and sy == sx), None)
            if i is not None:
                used.add(i)
        out.append(-1 if i is None else ids[i])
    return out


def _call(fn):
    try:
        return {"ok": fn()}
    except Exception as e:  # raised vs returned is the observable; the class is kept for the histogram / the model comparison
        return {"err": type(e).__name__, "exc": e}


# ----------------------------------------------------------------------------- implementation runner

def run_impl(case):
    """`out["err"]` comes from the calls the property is about only (filter_objects / filter_object_results /
    PerceptionEvaluationManager._filter_objects); building the scene is set-up (HarnessSetupError -> infrastructure)"""
    M = _mods()
    kind = case["kind"]
    if kind == "manager":
        return _run_manager(case)
    td = _setup(lambda: _mk_tf(case["tf"]), "TransformDict of the scene")
    kw = _mk_params(case["params"])
    out = {}
    if kind == "objects":
        specs = case["objects"]
        objs = _setup(lambda: [_mk_obj(o) for o in specs], "objects of the scene")
        ids = [o["id"] for o in specs]
        flat = objs
        items = objs

        def run(items_, kw_):
            return M["filter_objects"](items_, case["is_gt"], transforms=td, **kw_)
    else:
        specs = case["results"]
        items, flat, ids = [], [], []
        try:
            for r in specs:
                e = _mk_obj(r["est"])
                g = _mk_obj(r["gt"]) if r["gt"] is not None else None
                res = M["Result"](e, g, transforms=td)
                ids.append(r["id"])
                items.append(res)
                flat.append(e)
                if g is not None:
                    flat.append(g)
        except Exception as e:  # the scene cannot even be built (not the filter's business); counted: branch not-filtered:*
            return {"build_err": type(e).__name__}

        def run(items_, kw_):
            return M["filter_object_results"](items_, transforms=td, **kw_)

    flat_specs = specs if kind == "objects" else [x for r in specs for x in ([r["est"]] + ([r["gt"]] if r["gt"] else []))]
    out["flags"] = [[s["id"], bool(x.semantic_label.is_fp()), bool(x.semantic_label.is_unknown())]
                    for s, x in zip(flat_specs, flat)]
    out["ego"] = {str(s["id"]): _ego(td, x) for s, x in zip(flat_specs, flat)}
    before_items = list(items)
    before = [_snap_obj(x) for x in flat]
    before_kw = _snap_params(kw)
    r = _call(lambda: run(items, kw))
    # "never mutates its input": the caller's list (length, the very elements), every object, every parameter list
    out["unchanged"] = bool(
        len(items) == len(before_items) and all(a is b for a, b in zip(items, before_items))
        and [_snap_obj(x) for x in flat] == before and _snap_params(kw) == before_kw
    )
    if "err" in r:
        out["err"] = r["err"]
        return out
    kept = r["ok"]
    out["kept"] = _ids(kept, items, ids)
    # idempotence: the real filter applied to its own output
    kept_list = list(kept)
    kept_ids = list(out["kept"])
    r2 = _call(lambda: run(kept_list, kw))
    out["twice"] = _ids(r2["ok"], kept_list, kept_ids) if "ok" in r2 else {"err": r2["err"]}
    # locality (theorems filter_append / filter_singleton): the fate of an object does not depend on its position or its
    # neighbours -- the real filter on the reversed input keeps the reverse
    rev_items = list(reversed(items))
    r4 = _call(lambda: run(rev_items, kw))
    if "ok" in r4:
        out["rev"] = _ids(r4["ok"], rev_items, list(reversed(ids)))
    # monotonicity: the real filter under widened bounds
    if case.get("wider") is not None:
        r3 = _call(lambda: run(items, _mk_params(case["wider"])))
        out["wider"] = _ids(r3["ok"], items, ids) if "ok" in r3 else {"err": r3["err"]}
    return out


_MGR = {}
UNOBSERVABLE = Counter()


def _manager():
    """ONE real manager WITHOUT a dataset (`dataset_paths=[]`: nothing is loaded, the property needs no dataset)"""
    if "m" in _MGR:
        return _MGR["m"]
    import tempfile

    from perception_eval.config import PerceptionEvaluationConfig
    from perception_eval.manager import PerceptionEvaluationManager

    def build():
        cfg = PerceptionEvaluationConfig(
            dataset_paths=[], frame_id="base_link",
            result_root_directory=tempfile.mkdtemp(prefix="c10_"),
            evaluation_config_dict={
                "evaluation_task": "detection", "target_labels": ["car", "bicycle", "pedestrian", "motorbike"],
                "max_x_position": 100.0, "max_y_position": 100.0, "min_point_numbers": [0, 0, 0, 0],
                "label_prefix": "autoware", "merge_similar_labels": False, "allow_matching_unknown": True,
                "center_distance_thresholds": [[1.0, 1.0, 1.0, 1.0]], "plane_distance_thresholds": [2.0],
                "iou_2d_thresholds": [0.5], "iou_3d_thresholds": [0.5],
            },
        )
        return PerceptionEvaluationManager(cfg)

    _MGR["m"] = _setup(build, "PerceptionEvaluationManager without a dataset")
    return _MGR["m"]


def _unobservable(name, flags=None, ego=None):
    UNOBSERVABLE[name] += 1
    return {"unobservable": name, "flags": flags or [], "ego": ego or {}, "unchanged": True}


def _raised_while_filtering(exc):
    """did the exception leave `_filter_objects` from one of the filter calls (or from a statement of the manager method
    itself, e.g. a call with wrong keywords) rather than from the matcher that runs after filtering?"""
    names = []
    tb = exc.__traceback__
    while tb is not None:
        names.append(tb.tb_frame.f_code.co_name)
        tb = tb.tb_next
    if any(n in ("filter_objects", "filter_object_results") for n in names):
        return True
    return bool(names) and names[-1] == "_filter_objects"


def _run_manager(case):
    """the objects that reach matching inside PerceptionEvaluationManager._filter_objects (anchor `observe_at`).  The method
    is private: it is resolved with getattr and, when it is not there, the observation is dropped for the run (histogram
    key `unobservable:_filter_objects`) -- never a violation.  The per-case criteria are installed by ASSIGNING a new
    `filtering_params` / `target_labels` to the configuration and reading them back through the manager's public
    properties; when that does not take (e.g. a copying read-only property) the observation is dropped likewise."""
    from perception_eval.common.dataset import FrameGroundTruth

    m = _manager()
    fo = getattr(m, "_filter_objects", None)
    if fo is None:
        return _unobservable("_filter_objects")
    td_list = None
    if case["tf"] is not None:
        td = _setup(lambda: _mk_tf(case["tf"]), "TransformDict of the scene")
        td_list = _setup(lambda: [td[k] for k in td.keys()], "matrices of the TransformDict")
    kw = _mk_params(case["params"])
    ests = _setup(lambda: [_mk_obj(o) for o in case["estimates"]], "estimates of the scene")
    gts = _setup(lambda: [_mk_obj(o) for o in case["objects"]], "ground truths of the scene")
    all_specs = case["estimates"] + case["objects"]
    all_ids = [o["id"] for o in all_specs]
    frame = _setup(lambda: FrameGroundTruth(100, "0", gts, transforms=td_list), "FrameGroundTruth")
    cfg = m.evaluator_config
    saved = getattr(cfg, "filtering_params", None)
    if not isinstance(saved, dict) or not hasattr(cfg, "target_labels"):
        return _unobservable("filtering_params")
    saved_labels = cfg.target_labels
    out = {"flags": [[o["id"], bool(x.semantic_label.is_fp()), bool(x.semantic_label.is_unknown())]
                     for o, x in zip(all_specs, ests + gts)],
           "ego": {str(o["id"]): _ego(frame.transforms, x) for o, x in zip(all_specs, ests + gts)}}
    before = [_snap_obj(x) for x in ests + gts]
    frame_list = frame.objects  # the list the frame holds (the caller's, or the constructor's copy of it)
    frame_elems = list(frame_list)
    new = dict(saved)
    new.update(kw)
    new["max_matchable_radii"] = None
    try:
        try:
            cfg.filtering_params = new
            cfg.target_labels = kw["target_labels"]
        except AttributeError:
            return _unobservable("filtering_params", out["flags"], out["ego"])
        seen = m.filtering_params
        if not (isinstance(seen, dict) and all(seen.get(k) == new[k] for k in new) and list(m.target_labels) == kw["target_labels"]):
            return _unobservable("filtering_params", out["flags"], out["ego"])
        est_arg = list(ests)
        r = _call(lambda: fo(est_arg, frame))
    finally:
        try:
            cfg.filtering_params = saved
            cfg.target_labels = saved_labels
        except AttributeError:
            pass
    # "never mutates its input": the frame still holds the caller's list with the very same objects, the objects are unchanged
    out["unchanged"] = bool(frame.objects is frame_list and [_snap_obj(x) for x in ests + gts] == before
                            and len(frame_list) == len(frame_elems) and all(a is b for a, b in zip(frame_list, frame_elems))
                            and len(est_arg) == len(ests) and all(a is b for a, b in zip(est_arg, ests)))
    if "err" in r:
        M = _mods()
        a = _call(lambda: M["filter_objects"](list(ests), False, transforms=frame.transforms, **kw))
        b = _call(lambda: M["filter_objects"](list(gts), True, transforms=frame.transforms, **kw))
        if "ok" in a and "ok" in b and not _raised_while_filtering(r["exc"]):
            # raised by the matcher, after filtering: not this property's business (counted: compare returns "skip")
            return {"matching_err": r["err"], "flags": out["flags"], "ego": out["ego"], "unchanged": out["unchanged"]}
        out["err"] = r["err"]
        return out
    try:
        results, frame2 = r["ok"]
        kept_gts = list(frame2.objects)
        est_objs = [x.estimated_object for x in results]
        gt_objs = [x.ground_truth_object for x in results]
    except (TypeError, ValueError, AttributeError):
        return _unobservable("_filter_objects (return value)", out["flags"], out["ego"])
    gt_ids = [o["id"] for o in case["objects"]]
    est_ids = [o["id"] for o in case["estimates"]]
    out["gt_kept"] = _ids(kept_gts, gts, gt_ids)
    out["est_in_results"] = sorted(_ids(est_objs, ests, est_ids))
    out["result_gt"] = [None if g is None else _ids([g], gts, gt_ids)[0] for g in gt_objs]
    return out


# ----------------------------------------------------------------------------- model side

def _q_list(v):
    return None if v is None else [core.q(x) for x in v]


def _model_params(P, is_gt, has_tf):
    return {
        "is_gt": bool(is_gt), "targets": P.get("target_labels"), "ignore": P.get("ignore_attributes"),
        "max_x": _q_list(P.get("max_x_position_list")), "max_y": _q_list(P.get("max_y_position_list")),
        "max_dist": _q_list(P.get("max_distance_list")), "min_dist": _q_list(P.get("min_distance_list")),
        "conf": _q_list(P.get("confidence_threshold_list")), "min_pts": P.get("min_point_numbers"),
        "uuids": P.get("target_uuids"), "has_transforms": bool(has_tf),
    }


def _model_obj(o, ego):
    e = ego.get(str(o["id"])) if ego else None
    return {
        "id": o["id"], "label": o["label"], "name": o["name"], "attrs": o["attrs"], "score": core.q(o["score"]),
        "pc": o["pc"], "uuid": o["uuid"], "is2d": o["dim"] == "2d", "frame": o["frame"],
        "pos": None if o["pos"] is None else [core.q(o["pos"][0]), core.q(o["pos"][1])],
        "ego": None if e is None else [core.q(e[0]), core.q(e[1])],
    }


def model_requests(case, out):
    if "build_err" in out or "unobservable" in out or out.get("unexpected"):
        return []
    ego = out.get("ego", {})
    kind = case["kind"]
    if kind == "objects":
        return [{"op": "filter_objects", "eps": EPS_Q, "params": _model_params(case["params"], case["is_gt"], case["tf"] is not None),
                 "objects": [_model_obj(o, ego) for o in case["objects"]]}]
    if kind == "results":
        return [{"op": "filter_results", "eps": EPS_Q, "params": _model_params(case["params"], False, case["tf"] is not None),
                 "results": [{"id": r["id"], "est": _model_obj(r["est"], ego),
                              "gt": None if r["gt"] is None else _model_obj(r["gt"], ego)} for r in case["results"]]}]
    # manager: FrameGroundTruth always wraps its transforms in a TransformDict -> transforms is never None
    return [
        {"op": "filter_objects", "eps": EPS_Q, "params": _model_params(case["params"], False, True),
         "objects": [_model_obj(o, ego) for o in case["estimates"]]},
        {"op": "filter_objects", "eps": EPS_Q, "params": _model_params(case["params"], True, True),
         "objects": [_model_obj(o, ego) for o in case["objects"]]},
    ]


MODEL_BRANCHES = Counter()
_TABLE_NOTED = []
NEAR = Counter()


def _note_model_branches(resps):
    for r in resps:
        for _, tags in r.get("trace", []):
            for t in tags:
                MODEL_BRANCHES[t] += 1
        for t in r.get("result_trace", []):
            MODEL_BRANCHES[t] += 1
        if "err" in r:
            MODEL_BRANCHES["filter:raise " + r["err"]] += 1
        else:
            MODEL_BRANCHES["filter:returns"] += 1


def _table_note():
    """one histogram key about the decision table of this run"""
    try:
        from .. import dt_c10

        if "tree" not in dt_c10.LAST and "untranslatable" not in dt_c10.LAST:
            dt_c10.generate_lean()
        if "untranslatable" in dt_c10.LAST:
            return "table:untranslatable", {"untranslatable": dt_c10.LAST["untranslatable"]}
        info = dict(dt_c10.LAST.get("info", {}))
        d = dt_c10.table_disagreements()
        info["valuations_where_table_and_model_differ"] = [
            {"valuation": {a: (o if isinstance(o, str) else bool(o)) for a, o in asg.items()}, "code_table": cr, "model": mr}
            for asg, cr, mr in d[:5]]
        return ("table:differs-from-model" if d else "table:equals-model"), info
    except Exception as e:  # noqa: BLE001 - a note must never break the check
        return "table:untranslatable", {"untranslatable": f"{type(e).__name__}: {e}"}


def extra_evidence():
    key, info = _table_note()
    return {"decision_table_is_target_object": dict(info, status=key),
            "model_branches": dict(sorted(MODEL_BRANCHES.items())),
            "objects_excluded_near_float_boundary": NEAR["objects"],
            "objects_excluded_where_the_text_leaves_the_outcome_open": NEAR["text_open_objects"],
            "unobservable": dict(UNOBSERVABLE),
            "cases_with_an_excluded_object": NEAR["cases"]}


def _open_ids(case, exp):
    """ids (objects; results) on which the property text leaves the outcome open (`noclaim:*`, see _verdict)"""
    if isinstance(exp, OutOfContract):
        return set()
    rows = exp if not isinstance(exp, dict) else exp["est"] + exp["gt"]
    return {i for i, v, why in rows if v is None and _open(why)}


def compare(case, out, resps):
    """What the property observes: the kept ids in order, and raised-vs-returned.  Left out of both lists: an object whose
    np.mean / math.hypot comparison has a non-zero margin below 1e-7 (the model says which) and an object on which the
    property text leaves the outcome open (`noclaim:*`: the model follows today's code there, the property-conform outcome
    must be accepted too).  Counted skips: nothing left to compare; the matcher raised after filtering; a DIFFERENCE on an
    input outside the contract (malformed list lengths, objects without position / transform / point count: the text says
    nothing about them, neither that nor how they are refused)."""
    if "build_err" in out or "unobservable" in out:
        return None
    if "matching_err" in out:
        return "skip"
    _note_model_branches(resps)
    flags = sorted(map(tuple, out.get("flags", [])))
    mflags = sorted(tuple(f) for r in resps for f in r.get("flags", []))
    if flags != mflags:
        return f"is_fp/is_unknown flags differ: impl {flags} model {mflags}"
    near = {i for r in resps for i in r.get("near", [])}
    if near:
        NEAR["objects"] += len(near)
        NEAR["cases"] += 1
    exp = _expect(case)
    in_contract = not isinstance(exp, OutOfContract)
    opn = _open_ids(case, exp)
    if opn:
        NEAR["text_open_objects"] += len(opn)

    def differ(msg):
        return msg if in_contract else "skip"

    if case["kind"] == "manager":
        est, gt = resps
        # estimates are filtered first; an exception there pre-empts the ground-truth filter
        merr = est.get("err") or gt.get("err")
        if "err" in out or merr:
            if ("err" in out) == bool(merr) and (in_contract or out.get("err") == merr):
                return None
            # a near-boundary / text-open object may reach (or not reach) a raising stage on one side only
            return "skip" if (near or opn) else differ(f"impl err {out.get('err')} != model err {merr}")
        drop = near | opn
        a, b = [i for i in out["gt_kept"] if i not in drop], [i for i in gt["kept"] if i not in drop]
        if a != b:
            return differ(f"ground truths reaching matching: impl {a} model {b}")
        a, b = [i for i in out["est_in_results"] if i not in drop], sorted(i for i in est["kept"] if i not in drop)
        if not case["params"].get("target_uuids") and a != b:
            return differ(f"estimates reaching matching: impl {a} model {b}")
        return None
    r = resps[0]
    if "err" in out or "err" in r:
        # raised vs returned; the class is compared only to notice a difference outside the contract (then: counted skip)
        if ("err" in out) == ("err" in r) and (in_contract or out.get("err") == r.get("err")):
            return None
        return "skip" if (near or opn) else differ(f"impl {out.get('err') or out.get('kept')} != model {r.get('err') or r.get('kept')}")
    if case["kind"] == "results":
        near = {x["id"] for x in case["results"] if x["est"]["id"] in near or (x["gt"] is not None and x["gt"]["id"] in near)}
        n_all = len(case["results"])
    else:
        n_all = len(case["objects"])
    drop = near | opn
    if drop and len(drop) == n_all:
        return "skip"
    a, b = [i for i in out["kept"] if i not in drop], [i for i in r["kept"] if i not in drop]
    if a == b:
        return None
    return differ(f"kept ids: impl {a} != model {b}" + (f" (left out near a float boundary: {sorted(near)}; text-open: {sorted(opn)})" if drop else ""))


# ----------------------------------------------------------------------------- the oracle (exact, independent)

class OutOfContract(Exception):
    pass


def _rot(qs):
    w, x, y, z = [Fraction(v) for v in qs]
    n = w * w + x * x + y * y + z * z
    return [
        [(w * w + x * x - y * y - z * z) / n, 2 * (x * y - w * z) / n, 2 * (x * z + w * y) / n],
        [2 * (x * y + w * z) / n, (w * w - x * x + y * y - z * z) / n, 2 * (y * z - w * x) / n],
        [2 * (x * z - w * y) / n, 2 * (y * z + w * x) / n, (w * w - x * x - y * y + z * z) / n],
    ]


def _ego_exact(o, tf):
    """exact ego-relative (x, y), or None when it is unavailable; flag: were floats involved on the code's side"""
    if o["pos"] is None:
        if o["frame"] == "base_link" and tf is None:
            raise OutOfContract("no position")
        return None, False
    p = [Fraction(v) for v in o["pos"]]
    if o["frame"] == "base_link":
        return (p[0], p[1]), False
    if tf is None:
        return None, False
    for m in tf:
        if m["src"] == o["frame"] and m["dst"] == "base_link":
            R, t = _rot(m["q"]), [Fraction(v) for v in m["t"]]
            e = [sum(R[i][j] * p[j] for j in range(3)) + t[i] for i in range(3)]
            return (e[0], e[1]), True
    for m in tf:
        if m["src"] == "base_link" and m["dst"] == o["frame"]:
            R, t = _rot(m["q"]), [Fraction(v) for v in m["t"]]
            d = [p[j] - t[j] for j in range(3)]
            e = [sum(R[j][i] * d[j] for j in range(3)) for i in range(3)]
            return (e[0], e[1]), True
    raise OutOfContract("no transform registered")


NOCLAIM = "noclaim:"


def _verdict(o, P, is_gt, tf, est_of_result=False):
    """(keep?, reason) by the property's criteria: True / False / None.

    None = the oracle makes NO CLAIM about the object: a decision within float reach of a bound (`ambiguous`), a range
    criterion without an ego-relative position (`undetermined:*`), or -- reason `noclaim:*` -- an input on which the property
    TEXT and today's code part ways or the text is silent, so that both outcomes are accepted (and the object is left out of
    the model comparison as well, the Lean model follows the code):
      noclaim:gt-confidence           "whose confidence (estimates) or point count and uuid (ground truth) satisfy that label's
                                      thresholds": confidence is a criterion of ESTIMATES; the code also applies it to ground truths
      noclaim:est-ignored-attribute   "removes a result when either its estimate or its ground truth fails" + "carries no ignored
                                      attribute": the code does not test the attributes of a result's estimate
      noclaim:relaxed-confidence      "unknown-labelled estimates are judged against the mean bounds": the code uses 0, not the mean
      noclaim:relaxed-attribute       the relaxation speaks of bounds; the code also skips the attribute test
      noclaim:empty-target-list       `target_labels == []`: the text does not say whether that targets everything or nothing
      noclaim:attr-name-substring     "carries no ignored attribute": a key that is only a substring of the label NAME
      noclaim:no-gt-with-target-uuids (results) "uuid (ground truth)": a result without ground truth has no uuid to fail
    """
    L = o["label"]
    if L in FP_LABELS:
        return True, "fp-passes"  # "false-positive-labelled objects always pass"
    targets = P.get("target_labels")
    relaxed = L in UNKNOWN_LABELS and not is_gt and not (targets is not None and any(t in UNKNOWN_LABELS for t in targets))
    pos, inexact = _ego_exact(o, tf)
    tag = "relaxed:" if relaxed else ""
    opens = []

    def bound(lst):
        if relaxed:
            if len(lst) == 0:
                return None  # nan: nothing is inside
            return sum(Fraction(v) for v in lst) / len(lst)
        if targets is None or L not in targets:
            raise OutOfContract("no bound for the label")
        i = targets.index(L)
        if i >= len(lst):
            raise OutOfContract("list shorter than the label index")
        return Fraction(lst[i])

    amb = [False]

    def less(a, b, fuzzy, sq=False):
        """a < b exactly; None when IEEE rounding on the code's side could flip the decision"""
        if sq:  # a, b are squares of non-negative reals: judge the distance of the roots
            gap = abs(math.sqrt(float(a)) - math.sqrt(float(b)))
        else:
            gap = abs(float(a - b))
        if (a != b and gap < EPS) or (a == b and fuzzy):
            return None
        return a < b

    def judge(r, reason):
        """definite failure -> the verdict; ambiguous -> remember, go on (a later criterion may fail definitely)"""
        if r is None:
            amb[0] = True
            return None
        return None if r else (False, tag + reason)

    if not relaxed:
        if targets is not None and len(targets) == 0:
            opens.append("empty-target-list")
        elif targets and L not in targets:
            return False, "rej:label"
    ia = P.get("ignore_attributes")
    if ia is not None:
        member = any(k in o["attrs"] for k in ia)
        in_name = any(k in o["name"] for k in ia)
        if member or in_name:
            if relaxed:
                opens.append("relaxed-attribute")
            elif est_of_result:
                opens.append("est-ignored-attribute")
            elif member:
                return False, "rej:attr"
            else:
                opens.append("attr-name-substring")
    conf = P.get("confidence_threshold_list")
    if conf is not None:
        sc = Fraction(o["score"])
        if relaxed:
            mean = bound(conf)
            pass0, passm = sc > 0, (mean is not None and sc > mean)
            if not pass0 and not passm:
                return False, tag + "rej:conf"
            if pass0 != passm:
                opens.append("relaxed-confidence")
        elif not (sc > bound(conf)):
            if is_gt:
                opens.append("gt-confidence")
            else:
                return False, "rej:conf"
    if pos is not None:
        x, y = pos
        d2 = x * x + y * y
        for key, val, nm in (("max_x_position_list", abs(x), "x"), ("max_y_position_list", abs(y), "y")):
            lst = P.get(key)
            if lst is not None:
                t = bound(lst)
                v = judge(False if t is None else less(val, t, inexact or relaxed), "rej:" + nm)
                if v:
                    return v
        lst = P.get("max_distance_list")
        if lst is not None:
            t = bound(lst)
            v = judge(False if (t is None or t <= 0) else less(d2, t * t, inexact or relaxed, sq=True), "rej:max_dist")
            if v:
                return v
        lst = P.get("min_distance_list")
        if lst is not None:
            t = bound(lst)
            v = judge(False if t is None else True if t < 0 else less(t * t, d2, inexact or relaxed, sq=True), "rej:min_dist")
            if v:
                return v
        lst = P.get("min_point_numbers")
        if lst is not None and is_gt:
            if o["dim"] == "2d" or o["pc"] is None:
                raise OutOfContract("no point count")
            if not (o["pc"] >= bound(lst)):
                return False, "rej:points"
    nopos = False
    if pos is None and (any(P.get(k) is not None for k in LABEL_PARAMS[:4]) or (is_gt and P.get("min_point_numbers") is not None)):
        # no ego-relative position (no transform / no position): the property's range and point criteria are
        # undefined for this object, so the oracle makes no claim unless another criterion fails (the code keeps it)
        nopos = True
    uu = P.get("target_uuids")
    if uu is not None and is_gt and o["uuid"] not in uu:
        return False, "rej:uuid"
    if opens:
        return None, tag + NOCLAIM + opens[0]
    if nopos:
        return None, tag + "undetermined:range-configured-but-no-position"
    if amb[0]:
        return None, "ambiguous"
    return True, tag + ("kept" if pos is not None else "kept:no-position")


def _est_params(P):
    """the estimate of a result: confidence, label, range AND attributes ("removes a result when either its estimate or its
    ground truth fails"); point count and uuid are ground-truth criteria"""
    Q = dict(P)
    Q["min_point_numbers"] = None
    Q["target_uuids"] = None
    return Q


def _gt_params(P):
    Q = dict(P)
    Q["confidence_threshold_list"] = None
    return Q


def _open(why):
    return NOCLAIM in why


def _case_contract(P):
    """docstring of filter_objects / filter_object_results: "If any of `target_labels`, `max_x_position_list`, ...,
    `min_point_numbers` or `confidence_threshold_list` are specified, each of them must be same length list."  A call that
    breaks this is outside the contract whatever the objects are (an implementation may validate it up front)"""
    t = P.get("target_labels")
    for k in LABEL_PARAMS:
        v = P.get(k)
        if v is not None and (t is None or len(v) != len(t)):
            raise OutOfContract("a per-label list whose length differs from target_labels")


_MEMO = {}


def _expect(case, which="params"):
    """per item: (id, verdict, reasons); or OutOfContract"""
    key = (id(case), which)
    if key in _MEMO and _MEMO[key][0] is case:
        return _MEMO[key][1]
    P = case[which]
    tf = case["tf"]
    try:
        _case_contract(P)
        if case["kind"] == "objects":
            res = [(o["id"],) + _verdict(o, P, case["is_gt"], tf) for o in case["objects"]]
        elif case["kind"] == "results":
            res = []
            for r in case["results"]:
                ve, re_ = _verdict(r["est"], _est_params(P), False, tf, est_of_result=True)
                if r["gt"] is not None:
                    vg, rg = _verdict(r["gt"], _gt_params(P), True, tf)
                    if ve is False or vg is False:
                        v = False
                    elif ve is None or vg is None:
                        v = None
                    else:
                        v = True
                    res.append((r["id"], v, "est:" + re_ + "|gt:" + rg))
                else:
                    v = ve
                    why = "est:" + re_ + "|gt:none"
                    if P.get("target_uuids") and v is not False:
                        v, why = None, why + "|" + NOCLAIM + "no-gt-with-target-uuids"
                    res.append((r["id"], v, why))
        else:
            tfm = case["tf"] if case["tf"] is not None else []
            res = {"est": [(o["id"],) + _verdict(o, P, False, tfm) for o in case["estimates"]],
                   "gt": [(o["id"],) + _verdict(o, P, True, tfm) for o in case["objects"]]}
    except OutOfContract as e:
        res = e
    if len(_MEMO) > 64:
        _MEMO.clear()
    _MEMO[key] = (case, res)
    return res


def _is_sublist(a, b):
    it = iter(b)
    return all(any(x == y for y in it) for x in a)


def _check_kept(kept, exp, what):
    ids = [e[0] for e in exp]
    if not _is_sublist(kept, ids):
        return f"{what}: kept {kept} is not an order-preserving sub-list of the input {ids}"
    ks = set(kept)
    for i, v, why in exp:
        if v is True and i not in ks:
            return f"{what}: object {i} satisfies every criterion ({why}) but was removed; kept {kept}"
        if v is False and i in ks:
            return f"{what}: object {i} was kept although it fails a criterion ({why}); kept {kept}"
    return None


def oracle(case, out):
    if out.get("unexpected"):  # run_check reports these itself; kept total for older runners
        return f"the real code raised {out.get('err')} unexpectedly"
    if "build_err" in out or "matching_err" in out or "unobservable" in out:
        return None
    # "never mutates its input"
    if not out.get("unchanged", True):
        return "the filter mutated its input (list, an object, or a parameter list)"
    exp = _expect(case)
    in_contract = not isinstance(exp, OutOfContract)
    if case["kind"] == "manager":
        if "err" in out:
            return f"_filter_objects raised {out['err']} on an in-contract scene" if in_contract else None
        if not in_contract:
            return None
        f = _check_kept(out["gt_kept"], exp["gt"], "ground truths reaching matching")
        if f:
            return f
        ids = out["est_in_results"]
        if len(set(ids)) != len(ids):
            return f"an estimate appears in two results: {ids}"
        est = sorted(exp["est"])
        if case["params"].get("target_uuids"):
            # results are filtered once more by the ground truths' uuids: which estimates survive depends on the matching;
            # whether a ground-truth-less result survives is `noclaim:no-gt-with-target-uuids`
            bad = [i for i, v, _ in est if v is False and i in set(ids)]
            return f"estimates {bad} fail a criterion but reached the results" if bad else None
        return _check_kept(ids, est, "estimates reaching matching")
    if "err" in out:
        return f"the filter raised {out['err']} on an in-contract input" if in_contract else None
    kept = out["kept"]
    all_ids = [o["id"] for o in case["objects"]] if case["kind"] == "objects" else [r["id"] for r in case["results"]]
    # "returns an order-preserving sub-list"
    if not _is_sublist(kept, all_ids):
        return f"kept {kept} is not an order-preserving sub-list of the input {all_ids}"
    # "Filtering is idempotent"
    if out.get("twice") != kept:
        return f"not idempotent: filtering the result {kept} again gives {out.get('twice')}"
    if in_contract:
        f = _check_kept(kept, exp, "kept set")
        if f:
            return f
        # "containing exactly the objects whose ...": an object's fate is its own (position in the list is no criterion)
        if out.get("rev") is not None and out["rev"] != list(reversed(kept)):
            return f"the reversed input keeps {out['rev']}, not the reverse of {kept}"
    # "widening any bound never removes an object that was kept"
    if "wider" in out and case.get("wider") is not None:
        w = out["wider"]
        expw = _expect(case, "wider")
        both = in_contract and not isinstance(expw, OutOfContract)
        if isinstance(w, dict):
            return f"under widened bounds the filter raised {w['err']} on an in-contract input" if both else None
        if both:
            amb = {e[0] for e in exp if e[1] is None} | {e[0] for e in expw if e[1] is None}
        elif case["tf"] is not None:
            return None  # outside the contract AND float-transformed positions: no float guard available
        else:
            amb = set()
        a = [i for i in kept if i not in amb]
        b = [i for i in w if i not in amb]
        if not _is_sublist(a, b):
            return f"widening the bounds removed kept objects {[i for i in a if i not in set(b)]}: narrow {kept}, wide {w}"
    return None


# ----------------------------------------------------------------------------- histogram

def branches(case, out):
    br = []
    if case.get("mode") == "table-witness":
        br.append("table:witness-case")
    if not _TABLE_NOTED:
        _TABLE_NOTED.append(1)
        br.append(_table_note()[0])
    kind = case["kind"]
    P = case["params"]
    objs = case["objects"] + case.get("estimates", []) if kind != "results" else \
        [x for r in case["results"] for x in ([r["est"]] + ([r["gt"]] if r["gt"] else []))]
    if not objs:
        return ["trivial", "empty-input"]
    br.append("kind:" + kind)
    br.append("tf:" + ("none" if case["tf"] is None else "empty" if not case["tf"] else "+".join(sorted({m["src"] + ">" + m["dst"] for m in case["tf"]}))))
    frames = sorted({o["frame"] + ("" if o["pos"] is not None else ":nopos") for o in objs})
    br.append("frames:" + "+".join(frames))
    br.append("dim:" + "+".join(sorted({o["dim"] for o in objs})))
    if kind == "objects":
        br.append("role:" + ("gt" if case["is_gt"] else "est"))
    t = P.get("target_labels")
    br.append("targets:" + ("None" if t is None else "[]" if not t else ("with-unknown" if any(x in UNKNOWN_LABELS for x in t) else "without-unknown")))
    if t and len(set(t)) != len(t):
        br.append("targets:duplicate-entry")
    for k in LABEL_PARAMS + ["ignore_attributes", "target_uuids"]:
        v = P.get(k)
        if v is not None:
            tag = "param:" + k
            if k in LABEL_PARAMS and t is not None and len(v) != len(t):
                tag += ":wrong-length"
            if v == []:
                tag += ":empty"
            br.append(tag)
    if all(P.get(k) is None for k in ALL_PARAMS):
        br.append("trivial")
        br.append("no-criteria")
    if out.get("unexpected"):
        return br + ["unexpected:" + str(out.get("err")), "trivial"]
    if "unobservable" in out:
        return br + ["unobservable:" + str(out["unobservable"]), "trivial"]
    if "build_err" in out or "matching_err" in out:
        return br + ["not-filtered:" + str(out.get("build_err") or out.get("matching_err")), "trivial"]
    if "err" in out:
        br.append("err:" + out["err"])
    else:
        n_in = len(case["results"]) if kind == "results" else len(case["objects"])
        n_out = len(out.get("kept", out.get("gt_kept", [])))
        br.append("kept:" + ("all" if n_out == n_in else "none" if n_out == 0 else "some"))
    exp = _expect(case)
    if isinstance(exp, OutOfContract):
        br.append("contract:outside(" + str(exp) + ")")
    else:
        br.append("contract:inside")
        rows = exp if not isinstance(exp, dict) else exp["est"] + exp["gt"]
        for _, v, why in rows:
            for part in why.split("|"):
                br.append("obj:" + part)
    if case.get("wider") is not None and isinstance(out.get("wider"), list) and "kept" in out:
        br.append("wider:" + ("same" if out["wider"] == out["kept"] else "strictly-more"))
    return br


# ----------------------------------------------------------------------------- generation

def _g8(rng, lo, hi):
    return core.dyadic(rng, lo, hi, 8)


def _pose(rng, full3d=False):
    """a rational unit-free quaternion (w, x, y, z) and a dyadic translation"""
    u = Fraction(rng.randint(-16, 16), 8)
    if full3d:
        q = [Fraction(1), Fraction(rng.randint(-2, 2), 16), Fraction(rng.randint(-2, 2), 16), u]
    else:
        q = [Fraction(1), Fraction(0), Fraction(0), u]
    if rng.random() < 0.2:
        q = [-v for v in q]
    t = [Fraction(rng.randint(-32768, 32768), 8), Fraction(rng.randint(-32768, 32768), 8), Fraction(rng.randint(-64, 64), 8)]
    return [core.q(v) for v in q], [core.q(v) for v in t]


def _to_frame(q, t, p):
    """exact image of an ego-relative point under base_link->frame, rounded to floats"""
    R = _rot(q)
    tt = [Fraction(v) for v in t]
    pp = [Fraction(v) for v in p]
    return [float(sum(R[i][j] * pp[j] for j in range(3)) + tt[i]) for i in range(3)]


def _from_frame(q, t, p):
    R = _rot(q)
    tt = [Fraction(v) for v in t]
    d = [Fraction(v) - tt[j] for j, v in enumerate(p)]
    return [float(sum(R[j][i] * d[j] for j in range(3))) for i in range(3)]


def _gen_obj(rng, oid, dim, frame, pose_of, labels_pool, P, special):
    fam = "AutowareLabel" if dim == "3d" else "TrafficLightLabel"
    if rng.random() < 0.06:
        fam = "TrafficLightLabel" if fam == "AutowareLabel" else "AutowareLabel"
    pool = A_LABELS if fam == "AutowareLabel" else T_LABELS
    r = rng.random()
    if r < 0.18:
        member = "UNKNOWN"
    elif r < 0.26:
        member = "FP"
    elif r < 0.8 and labels_pool:
        member = rng.choice(labels_pool)
        if member not in pool:
            member = rng.choice(pool)
    else:
        member = rng.choice(pool)
    name = rng.choice(NAMES[member])
    if rng.random() < 0.1:
        name = name.upper()
    attrs = rng.sample(ATTRS, rng.choice([0, 0, 0, 1, 1, 2]))
    score = rng.randint(0, 16) / 16
    # ego-relative position on the 1/8 grid, often right at / next to a configured bound
    def near(key, scale=1.0):
        lst = P.get(key)
        if lst and rng.random() < 0.5:
            b = abs(rng.choice(lst)) * scale
            return rng.choice([b, b, b - 0.125, b + 0.125, -b, -b + 0.125, -b - 0.125])
        return _g8(rng, -40, 40)
    x, y = near("max_x_position_list"), near("max_y_position_list")
    if special == "dist" or (rng.random() < 0.35 and (P.get("max_distance_list") or P.get("min_distance_list"))):
        lst = (P.get("max_distance_list") or []) + (P.get("min_distance_list") or [])
        b = abs(rng.choice(lst)) if lst else 5.0
        k = round(b / 5.0 * 8) / 8  # dyadic, so (3k, 4k) is at distance exactly 5k (= b when b is a multiple of 5/8)
        cand = [(3 * k, 4 * k), (-4 * k, 3 * k), (b, 0.0), (0.0, -b), (3 * k, 4 * k + 0.125), (3 * k - 0.125, 4 * k), (0.0, 0.0)]
        x, y = rng.choice(cand)
    z = _g8(rng, -2, 2)
    pos = [x, y, z]
    if dim == "2d" and rng.random() < (0.85 if special != "2dpos" else 0.1):
        pos = None
    if pos is not None and frame != "base_link" and frame in pose_of:
        q, t, direction = pose_of[frame]
        pos = _to_frame(q, t, pos) if direction == "fwd" else _from_frame(q, t, pos)
    elif pos is not None and frame != "base_link":
        pos = [pos[0] + 1000.0, pos[1] - 500.0, pos[2]]
    pc = rng.randint(0, 12)
    if dim == "3d" and rng.random() < 0.03:
        pc = None
    if dim == "2d":
        pc = None
    uuid = rng.choice(["u0", "u1", "u2", "u3", "u4", "u5"]) if rng.random() < 0.93 else None
    return {"id": oid, "dim": dim, "frame": frame, "label": fam + "." + member, "name": name, "attrs": attrs,
            "score": score, "pc": pc, "uuid": uuid, "pos": pos}


def _gen_params(rng, dim, n_extra_bad=True):
    fam = "AutowareLabel" if dim == "3d" else "TrafficLightLabel"
    pool = [m for m in (A_LABELS if dim == "3d" else T_LABELS)]
    r = rng.random()
    if r < 0.04:
        targets = None
    elif r < 0.07:
        targets = []
    else:
        k = rng.randint(1, 5)
        base = [m for m in pool if m not in ("UNKNOWN", "FP")]
        members = rng.sample(base, min(k, len(base)))
        if rng.random() < 0.3:
            members.insert(rng.randint(0, len(members)), "UNKNOWN")
        if rng.random() < 0.06:
            members.insert(rng.randint(0, len(members)), "FP")
        if rng.random() < 0.08 and members:
            members.append(members[0])  # duplicate entry: index() takes the first
        targets = [fam + "." + m for m in members]
        if rng.random() < 0.04:
            other = "TrafficLightLabel" if fam == "AutowareLabel" else "AutowareLabel"
            targets.append(other + ".UNKNOWN")
    n = len(targets) if targets else rng.choice([0, 1, 3])
    members = [t.split(".")[1] for t in targets] if targets else []

    def lst(draw):
        m = n
        if n_extra_bad and rng.random() < 0.03:
            m = max(0, n + rng.choice([-1, -1, 1]))
        return [draw() for _ in range(m)]

    P = {k: None for k in ALL_PARAMS}
    P["target_labels"] = targets
    kind = rng.choice(["xy", "xy", "dist", "dist", "x", "y", "maxd", "mind", "all", "none"])
    if dim == "2d" and rng.random() < 0.5:
        kind = "none"
    pos_b = lambda: rng.choice([_g8(rng, 0, 40), _g8(rng, 1, 12), 5.0 * rng.randint(1, 8)]) if rng.random() > 0.03 else rng.choice([0.0, -1.0, -0.125])
    if kind in ("xy", "x", "all"):
        P["max_x_position_list"] = lst(pos_b)
    if kind in ("xy", "y", "all"):
        P["max_y_position_list"] = lst(pos_b)
    if kind in ("dist", "maxd", "all"):
        P["max_distance_list"] = lst(lambda: rng.choice([float(5 * rng.randint(1, 8)), _g8(rng, 0, 50)]) if rng.random() > 0.03 else rng.choice([0.0, -2.0]))
    if kind in ("dist", "mind", "all"):
        P["min_distance_list"] = lst(lambda: rng.choice([float(5 * rng.randint(0, 3)), _g8(rng, 0, 10), 0.0]) if rng.random() > 0.05 else -1.0)
    if rng.random() < 0.45:
        P["confidence_threshold_list"] = lst(lambda: rng.randint(0, 14) / 16)
    if dim == "3d" and rng.random() < 0.5:
        P["min_point_numbers"] = lst(lambda: rng.randint(0, 8))
    elif dim == "2d" and rng.random() < 0.04:
        P["min_point_numbers"] = lst(lambda: rng.randint(0, 8))
    r = rng.random()
    if r < 0.25:
        P["ignore_attributes"] = rng.sample(IGNORE_KEYS[:-1], rng.randint(1, 2))
    elif r < 0.30:
        P["ignore_attributes"] = []
    elif r < 0.32:
        P["ignore_attributes"] = [""]
    r = rng.random()
    if r < 0.2:
        P["target_uuids"] = rng.sample(["u0", "u1", "u2", "u3", "u4", "u5", "zz"], rng.randint(1, 4))
    elif r < 0.24:
        P["target_uuids"] = []
    return P, members


def _widen(rng, P):
    W = copy.deepcopy(P)
    for k, sign in (("max_x_position_list", 1), ("max_y_position_list", 1), ("max_distance_list", 1),
                    ("min_distance_list", -1), ("confidence_threshold_list", -1), ("min_point_numbers", -1)):
        v = W.get(k)
        if v is None:
            continue
        if rng.random() < 0.1:
            W[k] = None
            continue
        if k == "min_point_numbers":
            W[k] = [x - rng.choice([0, 0, 1, 3]) for x in v]
        elif k == "confidence_threshold_list":
            W[k] = [x - rng.choice([0, 0, 1, 4]) / 16 for x in v]
        else:
            W[k] = [x + sign * rng.choice([0.0, 0.0, 0.125, 1.0, 7.5]) for x in v]
    return W


def _scene(rng, dim):
    """frames of the objects, the TransformDict spec, and how ego-relative points are carried to each frame"""
    pose_of = {}
    if dim == "3d":
        mode = rng.choice(["base", "base", "base", "base+tf", "map+tf", "map+tf", "map+tf", "map+tf3d", "map-no-tf",
                           "map+tf-missing", "mixed", "map+tf-inverse"])
        q, t = _pose(rng, full3d=(mode == "map+tf3d"))
        ego2map = {"src": "base_link", "dst": "map", "q": q, "t": t}
        if mode == "base":
            return mode, ["base_link"], None, pose_of
        if mode == "base+tf":
            return mode, ["base_link"], rng.choice([[ego2map], []]), pose_of
        if mode in ("map+tf", "map+tf3d"):
            pose_of["map"] = (q, t, "fwd")
            return mode, ["map"], [ego2map], pose_of
        if mode == "map+tf-inverse":  # registered the other way round: map -> base_link
            pose_of["map"] = (q, t, "inv")
            return mode, ["map"], [{"src": "map", "dst": "base_link", "q": q, "t": t}], pose_of
        if mode == "map-no-tf":
            return mode, ["map"], None, pose_of
        if mode == "map+tf-missing":
            return mode, ["map", "base_link"], rng.choice([[], [{"src": "cam_front", "dst": "base_link", "q": q, "t": t}]]), pose_of
        pose_of["map"] = (q, t, "fwd")
        return mode, ["base_link", "map"], [ego2map], pose_of
    mode = rng.choice(["cam", "cam", "cam", "cam", "cam+tf", "cam+tf", "cam+tf", "base2d", "base2d", "cam+tf-missing",
                       "base2d-nopos"])
    q, t = _pose(rng, full3d=True)
    t = [core.q(Fraction(v) / 512) for v in t]
    if mode == "cam":
        return mode, ["cam_front"], rng.choice([None, None, []]), pose_of
    if mode == "cam+tf":
        pose_of["cam_front"] = (q, t, "inv")
        return mode, ["cam_front"], [{"src": "cam_front", "dst": "base_link", "q": q, "t": t}], pose_of
    if mode == "base2d":
        return mode, ["base_link"], rng.choice([None, []]), pose_of
    if mode == "cam+tf-missing":
        return mode, ["cam_front"], [], pose_of
    return mode, ["base_link", "cam_front"], None, pose_of


def _gen_case(rng, kind):
    dim = "3d" if (kind == "manager" or rng.random() < 0.72) else "2d"
    mode, frames, tf, pose_of = _scene(rng, dim)
    while kind == "results" and mode in ("map-no-tf", "map+tf-missing"):  # the result objects cannot even be built
        mode, frames, tf, pose_of = _scene(rng, dim)
    if kind == "manager" and mode in ("map-no-tf",):
        tf = []
    P, members = _gen_params(rng, dim, n_extra_bad=(kind != "manager"))
    while kind == "manager" and not P["target_labels"]:
        P, members = _gen_params(rng, dim, n_extra_bad=False)
    special = "2dpos" if mode in ("cam+tf", "base2d", "cam+tf-missing") else ("dist" if rng.random() < 0.1 else None)
    if mode == "base2d-nopos":
        special = None
    n = rng.choice([0, 1, 2, 3, 4, 5, 6, 8, 12]) if rng.random() < 0.9 else rng.randint(13, 30)
    oid = [0]

    def obj():
        oid[0] += 1
        return _gen_obj(rng, oid[0], dim, rng.choice(frames), pose_of, members, P, special)

    case = {"kind": kind, "dim": dim, "mode": mode, "tf": tf, "params": P}
    if kind == "objects":
        case["is_gt"] = rng.random() < 0.5
        case["objects"] = [obj() for _ in range(n)]
        if dim == "3d" and case["objects"] and rng.random() < 0.01:
            rng.choice(case["objects"])["pos"] = None  # a 3-D object without a position (outside the contract)
    elif kind == "results":
        n = min(n, 8)
        rs = []
        for _ in range(n):
            e = obj()
            g = obj() if rng.random() < 0.7 else None
            if g is not None and g["pos"] is None and e["pos"] is not None:
                g["pos"] = list(e["pos"])
            oid[0] += 1
            rs.append({"id": oid[0], "est": e, "gt": g})
        case["results"] = rs
    else:
        n = min(n, 8)
        case["estimates"] = [obj() for _ in range(n)]
        case["objects"] = [obj() for _ in range(rng.randint(0, 8))]
        for o in case["estimates"] + case["objects"]:
            if o["pc"] is None and rng.random() < 0.8:
                o["pc"] = 3
    if kind != "manager" and rng.random() < 0.6:
        case["wider"] = _widen(rng, P)
    else:
        case["wider"] = None
    return case


def table_witnesses():
    """cases realising the valuations on which the regenerated decision table of `_is_target_object` and the model
    skeleton differ (empty on an unchanged tree): they go FIRST, so a broken table theorem leads straight to its input"""
    try:
        from .. import dt_c10

        cases = dt_c10.witness_cases()
    except Exception:  # noqa: BLE001
        return []
    for c in cases:  # point counts are integers in the model protocol
        for which in ("params", "wider"):
            v = (c.get(which) or {}).get("min_point_numbers")
            if v is not None:
                c[which]["min_point_numbers"] = [int(x) for x in v]
    return cases


def generate(rng, tier):
    n_obj, n_res, n_mgr = (2600, 450, 150) if tier == "quick" else (22000, 3500, 1200)
    cases = table_witnesses()
    cases += [_gen_case(rng, "objects") for _ in range(n_obj)]
    cases += [_gen_case(rng, "results") for _ in range(n_res)]
    cases += [_gen_case(rng, "manager") for _ in range(n_mgr)]
    return cases


# ----------------------------------------------------------------------------- corpus

def _o(i, label, x, y, **kw):
    d = {"id": i, "dim": "3d", "frame": "base_link", "label": "AutowareLabel." + label, "name": label.lower(), "attrs": [],
         "score": 0.5, "pc": 5, "uuid": "u0", "pos": [x, y, 0.0]}
    d.update(kw)
    return d


def _p(**kw):
    P = {k: None for k in ALL_PARAMS}
    P.update(kw)
    return P


def corpus():
    T = ["AutowareLabel.CAR", "AutowareLabel.BICYCLE"]
    cs = []

    def objs(is_gt, P, objects, tf=None, wider=None, dim="3d"):
        cs.append({"kind": "objects", "dim": dim, "mode": "corpus", "tf": tf, "params": P, "is_gt": is_gt,
                   "objects": objects, "wider": wider})

    # strict inequalities at the exact bound, both signs (abs), x and y
    objs(True, _p(target_labels=T, max_x_position_list=[10.0, 20.0], max_y_position_list=[5.0, 5.0]),
         [_o(1, "CAR", 10.0, 0.0), _o(2, "CAR", -10.0, 0.0), _o(3, "CAR", 9.875, 4.875), _o(4, "CAR", -9.875, -4.875),
          _o(5, "BICYCLE", -19.875, 5.0), _o(6, "BICYCLE", 15.0, -4.0), _o(7, "BUS", 0.0, 0.0)],
         wider=_p(target_labels=T, max_x_position_list=[10.125, 20.0], max_y_position_list=[5.0, 5.125]))
    # distances: 3-4-5 exactly on the max and the min bound, negative and zero bounds
    objs(False, _p(target_labels=T, max_distance_list=[5.0, 5.0], min_distance_list=[0.0, 5.0]),
         [_o(1, "CAR", 3.0, 4.0), _o(2, "CAR", 3.0, 3.875), _o(3, "CAR", 0.0, 0.0), _o(4, "BICYCLE", 3.0, 4.0),
          _o(5, "BICYCLE", -3.0, -4.125), _o(6, "BICYCLE", 0.375, 0.5)],
         wider=_p(target_labels=T, max_distance_list=[5.125, 6.0], min_distance_list=[-1.0, 4.875]))
    objs(False, _p(target_labels=T, max_distance_list=[0.0, -1.0]), [_o(1, "CAR", 0.0, 0.0), _o(2, "BICYCLE", 0.0, 0.0)])
    objs(False, _p(target_labels=T, min_distance_list=[-1.0, 0.0]), [_o(1, "CAR", 0.0, 0.0), _o(2, "BICYCLE", 0.0, 0.0)])
    # FP label passes everything; unknown estimate judged by the mean (15), confidence bound 0
    objs(False, _p(target_labels=T, max_x_position_list=[10.0, 20.0], confidence_threshold_list=[0.75, 0.75],
                   ignore_attributes=["unknown"]),
         [_o(1, "FP", 500.0, 500.0, score=0.0), _o(2, "UNKNOWN", 14.875, 0.0, score=0.0625), _o(3, "UNKNOWN", 15.0, 0.0),
          _o(4, "UNKNOWN", 1.0, 0.0, score=0.0), _o(5, "CAR", 1.0, 0.0, score=0.75), _o(6, "CAR", 1.0, 0.0, score=0.8125)])
    # the same unknown objects as ground truth, and as estimates with unknown among the targets: no relaxation
    objs(True, _p(target_labels=T, max_x_position_list=[10.0, 20.0]), [_o(2, "UNKNOWN", 14.875, 0.0), _o(1, "FP", 500.0, 0.0)])
    objs(False, _p(target_labels=T + ["AutowareLabel.UNKNOWN"], max_x_position_list=[10.0, 20.0, 3.0]),
         [_o(2, "UNKNOWN", 14.875, 0.0), _o(3, "UNKNOWN", 2.875, 0.0)])
    # unknown estimate with an empty list: np.mean([]) is nan, nothing passes; target_labels None
    objs(False, _p(max_x_position_list=[]), [_o(1, "UNKNOWN", 0.0, 0.0)])
    objs(False, _p(max_x_position_list=[4.0, 8.0]), [_o(1, "UNKNOWN", 5.875, 0.0), _o(2, "UNKNOWN", 6.0, 0.0)])
    # outside the contract: target_labels None / [] with a per-label list -> TypeError; short list -> IndexError
    objs(False, _p(confidence_threshold_list=[0.5]), [_o(1, "CAR", 0.0, 0.0)])
    objs(True, _p(target_labels=[], max_x_position_list=[1.0]), [_o(1, "CAR", 0.0, 0.0)])
    objs(True, _p(target_labels=T, min_point_numbers=[1]), [_o(1, "CAR", 0.0, 0.0), _o(2, "BICYCLE", 0.0, 0.0)])
    objs(True, _p(target_labels=T, min_point_numbers=[1, 1]), [_o(1, "CAR", 0.0, 0.0, pc=None)])
    # point numbers (>=) and uuids, ground truth only
    objs(True, _p(target_labels=T, min_point_numbers=[5, 0], target_uuids=["u0", "u1"]),
         [_o(1, "CAR", 0.0, 0.0, pc=5), _o(2, "CAR", 0.0, 0.0, pc=4), _o(3, "BICYCLE", 0.0, 0.0, pc=0, uuid="u1"),
          _o(4, "BICYCLE", 0.0, 0.0, uuid="u2"), _o(5, "CAR", 0.0, 0.0, uuid=None)],
         wider=_p(target_labels=T, min_point_numbers=[4, 0], target_uuids=["u0", "u1"]))
    objs(False, _p(target_labels=T, min_point_numbers=[5, 0], target_uuids=["zz"]), [_o(1, "CAR", 0.0, 0.0, pc=0)])
    objs(True, _p(target_labels=T, target_uuids=[]), [_o(1, "CAR", 0.0, 0.0)])
    # ignore attributes: substring of the name, member of the attributes, empty key, duplicate target entry
    objs(True, _p(target_labels=T + ["AutowareLabel.CAR"], ignore_attributes=["parked", "police"], max_x_position_list=[5.0, 5.0, 50.0]),
         [_o(1, "CAR", 6.0, 0.0), _o(2, "CAR", 1.0, 0.0, name="vehicle.police"), _o(3, "CAR", 1.0, 0.0, attrs=["parked"]),
          _o(4, "CAR", 1.0, 0.0, attrs=["vehicle.parked"]), _o(5, "CAR", 1.0, 0.0, name="VEHICLE.POLICE")])
    objs(True, _p(target_labels=T, ignore_attributes=[""]), [_o(1, "CAR", 0.0, 0.0)])
    # map frame: pose yaw 2*atan(1/2) (c, s) = (3/5, 4/5), translation (1000, 2000, 0)
    tf = [{"src": "base_link", "dst": "map", "q": ["1", "0", "0", "1/2"], "t": ["1000", "2000", "0"]}]

    def m(i, label, x, y, **kw):
        o = _o(i, label, x, y, frame="map", **kw)
        o["pos"] = _to_frame(tf[0]["q"], tf[0]["t"], [x, y, 0.0])
        return o
    objs(True, _p(target_labels=T, max_x_position_list=[10.0, 20.0], max_y_position_list=[10.0, 20.0]),
         [m(1, "CAR", 9.0, -9.0), m(2, "CAR", 11.0, 0.0), m(3, "BICYCLE", -19.0, 19.0), m(4, "BICYCLE", 0.0, 21.0)], tf=tf)
    objs(True, _p(target_labels=T, max_distance_list=[10.0, 20.0], min_distance_list=[2.0, 2.0]),
         [m(1, "CAR", 6.0, 7.0), m(2, "CAR", 8.0, 7.0), m(3, "BICYCLE", 1.0, 1.0), _o(4, "BICYCLE", 3.0, 3.0)], tf=tf)
    # map frame without transforms: position unavailable, range and point tests skipped
    objs(True, _p(target_labels=T, max_x_position_list=[1.0, 1.0], min_point_numbers=[9, 9]), [m(1, "CAR", 50.0, 0.0)])
    # map frame, transforms without the matrix -> KeyError
    objs(True, _p(target_labels=T, max_x_position_list=[1.0, 1.0]), [m(1, "CAR", 50.0, 0.0)], tf=[])
    # 2-D
    def o2(i, label, frame="cam_front", pos=None, **kw):
        d = {"id": i, "dim": "2d", "frame": frame, "label": "TrafficLightLabel." + label, "name": label.lower(), "attrs": [],
             "score": 0.5, "pc": None, "uuid": "u0", "pos": pos}
        d.update(kw)
        return d
    T2 = ["TrafficLightLabel.GREEN", "TrafficLightLabel.RED"]
    objs(False, _p(target_labels=T2, confidence_threshold_list=[0.5, 0.25], max_x_position_list=[1.0, 1.0]),
         [o2(1, "GREEN"), o2(2, "GREEN", score=0.5625), o2(3, "RED"), o2(4, "YELLOW"), o2(5, "UNKNOWN", score=0.0),
          o2(6, "FP", score=0.0)], dim="2d")
    objs(True, _p(target_labels=T2), [o2(1, "GREEN", frame="base_link")], dim="2d")  # AssertionError
    objs(True, _p(target_labels=T2, max_x_position_list=[1.0, 1.0], min_point_numbers=[0, 0]),
         [o2(1, "GREEN", frame="base_link", pos=[0.5, 0.0, 0.0])], dim="2d")  # AttributeError
    objs(True, _p(target_labels=T2, max_x_position_list=[1.0, 1.0]),
         [o2(1, "GREEN", frame="base_link", pos=[0.5, 0.0, 0.0]), o2(2, "RED", frame="base_link", pos=[1.0, 0.0, 0.0])], dim="2d")
    # results
    cs.append({"kind": "results", "dim": "3d", "mode": "corpus", "tf": None, "wider": None,
               "params": _p(target_labels=T, max_x_position_list=[10.0, 20.0], confidence_threshold_list=[0.25, 0.25],
                            ignore_attributes=["parked"], min_point_numbers=[3, 3]),
               "results": [
                   {"id": 10, "est": _o(1, "CAR", 9.0, 0.0), "gt": _o(2, "CAR", 9.5, 0.0)},
                   {"id": 11, "est": _o(3, "CAR", 9.0, 0.0), "gt": _o(4, "CAR", 10.5, 0.0)},
                   {"id": 12, "est": _o(5, "CAR", 10.5, 0.0), "gt": _o(6, "CAR", 9.5, 0.0)},
                   {"id": 13, "est": _o(7, "CAR", 1.0, 0.0, attrs=["parked"]), "gt": _o(8, "CAR", 1.0, 0.0)},
                   {"id": 14, "est": _o(9, "CAR", 1.0, 0.0), "gt": _o(10, "CAR", 1.0, 0.0, attrs=["parked"])},
                   {"id": 15, "est": _o(11, "CAR", 1.0, 0.0), "gt": None},
                   {"id": 16, "est": _o(12, "CAR", 1.0, 0.0, score=0.25), "gt": None},
                   {"id": 17, "est": _o(13, "CAR", 1.0, 0.0), "gt": _o(14, "CAR", 1.0, 0.0, pc=2)},
                   {"id": 18, "est": _o(15, "UNKNOWN", 14.0, 0.0), "gt": _o(16, "BICYCLE", 14.0, 0.0)},
               ]})
    for uu in (["u0"], []):
        cs.append({"kind": "results", "dim": "3d", "mode": "corpus", "tf": None, "wider": None,
                   "params": _p(target_labels=T, target_uuids=uu),
                   "results": [
                       {"id": 10, "est": _o(1, "CAR", 9.0, 0.0, uuid="e"), "gt": _o(2, "CAR", 9.5, 0.0, uuid="u0")},
                       {"id": 11, "est": _o(3, "CAR", 9.0, 0.0, uuid="u0"), "gt": _o(4, "CAR", 9.5, 0.0, uuid="u1")},
                       {"id": 12, "est": _o(5, "CAR", 9.0, 0.0, uuid="u0"), "gt": None},
                       {"id": 13, "est": _o(6, "BUS", 9.0, 0.0, uuid="u0"), "gt": None},
                   ]})
    # manager
    cs.append({"kind": "manager", "dim": "3d", "mode": "corpus", "tf": tf, "wider": None,
               "params": _p(target_labels=T, max_x_position_list=[10.0, 20.0], max_y_position_list=[10.0, 20.0],
                            min_point_numbers=[3, 0], confidence_threshold_list=[0.25, 0.25]),
               "estimates": [m(1, "CAR", 5.0, 5.0), m(2, "CAR", 11.0, 0.0), m(3, "UNKNOWN", 14.0, 0.0), m(4, "CAR", 1.0, 1.0, score=0.25)],
               "objects": [m(5, "CAR", 5.0, 5.5), m(6, "CAR", 1.0, 1.0, pc=2), m(7, "BICYCLE", 19.0, 0.0, pc=0), m(8, "FP", 99.0, 0.0)]})
    # a 3-D object without a position, no transforms: `None[0]` inside get_distance_bev -> TypeError
    objs(True, _p(target_labels=T), [_o(1, "CAR", 0.0, 0.0, pos=None)])
    # stored cases (minimised past findings of the machinery itself)
    import json
    for f in sorted((core.VERIF / "harness" / "corpus" / "c10").glob("*.json")):
        c = json.loads(f.read_text())
        c.pop("note", None)
        cs.append(c)
    return cs


# ----------------------------------------------------------------------------- shrinking / search

def shrink(case):
    key = "objects" if case["kind"] != "results" else "results"
    items = case[key]
    for i in range(len(items)):
        c = copy.deepcopy(case)
        del c[key][i]
        yield c
    if case["kind"] == "manager":
        for i in range(len(case["estimates"])):
            c = copy.deepcopy(case)
            del c["estimates"][i]
            yield c
    for k in ALL_PARAMS:
        if case["params"].get(k) is not None and k != "target_labels":
            c = copy.deepcopy(case)
            c["params"][k] = None
            if c.get("wider") is not None:
                c["wider"][k] = None
            yield c
    if case.get("wider") is not None:
        c = copy.deepcopy(case)
        c["wider"] = None
        yield c


def search(rng, st, disagreements):
    return table_witnesses() + [_gen_case(rng, k) for k in ["objects"] * 3000 + ["results"] * 500 + ["manager"] * 100]
