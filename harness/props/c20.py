"""C20 — configuration strings parse to the enum member they name.

Tie to the code: (i) translator — the (name, value) tables the theorems quantify over are regenerated
from the live enums; (ii) correspondence — every parser is run on every member value, its upper- and
lower-case spellings, near misses and random strings, and compared with the Lean model; (iii) oracle —
the property itself evaluated on the real return values (identity of the member, rejection or the
documented fallback otherwise, string-or-enum call sites).

String-or-enum call sites include EVERY key-taking access path of `TransformDict` (kind `key_site`): the methods are enumerated
from `dir(TransformDict)`; `get`, `[]`, `in`, `load_key`, `transform`, `[]=`, `del`, `pop`, `setdefault` are called the way they are
meant to be, anything else with the key as its only argument; the key is given as pair / list / TransformKey in the spellings
lower / upper / member / mixed(str, member) / a name that is no frame.  On a registry built for the case the answer and the keys held
afterwards must be those of the same call with `TransformKey(member, member)`; a non-frame name must never be answered positively.
The model (`transform_key`) says which pair of members the key names, or that it is rejected.
"""
from __future__ import annotations

import string

PROP = "C20"
EXHAUSTIVE = True  # over members x spellings; the non-member stream is sampled
RULE = (
    "every member of every enum x {value, upper, lower, title-case, value+' ', value[:-1]} through every parser, "
    "every documented alias, every string-or-enum call site in both spellings (Shape, TransformKey / HomogeneousMatrix, the task of "
    "LabelConverter / FrameID.from_task, and EVERY key-taking method of TransformDict, enumerated from the class: get, [], in, "
    "load_key, transform, []=, del, anything new generically; key as pair / list / TransformKey), plus seeded random ASCII strings; "
    "a case is non-trivial when it reaches a parser with a string (all are); distinct = distinct (parser, string)"
)
THEOREMS = [
    "PEval.C20." + t
    for t in [
        "task_values_nodup", "frame_values_nodup", "frame_values_lower", "visibility_values_nodup",
        "sensor_values_nodup", "shape_values_nodup", "policy_names_upper", "alias_disjoint_values",
        "alias_keys_nodup", "alias_targets_members", "alias_fallback_member",
        "roundtrip_task", "roundtrip_setTask", "roundtrip_frame", "roundtrip_frame_upper", "roundtrip_visibility",
        "roundtrip_sensor", "roundtrip_shapeType", "roundtrip_policy", "roundtrip_policy_lower",
        "nonmember_task", "nonmember_setTask", "nonmember_frame", "nonmember_sensor", "nonmember_shapeType",
        "nonmember_policy", "visibility_alias", "visibility_fallback", "visibility_total",
        "shape_str_eq_enum", "frameArg_str_eq_enum", "frameArg_upper_eq_enum", "transformKey_str_eq_enum",
    ]
]
TRUSTED = [
    "translator harness/gen_tables.py (reads Enum.__members__, evaluates Visibility.from_alias on the strings it compares)",
    "Python str.lower()/upper() modelled by Lean String.toLower/toUpper (ASCII only; generated strings are ASCII)",
]
ASSUMPTIONS = ["strings are ASCII", "set_task returning None counts as rejection (it has no documented fallback)"]

ALIASES = {"v0-40": "NONE", "v40-60": "PARTIAL", "v60-80": "MOST", "v80-100": "FULL"}


def _enums():
    from perception_eval.common.evaluation_task import EvaluationTask, set_task
    from perception_eval.common.schema import FrameID, SensorModality, Visibility
    from perception_eval.common.shape import ShapeType
    from perception_eval.evaluation.matching.object_matching import MatchingLabelPolicy

    return {
        "task": (EvaluationTask, EvaluationTask.from_value),
        "set_task": (EvaluationTask, set_task),
        "frame": (FrameID, FrameID.from_value),
        "visibility": (Visibility, Visibility.from_value),
        "sensor": (SensorModality, SensorModality.from_value),
        "shape_type": (ShapeType, ShapeType.from_value),
        "policy": (MatchingLabelPolicy, MatchingLabelPolicy.from_str),
    }


def _spellings(v: str):
    return [v, v.upper(), v.lower(), v.title(), v + " ", v[:-1], " " + v, v + "_x"]


# ---- every key-taking access path of TransformDict (a string-or-enum call site each) -------------------------------
# Enumerated from the class, so that a newly added method is picked up: the ones below are driven the way they are
# meant to be called; methods that take no key are listed; anything else is tried with the key as its only argument.
KEY_PATHS = ("get", "__getitem__", "__contains__", "load_key", "transform", "__setitem__", "__delitem__", "pop", "setdefault")
NO_KEY_PATHS = {"keys", "items", "values", "__iter__", "__len__", "__repr__", "__str__", "__bool__", "copy", "__copy__", "__deepcopy__",
                "__reduce__", "__reduce_ex__", "__getstate__", "__setstate__", "__eq__", "__ne__", "__hash__", "__init__",
                "__init_subclass__", "__class_getitem__", "__sizeof__", "__reversed__", "clear", "popitem", "update"}
KEY_FORMS = ("tuple", "list", "key")


def _key_paths():
    from perception_eval.common.transform import TransformDict

    base = set(dir(object))
    out = []
    for n in dir(TransformDict):
        if n in base or n.startswith("_TransformDict__") or n in NO_KEY_PATHS or not callable(getattr(TransformDict, n, None)):
            continue
        out.append(n)
    return out


def _canon_any(r):
    from perception_eval.common.schema import FrameID
    from perception_eval.common.transform import HomogeneousMatrix, TransformKey

    def fn(f):
        return f.name if isinstance(f, FrameID) else repr(f)

    if isinstance(r, HomogeneousMatrix):
        return {"matrix": [[round(float(v), 9) for v in row] for row in r.matrix.tolist()], "src": fn(r.src), "dst": fn(r.dst)}
    if isinstance(r, TransformKey):
        return {"key": True, "src": fn(r.src), "dst": fn(r.dst)}
    if r is None or isinstance(r, (bool, int, str)):
        return {"value": r}
    try:
        import numpy as np

        return {"array": [round(float(v), 9) for v in np.asarray(r, dtype=float).ravel()]}
    except Exception:  # noqa
        return {"other": type(r).__name__}


def _call_path(reg, path, key, marker):
    """one call of the access path `path` with `key`; what is observed: the answer and the keys held afterwards"""
    from perception_eval.common.transform import TransformKey

    try:
        if path == "get":
            r = reg.get(key)
        elif path == "__getitem__":
            r = reg[key]
        elif path == "__contains__":
            r = key in reg
        elif path == "load_key":
            r = reg.load_key(key.src, key.dst) if isinstance(key, TransformKey) else reg.load_key(*key)
        elif path == "transform":
            r = reg.transform(key, (1.0, -2.0, 0.5))
        elif path == "__setitem__":
            reg[key] = marker
            r = None
        elif path == "__delitem__":
            del reg[key]
            r = None
        elif path == "setdefault":
            r = reg.setdefault(key, marker)
        else:  # pop and anything unknown: the key is the only argument
            r = getattr(reg, path)(key)
        ans = _canon_any(r)
    except Exception as e:  # noqa
        ans = {"err": type(e).__name__}
    return {"ans": ans, "held": _held(reg)}


def _held(reg):
    try:
        return sorted([k.src.name, k.dst.name, _canon_any(v)["matrix"][0][3]] for k, v in reg.items())
    except Exception as e:  # noqa
        return {"err": type(e).__name__}


def _run_key_site(case):
    from perception_eval.common.schema import FrameID
    from perception_eval.common.transform import HomogeneousMatrix, TransformDict, TransformKey

    a, b = FrameID[case["src"]], FrameID[case["dst"]]
    other = next(m for m in FrameID.__members__.values() if m not in (a, b))
    sp = case["spelling"]

    def registry():
        ms = [HomogeneousMatrix((4.0, 0.0, -1.0), (0.0, 1.0, 0.0, 0.0), b, other)]
        if case["registered"]:
            ms.append(HomogeneousMatrix((1.0, 2.0, 3.0), (0.6, 0.0, 0.0, 0.8), a, b))
        return TransformDict(ms)

    marker = HomogeneousMatrix((7.0, 7.0, 7.0), (1.0, 0.0, 0.0, 0.0), a, b)

    def spelled():
        if sp == "bad":
            ks, kd = (a.value + "_x", b) if case.get("bad_side", 0) == 0 else (a, b.value + "_x")
        else:
            ks, kd = _arg(a, sp, 0), _arg(b, sp, 1)
        return TransformKey(ks, kd) if case["form"] == "key" else [ks, kd] if case["form"] == "list" else (ks, kd)

    def guarded(mk):
        try:
            key = mk()
        except Exception as e:  # noqa  (a TransformKey cannot be made of a name that is no frame)
            return {"ans": {"err": type(e).__name__}, "held": None, "key_err": True}
        return _call_path(registry(), case["path"], key, marker)

    got = guarded(spelled)
    ref = guarded(lambda: TransformKey(a, b))
    ans = got["ans"]
    return {"same": got == ref, "spelled": got, "member": ref if got != ref else None,
            "src": ans.get("src"), "dst": ans.get("dst"), "err_kind": ans.get("err"),
            "positive": bool("matrix" in ans or "key" in ans or "array" in ans or ans.get("value") not in (None, False)
                             or (got["held"] is not None and got["held"] != _held(registry()))),
            "signature_unknown": case["path"] not in KEY_PATHS and ref["ans"].get("err") == "TypeError"}


def corpus():
    cs = []
    # F12 (fixed): the four parsers that returned names / an unparsable value
    cs.append({"kind": "parse", "parser": "frame", "s": "RADAR_BACK"})
    cs.append({"kind": "parse", "parser": "frame", "s": "radar_back"})
    for p, s in [("visibility", "full"), ("sensor", "lidar"), ("shape_type", "bounding_box"), ("sensor", "sonar")]:
        cs.append({"kind": "parse", "parser": p, "s": s})
    cs.append({"kind": "shape_arg", "member": "BOUNDING_BOX", "spelling": "str"})
    return cs


def generate(rng, tier):
    E = _enums()
    cases = []
    for parser, (cls, _) in E.items():
        for m in cls.__members__.values():
            for s in _spellings(m.value):
                cases.append({"kind": "parse", "parser": parser, "s": s})
            cases.append({"kind": "parse", "parser": parser, "s": m.name})
    for a in list(ALIASES) + ["v0-41", "V0-40", ""]:
        cases.append({"kind": "parse", "parser": "visibility", "s": a})
    n_rand = 500 if tier == "quick" else 5000
    alphabet = string.ascii_letters + string.digits + "_ -."
    for _ in range(n_rand):
        parser = rng.choice(list(E))
        s = "".join(rng.choice(alphabet) for _ in range(rng.randint(0, 12)))
        cases.append({"kind": "parse", "parser": parser, "s": s})
    from perception_eval.common.schema import FrameID
    from perception_eval.common.shape import ShapeType

    for m in ShapeType.__members__.values():
        for sp in ("str", "upper", "member"):
            cases.append({"kind": "shape_arg", "member": m.name, "spelling": sp})
    fr = list(FrameID.__members__.values())
    for a in fr:
        for b in fr if tier == "thorough" else rng.sample(fr, 4):
            for sp in ("str", "upper", "member", "mixed"):
                cases.append({"kind": "transform_key", "src": a.name, "dst": b.name, "spelling": sp})
    cases.append({"kind": "transform_key", "src": "MAP", "dst": "NOPE", "spelling": "bad"})
    # every key-taking access path of the registry, every frame as source, all spellings, key as pair / list / TransformKey
    paths = _key_paths()
    for a in fr:
        for b in fr if tier == "thorough" else rng.sample(fr, 3):
            if a is b:
                continue
            for path in paths:
                for sp in ("str", "upper", "member", "mixed"):
                    for form in KEY_FORMS if tier == "thorough" else [rng.choice(KEY_FORMS)]:
                        cases.append({"kind": "key_site", "path": path, "src": a.name, "dst": b.name, "spelling": sp, "form": form,
                                      "registered": rng.random() < 0.7})
                cases.append({"kind": "key_site", "path": path, "src": a.name, "dst": b.name, "spelling": "bad", "form": rng.choice(KEY_FORMS),
                              "bad_side": rng.randrange(2), "registered": rng.random() < 0.7})
    # further string-or-enum call sites: the evaluation task of LabelConverter and of FrameID.from_task
    from perception_eval.common.evaluation_task import EvaluationTask

    for t in EvaluationTask.__members__:
        for prefix in ("autoware", "traffic_light"):
            for merge in (False, True):
                cases.append({"kind": "task_site", "site": "label_converter", "task": t, "prefix": prefix, "merge": merge})
        cases.append({"kind": "task_site", "site": "frame_from_task", "task": t})
    return cases


def _canon(cls, r):
    if isinstance(r, cls):
        return {"member": r.name}
    if r is None:
        return {"none": True}
    return {"other": repr(r)}


def _arg(member, spelling, side=0):
    """the argument handed to a string-or-enum call site"""
    if spelling == "member" or (spelling == "mixed" and side == 1):
        return member
    if spelling == "upper":
        return member.value.upper()
    return member.value


def run_impl(case):
    from perception_eval.common.schema import FrameID
    from perception_eval.common.shape import Shape, ShapeType
    from perception_eval.common.transform import HomogeneousMatrix, TransformKey

    k = case["kind"]
    try:
        if k == "parse":
            cls, fn = _enums()[case["parser"]]
            return _canon(cls, fn(case["s"]))
        if k == "shape_arg":
            m = ShapeType[case["member"]]
            if m != ShapeType.BOUNDING_BOX:
                from shapely.geometry import Polygon

                fp = Polygon([(1, 1), (-1, 1), (-1, -1), (1, -1)])
            else:
                fp = None
            s1 = Shape(_arg(m, case["spelling"]), (2.0, 4.0, 1.5), fp)
            s2 = Shape(m, (2.0, 4.0, 1.5), fp)
            return {"member": s1.type.name if isinstance(s1.type, ShapeType) else None, "other": repr(s1.type),
                    "same": bool(s1.type is s2.type and s1.size == s2.size and s1.footprint.equals(s2.footprint))}
        if k == "transform_key":
            if case["spelling"] == "bad":
                TransformKey("map", "nope")
                return {"member": None}
            a, b = FrameID[case["src"]], FrameID[case["dst"]]
            k1 = TransformKey(_arg(a, case["spelling"], 0), _arg(b, case["spelling"], 1))
            k2 = TransformKey(a, b)
            h = HomogeneousMatrix((1.0, 2.0, 3.0), (1.0, 0.0, 0.0, 0.0), _arg(a, case["spelling"], 0), _arg(b, case["spelling"], 1))
            ok = k1 == k2 and hash(k1) == hash(k2) and k1.src is a and k1.dst is b and h.src is a and h.dst is b
            return {"src": k1.src.name if isinstance(k1.src, FrameID) else None,
                    "dst": k1.dst.name if isinstance(k1.dst, FrameID) else None, "same": bool(ok)}
        if k == "key_site":
            return _run_key_site(case)
        if k == "task_site":
            from perception_eval.common.evaluation_task import EvaluationTask
            from perception_eval.common.label import LabelConverter

            t = EvaluationTask[case["task"]]

            def run(arg):
                try:
                    if case["site"] == "label_converter":
                        c = LabelConverter(arg, case["merge"], case["prefix"])
                        return [[li.label.name, li.name] for li in c.label_infos] + [c.evaluation_task.name]
                    return FrameID.from_task(arg).name
                except Exception as e:  # noqa
                    return {"err": type(e).__name__}

            a, b = run(t.value), run(t)
            return {"same": a == b, "str": a if a != b else None, "enum": b if a != b else None}
    except Exception as e:
        return {"err": type(e).__name__}
    raise ValueError(k)


def model_requests(case, out):
    k = case["kind"]
    if k == "task_site":
        return []
    if k == "parse":
        return [{"op": "parse", "parser": case["parser"], "s": case["s"]}]
    from perception_eval.common.schema import FrameID
    from perception_eval.common.shape import ShapeType

    def marg(member, spelling, side=0):
        a = _arg(member, spelling, side)
        return {"member": a.name} if not isinstance(a, str) else {"str": a}

    if k == "shape_arg":
        return [{"op": "shape_arg", "arg": marg(ShapeType[case["member"]], case["spelling"])}]
    if k == "key_site":
        a, b = FrameID[case["src"]], FrameID[case["dst"]]
        if case["spelling"] == "bad":
            src, dst = ({"str": a.value + "_x"}, {"member": b.name}) if case.get("bad_side", 0) == 0 else ({"member": a.name}, {"str": b.value + "_x"})
            return [{"op": "transform_key", "src": src, "dst": dst}]
        return [{"op": "transform_key", "src": marg(a, case["spelling"], 0), "dst": marg(b, case["spelling"], 1)}]
    if k == "transform_key":
        if case["spelling"] == "bad":
            return [{"op": "transform_key", "src": {"str": "map"}, "dst": {"str": "nope"}}]
        return [{"op": "transform_key", "src": marg(FrameID[case["src"]], case["spelling"], 0),
                 "dst": marg(FrameID[case["dst"]], case["spelling"], 1)}]
    return []


def compare(case, out, resps):
    r = resps[0]
    k = case["kind"]
    if k == "parse":
        a = {x: out.get(x) for x in ("member", "err", "none") if x in out}
        b = {x: r.get(x) for x in ("member", "err", "none") if x in r}
        if "other" in out:
            return f"implementation returned a non-member {out['other']}, model {b}"
        return None if a == b else f"impl {a} != model {b}"
    if k == "shape_arg":
        if "err" in out or "err" in r:
            return None if out.get("err") == r.get("err") else f"impl {out} != model {r}"
        return None if out.get("member") == r.get("member") else f"impl {out} != model {r}"
    if k == "transform_key":
        if "err" in out or "err" in r:
            return None if out.get("err") == r.get("err") else f"impl {out} != model {r}"
        return None if (out.get("src"), out.get("dst")) == (r.get("src"), r.get("dst")) else f"impl {out} != model {r}"
    if k == "key_site":
        # the model knows how the key is read: the pair of members, or ValueError before anything is looked up
        if out.get("signature_unknown"):
            return None
        if "err" in r:
            if case["path"] in KEY_PATHS and out.get("err_kind") != r["err"]:
                return f"{case['path']}: the key is rejected by the model with {r['err']}, impl {out['spelled']}"
            return None
        if out.get("src") is not None and (out.get("src"), out.get("dst")) != (r.get("src"), r.get("dst")):
            return f"{case['path']}: impl answered for {out.get('src')}->{out.get('dst')}, the key names {r.get('src')}->{r.get('dst')}"
        return None


def oracle(case, out):
    k = case["kind"]
    if k == "parse":
        cls, _ = _enums()[case["parser"]]
        s = case["s"]
        parser = case["parser"]
        byval = {m.value: m for m in cls.__members__.values()}
        expect = None
        if s in byval:
            expect = byval[s].name
        elif parser == "frame" and s.lower() in byval and s in (s.upper(), s.lower()):
            expect = byval[s.lower()].name  # documented: upper case accepted
        elif parser == "policy" and s.upper() in cls.__members__ and s in (s.upper(), s.lower()):
            expect = s.upper()  # from_str: name of a member, any case
        if expect is not None:
            if out.get("member") != expect:
                return f"{parser}({s!r}) should give member {expect}, got {out}"
            return None
        # any other string: rejected, or the documented fallback
        if parser == "visibility":
            want = ALIASES.get(s, "UNAVAILABLE")
            return None if out.get("member") == want else f"Visibility.from_value({s!r}) should fall back to {want}, got {out}"
        if parser == "set_task":
            return None if out.get("none") or "err" in out else f"set_task({s!r}) accepted a non-member: {out}"
        if parser in ("frame", "policy"):
            # mixed-case spellings of a member are accepted by lower()/upper(): not covered by the property either way
            if (parser == "frame" and s.lower() in byval) or (parser == "policy" and s.upper() in cls.__members__):
                return None if out.get("member") or "err" in out else f"{parser}({s!r}) gave {out}"
        return None if "err" in out else f"{parser}({s!r}) is not a member value but was not rejected: {out}"
    if k == "shape_arg":
        if case["spelling"] == "upper":
            return None if "err" in out else f"Shape({case['member']} upper-case) accepted: {out}"
        return None if out.get("same") else f"Shape(str) differs from Shape(enum): {out}"
    if k == "transform_key":
        if case["spelling"] == "bad":
            return None if "err" in out else "TransformKey('map','nope') accepted"
        return None if out.get("same") else f"TransformKey/HomogeneousMatrix differ between spellings: {out}"
    if k == "key_site":
        if out.get("signature_unknown"):
            return None
        what = f"TransformDict.{case['path']} with the key ({case['src']}, {case['dst']}) spelled {case['spelling']!r} as {case['form']}"
        if case["spelling"] == "bad":
            return None if not out.get("positive") else f"{what}: a name that is no frame was accepted: {out['spelled']}"
        return None if out.get("same") else f"{what} gives {out['spelled']}, with TransformKey(member, member) {out['member']}"
    if k == "task_site":
        return None if out.get("same") else (f"{case['site']} behaves differently for the task given as string "
                                             f"{case['task'].lower()!r} and as enum member: {out.get('str')} vs {out.get('enum')}")


def branches(case, out):
    k = case["kind"]
    if k == "parse":
        res = "member" if "member" in out else "err" if "err" in out else "none" if "none" in out else "other"
        return [f"parse:{case['parser']}:{res}"]
    if k == "key_site":
        ans = out.get("spelled", {}).get("ans", {})
        res = "err:" + ans["err"] if "err" in ans else "matrix" if "matrix" in ans else "key" if "key" in ans else "array" if "array" in ans else repr(ans.get("value"))
        return [f"key_site:{case['path']}:{case['spelling']}:{res}", f"key_site:form:{case['form']}"] + (
            [f"key_site:undriven:{case['path']}"] if out.get("signature_unknown") else [])
    return [f"{k}:{case.get('spelling')}:{'err' if 'err' in out else 'ok'}"]


def search(rng, st, disagreements):
    """exhaustive evaluation of the real parsers over the live tables (runs when a theorem broke)"""
    return generate(rng, "thorough")
