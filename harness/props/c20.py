"""C20 — configuration strings parse to the enum member they name.

Tie to the code: (i) translator — the (name, value) tables the theorems quantify over are regenerated
from the live enums; (ii) correspondence — every parser is run on every member value, its upper- and
lower-case spellings, near misses and random strings, and compared with the Lean model; (iii) oracle —
the property itself evaluated on the real return values (identity of the member, rejection or the
documented fallback otherwise, string-or-enum call sites).

String-or-enum call sites include EVERY key-taking access path of `TransformDict` (kind `key_site`): the methods are enumerated
from `dir(TransformDict)`; `get`, `[]`, `in`, `load_key`, `transform`, `[]=`, `del`, `pop`, `setdefault` are called the way they are
meant to be, anything else with the key as its only argument; the key is given as pair / list / TransformKey in the spellings
lower / upper / member / mixed(str, member) / a name that is no frame.  On a registry built for the case the answer and the keys held
afterwards must be those of the same call with `TransformKey(member, member)`; a non-frame name must never be answered positively.
The model (`transform_key`) says which pair of members the key names, or that it is rejected.

Parse sites that take SEVERAL strings (every public entry point of common/evaluation_task.py and the config classes is driven):
`set_task_lists` (kind `task_list`: every member value, spellings, non-members, repetitions, the empty list, the whole enum in
several orders), `set_task_dict` (kind `task_dict`: the same as dict keys, every key with an item of its own), the constructors of
`PerceptionEvaluationConfig` / `SensingEvaluationConfig` (kind `config_site`: the task string of the config dict, `frame_id` as one
string or a sequence of strings, the `matching_label_policy` string), `LabelConverter` / `FrameID.from_task` with an arbitrary task
string (kind `task_site_str`), and the PRINTED form of every member (`str(m)`, `format(m)`, `"%s" % m`) through every parser (kind
`printed`).  Models: `setTaskLists`, `setTaskDict`, `frameIds`, `checkTask` in `PEval.Model.Enums`.
Kind `hashable`: members as dict / set keys -- RECORDED only (histogram `hashable:*`): the property does not state hashability.
What the fixed finding C20-N1 (a41526b, unhashable EvaluationTask) needs is judged where the property observes it: kind
`task_dict`, set_task_dict on member-value keys must return the members as keys.
Exceptions: the property says "rejected", so neither the oracle nor the correspondence looks at the CLASS of an exception (raised
vs returned only).  `run_impl` catches exceptions only around the one library call a case is about (`_lib`).

VALUE LEVEL (audit round 1, item 6).  The string-level model represents a member by its name, so it cannot tell a parser that
returns the member from one that returns the member's NAME STRING (defect F12).  The canonical form of every returned object now
carries its KIND (`_ret`: member of which enum class -- and `is` that class's member of that name -- / str / None / other), the Lean
model has a value type with the same three kinds (`PEval.Enums.PyRet`) and the driver answers in the same form (ops `parse_v`,
`shape_init`, `transform_key_v`, `frame_from_task`, `task_list_v`, `task_dict_v`): the correspondence itself distinguishes member
from string.  New kinds: `shape_init` (every shape type x {value, member, upper, non-member} x footprint {none, polygon, empty
polygon}: what `Shape.type` HOLDS), `from_task` (`FrameID.from_task` for every task x {value spellings, member}).
`model_selftest()` (not part of the check; `python -m`-free helper used by the builder) drives the F12 / C20_G / C20_B / C20_J
variants of the model and shows that the comparison rejects each of them.
"""
from __future__ import annotations

import string

PROP = "C20"
EXHAUSTIVE = True  # over members x spellings; the non-member stream is sampled
RULE = (
    "every member of every enum x {value, upper, lower, title-case, value+' ', value[:-1]} through every parser, "
    "every documented alias, every string-or-enum call site in both spellings (Shape, TransformKey / HomogeneousMatrix, the task of "
    "LabelConverter / FrameID.from_task, and EVERY key-taking method of TransformDict, enumerated from the class: get, [], in, "
    "load_key, transform, []=, del, anything new generically; key as pair / list / TransformKey), plus seeded random ASCII strings; "
    "a case is non-trivial when it reaches a parser with a string (all are); distinct = distinct (parser, string). "
    "several strings at once: set_task_lists / set_task_dict on every singleton over member values x spellings, the whole enum "
    "(definition order, reversed, seeded shuffles), repetitions, the empty input, seeded mixtures of member values / near misses / "
    "random strings; the config constructors on every task string x {supported, unsupported, spellings} x frame_id as one string / "
    "a sequence (every member, upper case, a non-frame at a seeded position, empty) x policy strings; the printed form "
    "(str / format / %s) of every member of every enum through its parser; "
    "value level: every parse case is compared a second time on the KIND of the returned object (member of which class / str / None); "
    "Shape on every shape type x {value, member, upper-case, non-member string} x footprint {none, polygon, empty polygon}; "
    "FrameID.from_task on every task x {value, its spellings, the member}; TransformKey fields by kind"
)
# AUDIT2 (count inflation) / AUDIT3: about 40 of the 125 names were twins of each other.  NOT registered any more (still compiled with
# PEval.Properties.C20, a broken one breaks `lake build`; their axioms are audited transitively, the registered value-level theorem
# `xV_y` is proved FROM the string-level `x_y` through the projection lemma `…V_eq`):
#   (i) a string-level theorem `x_y` whose value-level twin `xV_y` is registered;  (ii) the projection lemmas `…V_eq` / `…F12_eq`.
_PROJECTIONS = {
    "firstMemberV_eq", "firstKey_F12_eq", "taskFromValueV_eq", "setTaskV_eq", "frameFromValueV_eq", "visibilityFromValueV_eq",
    "sensorFromValueV_eq", "shapeTypeFromValueV_eq", "policyFromStrV_eq", "shapeInitV_eq", "transformKeyV_eq", "membersNamedV_eq",
    "setTaskListsV_eq", "setTaskDictV_eq", "frameIdsV_eq", "checkTaskV_eq",
}


def _registered(names):
    names = list(dict.fromkeys(names))
    have = set(names)
    twin = lambda n: "_" in n and (n.split("_", 1)[0] + "V_" + n.split("_", 1)[1]) in have
    return ["PEval.C20." + n for n in names if n not in _PROJECTIONS and not twin(n)]


THEOREMS = _registered(
    t
    for t in [
        "fromTask_agrees_with_source", "printed_form_parses_back", "printed_tables_complete",
        "task_values_nodup", "frame_values_nodup", "frame_values_lower", "visibility_values_nodup",
        "sensor_values_nodup", "shape_values_nodup", "policy_names_upper", "alias_disjoint_values",
        "alias_keys_nodup", "alias_targets_members", "alias_fallback_member",
        "roundtrip_task", "roundtrip_setTask", "roundtrip_frame", "roundtrip_frame_upper", "roundtrip_visibility",
        "roundtrip_sensor", "roundtrip_shapeType", "roundtrip_policy", "roundtrip_policy_lower",
        "nonmember_task", "nonmember_setTask", "nonmember_frame", "nonmember_sensor", "nonmember_shapeType",
        "nonmember_policy", "visibility_alias", "visibility_fallback", "visibility_total",
        "shape_str_eq_enum", "frameArg_str_eq_enum", "frameArg_upper_eq_enum", "transformKey_str_eq_enum",
        # parse sites taking several strings
        "task_names_functional", "membersNamed_member", "membersNamed_nonmember", "membersNamed_eq_setTask",
        "setTaskLists_eq_filterMap", "roundtrip_setTaskLists", "setTaskLists_all_members", "setTaskLists_members",
        "setTaskLists_sound", "setTaskLists_append", "setTaskLists_nonmember_dropped", "setTaskDict_keys",
        "roundtrip_setTaskDict", "setTaskDict_keys_nodup", "roundtrip_frameIds_one", "roundtrip_frameIds_many",
        "nonmember_frameIds", "nonmember_frameIds_one", "roundtrip_checkTask", "nonmember_checkTask",
        # audit round 1, item 6 -- the regenerated tables are present (an empty table breaks a proof instead of making the
        # `forall p in Gen.x` theorems vacuous)
        "evaluationTask_nonempty", "frameID_nonempty", "visibility_nonempty", "sensorModality_nonempty", "shapeType_nonempty",
        "matchingLabelPolicy_nonempty", "visibilityAlias_nonempty", "taskIs3d_nonempty", "taskIs3d_names", "taskIs3d_both",
        "names_nodup",
        # value level: projection onto the string-level model
        "firstMemberV_eq", "firstKey_F12_eq", "taskFromValueV_eq", "setTaskV_eq", "frameFromValueV_eq", "visibilityFromValueV_eq",
        "sensorFromValueV_eq", "shapeTypeFromValueV_eq", "policyFromStrV_eq", "F12_same_erasure",
        # value level: the member itself comes back / nothing but a member of the parser's enum ever comes back
        "roundtripV_task", "roundtripV_setTask", "roundtripV_frame", "roundtripV_visibility", "roundtripV_sensor",
        "roundtripV_shapeType", "roundtripV_policy", "visibilityV_alias", "visibilityV_fallback", "visibilityV_total",
        "taskV_sound", "setTaskV_sound", "frameV_sound", "sensorV_sound", "shapeTypeV_sound", "policyV_sound",
        # Shape / TransformKey / FrameID.from_task for both spellings
        "shapeV_str_eq_enum", "shapeV_stored_member", "shapeV_no_footprint", "shapeV_sound", "shapeV_nonmember", "shapeInitV_eq",
        "frameArgV_spellings", "transformKeyV_spellings", "transformKeyV_sound", "transformKeyV_eq",
        "fromTask_str_eq_enum", "fromTask_sound", "fromTask_2d_rejected", "fromTask_nonmember", "fromTask_names_present",
        "fromTask_documented",
        # the multi-string sites at value level
        "membersNamedV_eq", "setTaskListsV_eq", "setTaskDictV_eq", "frameIdsV_eq", "checkTaskV_eq", "roundtripV_setTaskLists",
        "setTaskListsV_sound", "roundtripV_setTaskDict", "roundtripV_frameIds", "roundtripV_frameIds_one", "roundtripV_checkTask",
        "matchingMode_nonempty", "taskIsFpValidation_nonempty", "frameV_case_irrelevant", "policyV_case_irrelevant",
        "roundtripV_frame_anycase",
    ]
)
TRUSTED = [
    "translator harness/gen_tables.py (reads Enum.__members__, evaluates Visibility.from_alias on the strings it compares)",
    "Python str.lower()/upper() modelled by Lean String.toLower/toUpper (ASCII only; generated strings are ASCII)",
]
ASSUMPTIONS = [
    "strings are ASCII", "set_task returning None counts as rejection (it has no documented fallback)",
    "set_task_lists / set_task_dict DROP a string that names no member (no exception, no placeholder): counts as rejection, the "
    "same reading as for set_task returning None; the oracle demands that a non-member string never comes back as a member and "
    "that every member value among the strings comes back as its member (as a SET: container type, order and multiplicity of "
    "the answer are not stated by the property and not judged)",
    "MatchingLabelPolicy has no __str__: its printed form 'MatchingLabelPolicy.X' is not a spelling from_str documents (the "
    "printed-form clause speaks about enums whose str() is the value); not judged, histogram key 'undecided:policy-printed-form'; "
    "from_str(member.name) and from_str(member.value) ARE judged",
    "hashability of the enum members is only recorded (histogram 'hashable:*'), the property does not state it; what the fixed "
    "finding C20-N1 (a41526b) needs is judged where the property observes it: set_task_dict on member-value keys must return "
    "the members as keys (kind task_dict)",
    "config_site: 'prediction' configs are documented as under construction and 3-D tasks take exactly one frame: a rejection "
    "there has reasons outside this property (not judged either way, not compared: counted as skipped)",
    "config_site: the minimal config dict / constructor call of the harness is first tried with strings known to be valid "
    "(detection, base_link); if that reference construction fails the run is an infrastructure error, not a violation",
]

ALIASES = {"v0-40": "NONE", "v40-60": "PARTIAL", "v60-80": "MOST", "v80-100": "FULL"}


def _enums():
    from perception_eval.common.evaluation_task import EvaluationTask, set_task
    from perception_eval.common.schema import FrameID, SensorModality, Visibility
    from perception_eval.common.shape import ShapeType
    from perception_eval.evaluation.matching.object_matching import MatchingLabelPolicy

    return {
        "task": (EvaluationTask, EvaluationTask.from_value),
        "set_task": (EvaluationTask, set_task),
        "frame": (FrameID, FrameID.from_value),
        "visibility": (Visibility, Visibility.from_value),
        "sensor": (SensorModality, SensorModality.from_value),
        "shape_type": (ShapeType, ShapeType.from_value),
        "policy": (MatchingLabelPolicy, MatchingLabelPolicy.from_str),
    }


def _spellings(v: str):
    return [v, v.upper(), v.lower(), v.title(), v + " ", v[:-1], " " + v, v + "_x"]


# ---- every key-taking access path of TransformDict (a string-or-enum call site each) -------------------------------
# Enumerated from the class, so that a newly added method is picked up: the ones below are driven the way they are
# meant to be called; methods that take no key are listed; anything else is tried with the key as its only argument.
KEY_PATHS = ("get", "__getitem__", "__contains__", "load_key", "transform", "__setitem__", "__delitem__", "pop", "setdefault")
NO_KEY_PATHS = {"keys", "items", "values", "__iter__", "__len__", "__repr__", "__str__", "__bool__", "copy", "__copy__", "__deepcopy__",
                "__reduce__", "__reduce_ex__", "__getstate__", "__setstate__", "__eq__", "__ne__", "__hash__", "__init__",
                "__init_subclass__", "__class_getitem__", "__sizeof__", "__reversed__", "clear", "popitem", "update"}
KEY_FORMS = ("tuple", "list", "key")


def _key_paths():
    from perception_eval.common.transform import TransformDict

    base = set(dir(object))
    out = []
    for n in dir(TransformDict):
        if n in base or n.startswith("_TransformDict__") or n in NO_KEY_PATHS or not callable(getattr(TransformDict, n, None)):
            continue
        out.append(n)
    return out


def _canon_any(r):
    from perception_eval.common.schema import FrameID
    from perception_eval.common.transform import HomogeneousMatrix, TransformKey

    def fn(f):
        return f.name if isinstance(f, FrameID) else repr(f)

    if isinstance(r, HomogeneousMatrix):
        return {"matrix": [[round(float(v), 9) for v in row] for row in r.matrix.tolist()], "src": fn(r.src), "dst": fn(r.dst)}
    if isinstance(r, TransformKey):
        return {"key": True, "src": fn(r.src), "dst": fn(r.dst)}
    if r is None or isinstance(r, (bool, int, str)):
        return {"value": r}
    try:
        import numpy as np

        return {"array": [round(float(v), 9) for v in np.asarray(r, dtype=float).ravel()]}
    except Exception:  # noqa
        return {"other": type(r).__name__}


def _call_path(reg, path, key, marker):
    """one call of the access path `path` with `key`; what is observed: the answer and the keys held afterwards"""
    from perception_eval.common.transform import TransformKey

    try:
        if path == "get":
            r = reg.get(key)
        elif path == "__getitem__":
            r = reg[key]
        elif path == "__contains__":
            r = key in reg
        elif path == "load_key":
            r = reg.load_key(key.src, key.dst) if isinstance(key, TransformKey) else reg.load_key(*key)
        elif path == "transform":
            r = reg.transform(key, (1.0, -2.0, 0.5))
        elif path == "__setitem__":
            reg[key] = marker
            r = None
        elif path == "__delitem__":
            del reg[key]
            r = None
        elif path == "setdefault":
            r = reg.setdefault(key, marker)
        else:  # pop and anything unknown: the key is the only argument
            r = getattr(reg, path)(key)
        ans = _canon_any(r)
    except Exception as e:  # noqa
        ans = {"err": type(e).__name__}
    return {"ans": ans, "held": _held(reg)}


def _blind(x):
    """the same observation with every exception reduced to "raised" ("rejected" names no class: two spellings that are both
    rejected behave identically whatever the classes)"""
    if isinstance(x, dict):
        return {k: (True if k == "err" else _blind(v)) for k, v in x.items() if k != "key_err"}
    if isinstance(x, list):
        return [_blind(v) for v in x]
    return x


def _held(reg):
    try:
        return sorted([k.src.name, k.dst.name, _canon_any(v)["matrix"][0][3]] for k, v in reg.items())
    except Exception as e:  # noqa
        return {"err": type(e).__name__}


def _run_key_site(case):
    from perception_eval.common.schema import FrameID
    from perception_eval.common.transform import HomogeneousMatrix, TransformDict, TransformKey

    a, b = FrameID[case["src"]], FrameID[case["dst"]]
    other = next(m for m in FrameID.__members__.values() if m not in (a, b))
    sp = case["spelling"]

    def registry():
        ms = [HomogeneousMatrix((4.0, 0.0, -1.0), (0.0, 1.0, 0.0, 0.0), b, other)]
        if case["registered"]:
            ms.append(HomogeneousMatrix((1.0, 2.0, 3.0), (0.6, 0.0, 0.0, 0.8), a, b))
        return TransformDict(ms)

    marker = HomogeneousMatrix((7.0, 7.0, 7.0), (1.0, 0.0, 0.0, 0.0), a, b)

    def spelled():
        if sp == "bad":
            ks, kd = (a.value + "_x", b) if case.get("bad_side", 0) == 0 else (a, b.value + "_x")
        else:
            ks, kd = _arg(a, sp, 0), _arg(b, sp, 1)
        return TransformKey(ks, kd) if case["form"] == "key" else [ks, kd] if case["form"] == "list" else (ks, kd)

    def guarded(mk):
        try:
            key = mk()
        except Exception as e:  # noqa  (a TransformKey cannot be made of a name that is no frame)
            return {"ans": {"err": type(e).__name__}, "held": None, "key_err": True}
        return _call_path(registry(), case["path"], key, marker)

    got = guarded(spelled)
    ref = guarded(lambda: TransformKey(a, b))
    ans = got["ans"]
    same = _blind(got) == _blind(ref)
    return {"same": same, "spelled": got, "member": ref if not same else None,
            "src": ans.get("src"), "dst": ans.get("dst"), "err_kind": ans.get("err"),
            "positive": bool("matrix" in ans or "key" in ans or "array" in ans or ans.get("value") not in (None, False)
                             or (got["held"] is not None and got["held"] != _held(registry()))),
            # a method the harness does not know how to drive is called with the key as its only argument; this says something
            # about "both spellings" only when the call with TransformKey(member, member) went through AND the key under test
            # is itself a TransformKey (then any difference comes from TransformKey's own parsing); otherwise: not driven
            "signature_unknown": case["path"] not in KEY_PATHS and ("err" in ref["ans"] or case["form"] != "key")}


# ---- parse sites that take several strings ------------------------------------------------------------------------
TASKS_3D = ("detection", "tracking", "prediction", "sensing", "fp_validation")
PRINTED_IS_VALUE = ("task", "set_task", "frame", "visibility", "sensor", "shape_type")  # enums whose __str__ prints the value
HASH_JUDGED = ()  # recorded only: "usable as dict key" is not stated by the property (what C20-N1 needs is judged by task_dict)
HASH_ENUMS = ("task", "frame", "shape_type", "visibility", "sensor", "policy")
_TMP = []


def _hash_enum(name):
    return _enums()[name][0]


def _run_hashable(case):
    """recorded only (histogram): nothing here is judged"""
    cls = _hash_enum(case["enum"])
    m = cls.__members__[case["member"]]
    out = {"has_str_eq": bool(m == m.value)}
    try:
        hash(m)
        out["hashable"] = True
    except Exception:  # noqa
        out["hashable"] = False
        return out
    d = {m: 1}
    others = [x for x in cls.__members__.values() if x is not m]
    out["as_key"] = bool(d[m] == 1 and m in d and m in {m} and all(x not in d for x in others))
    out["hash_stable"] = hash(m) == hash(cls.__members__[case["member"]])
    try:
        out["by_value"] = bool(d[m.value] == 1 and m.value in d)
    except Exception:  # noqa
        out["by_value"] = False
    out["all_distinct"] = len({x for x in cls.__members__.values()}) == len(cls.__members__)
    return out


def _tmpdir():
    import tempfile

    if not _TMP:
        import atexit
        import shutil

        _TMP.append(tempfile.mkdtemp(prefix="c20_"))
        atexit.register(shutil.rmtree, _TMP[0], True)
    return _TMP[0]


def _config_cls(name):
    from perception_eval.config import PerceptionEvaluationConfig, SensingEvaluationConfig

    return PerceptionEvaluationConfig if name == "perception" else SensingEvaluationConfig


def _config_dict(case):
    if case["cls"] == "sensing":
        return {"evaluation_task": case["task"], "target_uuids": None, "box_scale_0m": 1.0, "box_scale_100m": 1.0,
                "min_points_threshold": 1}
    d = {"evaluation_task": case["task"], "target_labels": ["car", "bicycle"], "label_prefix": "autoware",
         "max_x_position": 100.0, "max_y_position": 100.0, "min_point_numbers": [0, 0],
         "center_distance_thresholds": [1.0], "plane_distance_thresholds": [2.0], "iou_2d_thresholds": [0.5],
         "iou_3d_thresholds": [0.5]}
    if case.get("policy") is not None:
        d["matching_label_policy"] = case["policy"]
    return d


def _construct(cls_name, frame_id, cfg):
    """the constructor call of the harness (keywords as documented; the sample data directory as the dataset path: nothing is
    loaded by a config, and an empty list would make the cases depend on whether empty datasets are accepted)"""
    from .. import core

    return _config_cls(cls_name)(
        # (a config loads nothing: the directory only has to be a plausible path, it is not required to exist)
        dataset_paths=[str(core.REPO / "perception_eval" / "test" / "sample_data")], frame_id=frame_id,
        result_root_directory=_tmpdir(), evaluation_config_dict=cfg,
    )


_SUPPORT = {}


def _support(cls_name):
    """the supported task strings of a config class, read through the PUBLIC property `support_tasks` of a reference instance
    built with strings known to be valid.  Set-up: if the reference construction fails, the harness's minimal config is no
    longer a valid one (infrastructure error, raised), whatever the strings under test would have done.  None when the public
    property is gone (the observation is dropped: histogram `unobservable:support_tasks`)."""
    if cls_name not in _SUPPORT:
        ref_case = {"cls": cls_name, "task": "sensing" if cls_name == "sensing" else "detection", "policy": None}
        inst = _construct(cls_name, "base_link", _config_dict(ref_case))
        st = getattr(inst, "support_tasks", None)
        _SUPPORT[cls_name] = None if st is None else [str(getattr(t, "value", t)) for t in st]
    return _SUPPORT[cls_name]


def _run_config_site(case):
    from perception_eval.common.evaluation_task import EvaluationTask
    from perception_eval.common.schema import FrameID
    from perception_eval.evaluation.matching.object_matching import MatchingLabelPolicy

    fid = case["frame_id"]
    arg = fid if isinstance(fid, str) else (tuple(fid) if case.get("as_tuple") else list(fid))
    out = {"support": _support(case["cls"])}
    cfg = _config_dict(case)
    try:
        c = _construct(case["cls"], arg, cfg)
    except Exception as e:  # noqa  (the call under test: the strings are parsed by the constructor)
        out["err"] = type(e).__name__
        return out
    t, pol = c.evaluation_task, getattr(c, "label_params", {}).get("matching_label_policy")
    out.update({"task": t.name if isinstance(t, EvaluationTask) else repr(t),
                "frames": [f.name if isinstance(f, FrameID) else repr(f) for f in c.frame_ids],
                "policy": pol.name if isinstance(pol, MatchingLabelPolicy) else None if pol is None else repr(pol)})
    return out


def _mixture(rng, values, n):
    """n strings: member values, their spellings, random strings"""
    alphabet = string.ascii_letters + string.digits + "_ -."
    out = []
    for _ in range(n):
        r = rng.random()
        v = rng.choice(values)
        if r < 0.55:
            out.append(v)
        elif r < 0.8:
            out.append(rng.choice(_spellings(v)[1:]))
        else:
            out.append("".join(rng.choice(alphabet) for _ in range(rng.randint(0, 10))))
    return out


def _multi_cases(rng, tier):
    from perception_eval.common.evaluation_task import EvaluationTask
    from perception_eval.common.schema import FrameID

    vals = [m.value for m in EvaluationTask.__members__.values()]
    names = list(EvaluationTask.__members__)
    lists = [[], list(vals), list(reversed(vals)), vals + vals, [v for v in vals for _ in (0, 1)], list(names),
             [v.upper() for v in vals], ["", " "], vals[:3] + ["nope"] + vals[3:]]
    for v in vals:
        lists += [[s] for s in _spellings(v)] + [[v, v], [v, "x", v]]
        lists.append([w for w in vals if w != v])
    for _ in range(6 if tier == "quick" else 60):
        lists.append(rng.sample(vals, len(vals)))
    for _ in range(300 if tier == "quick" else 3000):
        lists.append(_mixture(rng, vals, rng.randint(0, 7)))
    cases = []
    for l in lists:
        cases.append({"kind": "task_list", "items": list(l)})
        cases.append({"kind": "task_dict", "keys": list(dict.fromkeys(l))})
    # the printed form of every member through its parser
    for parser, (cls, _) in _enums().items():
        for m in cls.__members__:
            for how in ("str", "format", "percent"):
                cases.append({"kind": "printed", "parser": parser, "member": m, "how": how})
    # members as dict / set keys (their __eq__ also answers for strings)
    for en in HASH_ENUMS:
        for m in _hash_enum(en).__members__:
            cases.append({"kind": "hashable", "enum": en, "member": m})
    # an arbitrary task string at the string-or-enum call sites
    for v in vals:
        for sp in _spellings(v) + [v.upper().lower()]:
            for site in ("label_converter", "frame_from_task"):
                cases.append({"kind": "task_site_str", "site": site, "s": sp, "prefix": rng.choice(("autoware", "traffic_light"))})
    # the config constructors: task string, frame_id (one string / a sequence), policy string
    frames = [m.value for m in FrameID.__members__.values()]
    pols = [None, "default", "ALLOW_UNKNOWN", "allow_any", "Allow_Any", "nope", "ALLOW ANY", ""]
    for cls_name in ("perception", "sensing"):
        for v in vals:
            for sp in [v, v.upper(), v.title(), v + " ", v[:-1]]:
                cases.append({"kind": "config_site", "cls": cls_name, "task": sp, "frame_id": "base_link",
                              "policy": rng.choice(pols) if cls_name == "perception" else None})
    for f in frames:
        for fid in (f, f.upper(), f.title(), f + "_x", [f], [f.upper()], [f, rng.choice(frames)], (f,)):
            for task in ("detection", "classification2d"):
                cases.append({"kind": "config_site", "cls": "perception", "task": task, "frame_id": list(fid) if not isinstance(fid, str) else fid,
                              "as_tuple": isinstance(fid, tuple), "policy": None})
        cases.append({"kind": "config_site", "cls": "sensing", "task": "sensing", "frame_id": rng.choice([f, f.upper(), [f], f[:-1]]), "policy": None})
    for p in pols:
        for task in ("detection", "tracking2d", "fp_validation"):
            cases.append({"kind": "config_site", "cls": "perception", "task": task, "frame_id": "base_link", "policy": p})
    for _ in range(150 if tier == "quick" else 1500):
        n = rng.randint(0, 4)
        fid = [rng.choice(frames) for _ in range(n)]
        fid = [rng.choice([x, x.upper()]) for x in fid]
        if fid and rng.random() < 0.4:
            i = rng.randrange(len(fid))
            fid[i] = rng.choice([fid[i] + "_x", fid[i][:-1], "", "cam", " " + fid[i]])
        cases.append({"kind": "config_site", "cls": "perception", "task": rng.choice([v for v in vals if v != "sensing"]), "frame_id": fid,
                      "as_tuple": rng.random() < 0.3, "policy": rng.choice(pols)})
    return cases


def corpus():
    cs = []
    # F12 (fixed): the four parsers that returned names / an unparsable value
    cs.append({"kind": "parse", "parser": "frame", "s": "RADAR_BACK"})
    cs.append({"kind": "parse", "parser": "frame", "s": "radar_back"})
    for p, s in [("visibility", "full"), ("sensor", "lidar"), ("shape_type", "bounding_box"), ("sensor", "sonar")]:
        cs.append({"kind": "parse", "parser": p, "s": s})
    cs.append({"kind": "shape_arg", "member": "BOUNDING_BOX", "spelling": "str"})
    # the docstring examples of the list / dict parsers, a dropped non-member, the config constructors
    cs.append({"kind": "task_list", "items": ["detection", "tracking"]})
    cs.append({"kind": "task_dict", "keys": ["detection"]})  # FIXED finding (a41526b): the docstring example raised TypeError
    cs.append({"kind": "task_dict", "keys": ["detection", "tracking", "prediction", "sensing", "detection2d", "tracking2d",
                                            "classification2d", "fp_validation", "fp_validation2d"]})  # every member as key
    cs.append({"kind": "hashable", "enum": "task", "member": "DETECTION"})
    cs.append({"kind": "task_list", "items": ["detection", "Detection", "x", "tracking", "detection"]})
    cs.append({"kind": "task_dict", "keys": ["foo", "bar"]})
    cs.append({"kind": "config_site", "cls": "perception", "task": "classification2d", "frame_id": ["cam_front", "CAM_BACK"], "policy": "allow_any"})
    cs.append({"kind": "config_site", "cls": "perception", "task": "detection", "frame_id": "BASE_LINK", "policy": None})
    cs.append({"kind": "config_site", "cls": "sensing", "task": "sensing", "frame_id": "base_link", "policy": None})
    cs.append({"kind": "printed", "parser": "frame", "member": "CAM_TRAFFIC_LIGHT", "how": "str"})
    # value level: F12 (Shape('bounding_box', size) raised; .type was the name string), seed C20_G (string + explicit footprint)
    cs.append({"kind": "shape_init", "member": "BOUNDING_BOX", "spelling": "str", "footprint": "none"})
    cs.append({"kind": "shape_init", "member": "POLYGON", "spelling": "str", "footprint": "polygon"})
    cs.append({"kind": "shape_init", "member": "POLYGON", "spelling": "bad", "footprint": "polygon"})
    cs.append({"kind": "from_task", "task": "TRACKING", "spelling": "str"})
    cs.append({"kind": "from_task", "task": "DETECTION2D", "spelling": "member"})
    return cs


def generate(rng, tier):
    E = _enums()
    cases = []
    for parser, (cls, _) in E.items():
        for m in cls.__members__.values():
            for s in _spellings(m.value):
                cases.append({"kind": "parse", "parser": parser, "s": s})
            cases.append({"kind": "parse", "parser": parser, "s": m.name})
    for a in list(ALIASES) + ["v0-41", "V0-40", ""]:
        cases.append({"kind": "parse", "parser": "visibility", "s": a})
    n_rand = 500 if tier == "quick" else 5000
    alphabet = string.ascii_letters + string.digits + "_ -."
    for _ in range(n_rand):
        parser = rng.choice(list(E))
        s = "".join(rng.choice(alphabet) for _ in range(rng.randint(0, 12)))
        cases.append({"kind": "parse", "parser": parser, "s": s})
    from perception_eval.common.schema import FrameID
    from perception_eval.common.shape import ShapeType

    for m in ShapeType.__members__.values():
        for sp in ("str", "upper", "member"):
            cases.append({"kind": "shape_arg", "member": m.name, "spelling": sp})
    fr = list(FrameID.__members__.values())
    for a in fr:
        for b in fr if tier == "thorough" else rng.sample(fr, 4):
            for sp in ("str", "upper", "member", "mixed"):
                cases.append({"kind": "transform_key", "src": a.name, "dst": b.name, "spelling": sp})
    cases.append({"kind": "transform_key", "src": "MAP", "dst": "NOPE", "spelling": "bad"})
    # every key-taking access path of the registry, every frame as source, all spellings, key as pair / list / TransformKey
    paths = _key_paths()
    for a in fr:
        for b in fr if tier == "thorough" else rng.sample(fr, 3):
            if a is b:
                continue
            for path in paths:
                for sp in ("str", "upper", "member", "mixed"):
                    for form in KEY_FORMS if tier == "thorough" else [rng.choice(KEY_FORMS)]:
                        cases.append({"kind": "key_site", "path": path, "src": a.name, "dst": b.name, "spelling": sp, "form": form,
                                      "registered": rng.random() < 0.7})
                cases.append({"kind": "key_site", "path": path, "src": a.name, "dst": b.name, "spelling": "bad", "form": rng.choice(KEY_FORMS),
                              "bad_side": rng.randrange(2), "registered": rng.random() < 0.7})
    # further string-or-enum call sites: the evaluation task of LabelConverter and of FrameID.from_task
    from perception_eval.common.evaluation_task import EvaluationTask

    for t in EvaluationTask.__members__:
        for prefix in ("autoware", "traffic_light"):
            for merge in (False, True):
                cases.append({"kind": "task_site", "site": "label_converter", "task": t, "prefix": prefix, "merge": merge})
        cases.append({"kind": "task_site", "site": "frame_from_task", "task": t})
    cases += _multi_cases(rng, tier)
    cases += _value_cases()
    return cases


SHAPE_SPELLINGS = ("str", "member", "upper", "title", "name", "bad")
FOOTPRINTS = ("none", "polygon", "empty")
FROM_TASK_SPELLINGS = ("str", "member", "upper", "title", "name", "space", "cut")


def _value_cases():
    """what the string-or-enum objects HOLD / return, by kind of value (exhaustive over members x spellings)"""
    from perception_eval.common.evaluation_task import EvaluationTask
    from perception_eval.common.shape import ShapeType

    cases = []
    for m in ShapeType.__members__:
        for sp in SHAPE_SPELLINGS:
            for fp in FOOTPRINTS:
                cases.append({"kind": "shape_init", "member": m, "spelling": sp, "footprint": fp})
    for t in EvaluationTask.__members__:
        for sp in FROM_TASK_SPELLINGS:
            cases.append({"kind": "from_task", "task": t, "spelling": sp})
    return cases


def _spelled(member, spelling):
    """the argument for a string-or-enum parameter: the member, its value, or a string near the value"""
    v = member.value
    return {"member": member, "str": v, "upper": v.upper(), "title": v.title(), "name": member.name, "space": v + " ",
            "cut": v[:-1], "bad": v + "_x"}[spelling]


def _ret(r, cls=None):
    """canonical form of a returned / stored object BY KIND: a member (of which enum class; it must be that class's own member
    object of that name, and of `cls` when the class is prescribed), a str, None, anything else"""
    from enum import Enum

    if isinstance(r, Enum):
        own = type(r).__members__.get(r.name) is r and (cls is None or type(r) is cls)
        return {"kind": "member", "enum": type(r).__name__, "name": r.name} if own else {"kind": "other", "repr": repr(r)}
    if isinstance(r, str):
        return {"kind": "str", "s": str(r)}
    if r is None:
        return {"kind": "none"}
    return {"kind": "other", "repr": repr(r)}


def _arg_json(a):
    """the same argument for the model"""
    r = _ret(a)
    return {"str": r["s"]} if r["kind"] == "str" else {"member": r["name"], "enum": r["enum"]} if r["kind"] == "member" else {"none": True}


def _ret_cmp(got, want, what, none_is_rejection=False):
    """got: `_ret` of the real object or {'err': kind}; want: the driver's answer in the same form"""
    if none_is_rejection:
        got = {"err": True} if (got or {}).get("kind") == "none" else got
        want = {"err": True} if (want or {}).get("kind") == "none" else want
    g = {k: v for k, v in (got or {}).items() if k in ("kind", "enum", "name", "s", "err")}
    w = {k: v for k, v in (want or {}).items() if k in ("kind", "enum", "name", "s", "err")}
    if "err" in g or "err" in w:
        # raised vs returned; the CLASS of the exception is not compared (the property says "rejected")
        return None if ("err" in g and "err" in w) else f"{what}: impl {got} != model {w}"
    return None if g == w else f"{what}: impl {got} != model {w}"


def _canon(cls, r):
    if isinstance(r, cls):
        return {"member": r.name, "ret": _ret(r, cls)}
    if r is None:
        return {"none": True, "ret": _ret(r)}
    return {"other": repr(r), "ret": _ret(r)}


def _footprint(which):
    from shapely.geometry import Polygon

    return None if which == "none" else Polygon() if which == "empty" else Polygon([(1, 1), (-1, 1), (-1, -1), (1, -1)])


def _run_shape_init(case):
    from perception_eval.common.shape import Shape, ShapeType

    m = ShapeType[case["member"]]

    def build(arg):
        try:
            s = Shape(arg, (2.0, 4.0, 1.5), _footprint(case["footprint"]))
        except Exception as e:  # noqa
            return {"err": type(e).__name__}
        fp = s.footprint
        return {"type": _ret(s.type), "size": list(s.size), "footprint": None if fp is None else [list(map(float, c)) for c in fp.exterior.coords]}

    got, ref = build(_spelled(m, case["spelling"])), build(m)
    return {"got": got, "ref": ref, "same": _blind(got) == _blind(ref), "arg": _arg_json(_spelled(m, case["spelling"]))}


def _run_from_task(case):
    from perception_eval.common.evaluation_task import EvaluationTask
    from perception_eval.common.schema import FrameID

    t = EvaluationTask[case["task"]]

    def call(arg):
        try:
            return _ret(FrameID.from_task(arg), FrameID)
        except Exception as e:  # noqa
            return {"err": type(e).__name__}

    got, ref = call(_spelled(t, case["spelling"])), call(t)
    return {"got": got, "ref": ref, "same": _blind(got) == _blind(ref), "arg": _arg_json(_spelled(t, case["spelling"]))}


def _arg(member, spelling, side=0):
    """the argument handed to a string-or-enum call site"""
    if spelling == "member" or (spelling == "mixed" and side == 1):
        return member
    if spelling == "upper":
        return member.value.upper()
    return member.value


def _lib(fn, *a, **k):
    """ONE call into the library that the property is about: (result, None) or (None, kind of the exception).  Everything
    around it (building arguments, reading the answer) is harness code whose exceptions propagate."""
    try:
        return fn(*a, **k), None
    except Exception as e:  # noqa
        return None, type(e).__name__


def run_impl(case):
    from perception_eval.common.schema import FrameID
    from perception_eval.common.shape import Shape, ShapeType
    from perception_eval.common.transform import HomogeneousMatrix, TransformKey

    k = case["kind"]
    if k == "parse":
        cls, fn = _enums()[case["parser"]]
        r, err = _lib(fn, case["s"])
        return {"err": err} if err else _canon(cls, r)
    if k == "shape_arg":
        m = ShapeType[case["member"]]
        if m != ShapeType.BOUNDING_BOX:
            from shapely.geometry import Polygon

            fp = Polygon([(1, 1), (-1, 1), (-1, -1), (1, -1)])
        else:
            fp = None
        s1, err = _lib(Shape, _arg(m, case["spelling"]), (2.0, 4.0, 1.5), fp)
        if err:
            return {"err": err}
        s2 = Shape(m, (2.0, 4.0, 1.5), fp)
        return {"member": s1.type.name if isinstance(s1.type, ShapeType) else None, "other": repr(s1.type),
                "same": bool(s1.type is s2.type and tuple(s1.size) == tuple(s2.size) and s1.footprint.equals(s2.footprint))}
    if k == "transform_key":
        if case["spelling"] == "bad":
            _, err = _lib(TransformKey, "map", "nope")
            return {"err": err} if err else {"member": None}
        a, b = FrameID[case["src"]], FrameID[case["dst"]]
        k1, err = _lib(TransformKey, _arg(a, case["spelling"], 0), _arg(b, case["spelling"], 1))
        if err:
            return {"err": err}
        h, err = _lib(HomogeneousMatrix, (1.0, 2.0, 3.0), (1.0, 0.0, 0.0, 0.0), _arg(a, case["spelling"], 0), _arg(b, case["spelling"], 1))
        if err:
            return {"err": err}
        k2 = TransformKey(a, b)
        # "behave identically for both spellings": equal, equal hash (a key of registries), and what the objects HOLD is the member
        ok = k1 == k2 and hash(k1) == hash(k2) and k1.src is a and k1.dst is b and h.src is a and h.dst is b
        return {"src": k1.src.name if isinstance(k1.src, FrameID) else None,
                "dst": k1.dst.name if isinstance(k1.dst, FrameID) else None, "same": bool(ok),
                "src_ret": _ret(k1.src), "dst_ret": _ret(k1.dst), "h_src_ret": _ret(h.src), "h_dst_ret": _ret(h.dst)}
    if k == "key_site":
        return _run_key_site(case)
    if k == "shape_init":
        return _run_shape_init(case)
    if k == "from_task":
        return _run_from_task(case)
    if k == "task_site":
        from perception_eval.common.evaluation_task import EvaluationTask
        from perception_eval.common.label import LabelConverter

        t = EvaluationTask[case["task"]]

        def run(arg):
            if case["site"] == "label_converter":
                c, err = _lib(LabelConverter, arg, case["merge"], case["prefix"])
                if err:
                    return {"err": err}
                return [[li.label.name, li.name] for li in c.label_infos] + [c.evaluation_task.name]
            r, err = _lib(FrameID.from_task, arg)
            return {"err": err} if err else r.name

        a, b = run(t.value), run(t)
        # "rejected" is not a class name: two rejections are the same behaviour
        same = a == b or (isinstance(a, dict) and isinstance(b, dict))
        return {"same": same, "str": a if not same else None, "enum": b if not same else None}
    if k == "task_list":
        from perception_eval.common.evaluation_task import EvaluationTask, set_task_lists

        items = list(case["items"])
        r, err = _lib(set_task_lists, items)
        if err:
            return {"err": err}
        r = list(r)
        return {"members": [m.name if isinstance(m, EvaluationTask) else repr(m) for m in r],
                "input_kept": items == case["items"], "rets": [_ret(m) for m in r]}
    if k == "task_dict":
        from perception_eval.common.evaluation_task import EvaluationTask, set_task_dict

        d = {key: {"i": i} for i, key in enumerate(case["keys"])}
        r, err = _lib(set_task_dict, d)
        if err:
            return {"err": err}
        no = lambda v: v.get("i") if isinstance(v, dict) else None  # which item (by value: a copy of the item is the item)
        pairs = list(r.items())
        return {"items": [[m.name if isinstance(m, EvaluationTask) else repr(m), no(v)] for m, v in pairs],
                "input_kept": list(d) == list(case["keys"]), "rets": [[_ret(m), no(v)] for m, v in pairs]}
    if k == "printed":
        cls, fn = _enums()[case["parser"]]
        m = cls.__members__[case["member"]]
        text = str(m) if case["how"] == "str" else format(m) if case["how"] == "format" else "%s" % (m,)
        out = {"text": text}
        r, err = _lib(fn, text)
        if err:
            out["err"] = err
        else:
            out.update(_canon(cls, r))
        return out
    if k == "task_site_str":
        from perception_eval.common.evaluation_task import EvaluationTask
        from perception_eval.common.label import LabelConverter

        if case["site"] == "label_converter":
            c, err = _lib(LabelConverter, case["s"], False, case["prefix"])
            return {"err": err} if err else _canon(EvaluationTask, c.evaluation_task)
        r, err = _lib(FrameID.from_task, case["s"])
        return {"err": err} if err else {"frame": r.name if isinstance(r, FrameID) else repr(r)}
    if k == "config_site":
        return _run_config_site(case)
    if k == "hashable":
        return _run_hashable(case)
    raise ValueError(k)


def model_requests(case, out):
    k = case["kind"]
    if k == "task_site":
        return []
    if k == "parse":
        return [{"op": "parse", "parser": case["parser"], "s": case["s"]}, {"op": "parse_v", "parser": case["parser"], "s": case["s"]}]
    if k == "task_list":
        return [{"op": "task_list", "items": case["items"]}, {"op": "task_list_v", "items": case["items"]}]
    if k == "task_dict":
        return [{"op": "task_dict", "keys": case["keys"]}, {"op": "task_dict_v", "keys": case["keys"]}]
    if k == "printed":
        return [{"op": "parse", "parser": case["parser"], "s": out["text"]},
                {"op": "parse_v", "parser": case["parser"], "s": out["text"]}] if "text" in out else []
    if k == "shape_init":
        return [{"op": "shape_init", "arg": out["arg"], "footprint": case["footprint"] == "polygon"}] if "arg" in out else []
    if k == "from_task":
        return [{"op": "frame_from_task", "arg": out["arg"]}] if "arg" in out else []
    if k == "task_site_str":
        return [{"op": "parse", "parser": "task", "s": case["s"]}]
    if k == "config_site":
        support = out.get("support")
        if support is None:
            return []  # `support_tasks` unobservable in this run
        reqs = [{"op": "check_task", "support": support, "s": case["task"]}, {"op": "frame_ids", "arg": case["frame_id"]}]
        if case["cls"] == "perception" and case.get("policy"):
            reqs.append({"op": "parse", "parser": "policy", "s": case["policy"]})
        return reqs
    from perception_eval.common.schema import FrameID
    from perception_eval.common.shape import ShapeType

    def marg(member, spelling, side=0):
        a = _arg(member, spelling, side)
        return {"member": a.name} if not isinstance(a, str) else {"str": a}

    if k == "shape_arg":
        return [{"op": "shape_arg", "arg": marg(ShapeType[case["member"]], case["spelling"])}]
    if k == "key_site":
        a, b = FrameID[case["src"]], FrameID[case["dst"]]
        if case["spelling"] == "bad":
            src, dst = ({"str": a.value + "_x"}, {"member": b.name}) if case.get("bad_side", 0) == 0 else ({"member": a.name}, {"str": b.value + "_x"})
            return [{"op": "transform_key", "src": src, "dst": dst}]
        return [{"op": "transform_key", "src": marg(a, case["spelling"], 0), "dst": marg(b, case["spelling"], 1)}]
    if k == "transform_key":
        if case["spelling"] == "bad":
            return [{"op": "transform_key", "src": {"str": "map"}, "dst": {"str": "nope"}}]
        a, b = marg(FrameID[case["src"]], case["spelling"], 0), marg(FrameID[case["dst"]], case["spelling"], 1)
        for x in (a, b):
            if "member" in x:
                x["enum"] = "FrameID"  # read by the value-level op only
        return [{"op": "transform_key", "src": a, "dst": b}, {"op": "transform_key_v", "src": a, "dst": b}]
    return []


def _config_expect(case, resps):
    """what the constructor answers according to the model: rejected if any of its strings is rejected (which of several
    independent checks fires first, and with which class, is not compared), else the members"""
    t, fr = resps[0], resps[1]
    pol = resps[2] if len(resps) > 2 else None
    if "none" in t and "err" not in t:
        return None  # a supported name that is no member value: not produced by the live classes
    if "err" in t or (pol is not None and "err" in pol) or "err" in fr:
        return {"err": True}
    return {"task": t["member"], "frames": sorted(set(fr["members"])),
            "policy": None if case["cls"] == "sensing" else pol["member"] if pol is not None else "DEFAULT"}


def _canon3(x, none_is_rejection=False):
    """member / none / rejected (any exception) / other"""
    if "err" in x:
        return {"rejected": True}
    if "none" in x:
        return {"rejected": True} if none_is_rejection else {"none": True}
    if "member" in x:
        return {"member": x["member"]}
    return {"other": x.get("other")}


def _uniq(rows):
    """a collection whose order and multiplicity the property leaves open: sorted, every element once"""
    import json

    return sorted({json.dumps(r, sort_keys=True) for r in rows})


def compare(case, out, resps):
    """Raised vs returned, and the returned values.  The CLASS of an exception is nowhere compared: the property says "rejected"
    (`observe_at` names no class), so `assert` -> `raise ValueError`, a subclass, or another order of independent checks agree
    with the model.  Collections the property does not order (set_task_lists / set_task_dict answers, the frame ids of a
    config) are compared as sets."""
    r = resps[0]
    k = case["kind"]
    if k == "task_list":
        if "err" in out:
            return f"impl raised {out['err']}, model {r}"
        if _uniq(out.get("members") or []) != _uniq(r.get("members") or []):
            return f"impl {out.get('members')} != model {r.get('members')} (as sets)"
        return None if _uniq(out.get("rets") or []) == _uniq(resps[1].get("members") or []) else (
            f"by kind: impl {out.get('rets')} != model {resps[1].get('members')} (as sets)")
    if k == "task_dict":
        if "err" in out:
            return f"impl raised {out['err']}, model {r}"
        if _uniq(out.get("items") or []) != _uniq(r.get("items") or []):
            return f"impl {out.get('items')} != model {r.get('items')} (as sets)"
        return None if _uniq(out.get("rets") or []) == _uniq(resps[1].get("items") or []) else (
            f"by kind: impl {out.get('rets')} != model {resps[1].get('items')} (as sets)")
    if k in ("shape_init", "from_task"):
        got = out.get("got") or {"err": out.get("err")}
        return _ret_cmp(got.get("type", got), r, "Shape.type" if k == "shape_init" else "FrameID.from_task")
    if k in ("printed", "task_site_str", "parse"):
        if k == "task_site_str" and case["site"] == "frame_from_task":
            return None if ("err" in r) <= ("err" in out) else f"from_task({case['s']!r}) answered {out}, the model rejects the string"
        if k == "parse" and "other" in out:
            return f"implementation returned a non-member {out['other']}, model {r}"
        # set_task has no documented fallback: returning None and raising are both its rejection (see ASSUMPTIONS)
        lenient = case.get("parser") == "set_task"
        a, b = _canon3(out, lenient), _canon3(r, lenient)
        if a != b:
            return f"impl {a} != model {b}"
        if k in ("printed", "parse") and len(resps) > 1:
            # the KIND of the returned object (member of which class / str / None) against the value-level model
            return _ret_cmp(out.get("ret") or {"err": out.get("err")}, resps[1], "by kind", lenient)
        return None
    if k == "config_site":
        fl = [case["frame_id"]] if isinstance(case["frame_id"], str) else list(case["frame_id"])
        if case["task"] == "prediction" or (case["task"] in TASKS_3D and len(fl) != 1):
            return "skip"  # rejected (or not) for reasons outside this property, see ASSUMPTIONS
        want = _config_expect(case, resps)
        if want is None:
            return None
        got = {"err": True} if "err" in out else {"task": out.get("task"), "frames": sorted(set(out.get("frames") or [])), "policy": out.get("policy")}
        if not case.get("policy") and "policy" in want and "policy" in got:
            want["policy"] = got["policy"]  # no policy string given: the class's default is not a parsing question
        return None if got == want else f"config: impl {got} != model {want}"
    if k == "shape_arg":
        if "err" in out or "err" in r:
            return None if ("err" in out) == ("err" in r) else f"impl {out} != model {r}"
        return None if out.get("member") == r.get("member") else f"impl {out} != model {r}"
    if k == "transform_key":
        if "err" in out or "err" in r:
            return None if ("err" in out) == ("err" in r) else f"impl {out} != model {r}"
        if (out.get("src"), out.get("dst")) != (r.get("src"), r.get("dst")):
            return f"impl {out} != model {r}"
        if len(resps) > 1:
            v = resps[1]
            if "err" in v:
                return f"impl {out} != value-level model {v}"
            for side in ("src", "dst"):
                for held in (out.get(side + "_ret"), out.get("h_" + side + "_ret")):
                    d = _ret_cmp(held, v.get(side), f"TransformKey / HomogeneousMatrix .{side}")
                    if d:
                        return d
        return None
    if k == "key_site":
        # the model knows how the key is read: the pair of members, or a rejection before anything is looked up
        if out.get("signature_unknown"):
            return None
        if "err" in r:
            if case["path"] in KEY_PATHS and not out.get("err_kind"):
                return f"{case['path']}: the key is rejected by the model, impl {out['spelled']}"
            return None
        if out.get("src") is not None and (out.get("src"), out.get("dst")) != (r.get("src"), r.get("dst")):
            return f"{case['path']}: impl answered for {out.get('src')}->{out.get('dst')}, the key names {r.get('src')}->{r.get('dst')}"
        return None


def _spelled_text(case):
    e = _enums()["shape_type" if case["kind"] == "shape_init" else "task"][0]
    m = e.__members__[case.get("member") or case.get("task")]
    a = _spelled(m, case["spelling"])
    return f"{type(m).__name__}.{m.name}" if a is m else repr(a)


def _names_member(case):
    e = _enums()["shape_type" if case["kind"] == "shape_init" else "task"][0]
    a = _spelled(e.__members__[case.get("member") or case.get("task")], case["spelling"])
    return isinstance(a, str) and any(a == m.value for m in e.__members__.values())


def model_selftest(tier="quick"):
    """NOT part of the check.  Drives the DEFECTIVE variants of the value-level model (F12 parsers, Shape of seed C20_G and on
    the F12 parser, TransformKey of seeds C20_B / C20_J, from_task without the conversion) through the same comparison as the
    real model and returns, per variant, how many cases the comparison rejects (each must be > 0: the correspondence tells a
    member from its name string) -- and 0 for the model as it is."""
    import random

    import core

    rng = random.Random(0)
    cases = corpus() + generate(rng, tier)
    outs = [run_impl(c) for c in cases]
    report = {}
    variants = {"": None, "F12": ("parse_v", "shape_init"), "G": ("shape_init",), "B": ("transform_key_v",), "J": ("transform_key_v",),
                "noconv": ("frame_from_task",)}
    for variant, ops in variants.items():
        reqs, spans = [], []
        for c, o in zip(cases, outs):
            rs = [dict(r) for r in (model_requests(c, o) or [])]
            for r in rs:
                if ops and r["op"] in ops:
                    r["variant"] = variant
            spans.append((len(reqs), len(reqs) + len(rs)))
            reqs.extend(rs)
        resps = core.run_model(PROP, reqs)
        bad = 0
        first = None
        for c, o, (a, b) in zip(cases, outs, spans):
            if b > a and compare(c, o, resps[a:b]):
                bad += 1
                first = first or (c, compare(c, o, resps[a:b]))
        report[variant or "model"] = {"rejected": bad, "first": first}
    return report


def _task_values():
    from perception_eval.common.evaluation_task import EvaluationTask

    return {m.value: m.name for m in EvaluationTask.__members__.values()}


def _frame_status(x):
    from perception_eval.common.schema import FrameID

    vals = {m.value: m.name for m in FrameID.__members__.values()}
    if x.lower() not in vals:
        return "bad", None
    return ("member" if x in (x.lower(), x.upper()) else "mixed"), vals[x.lower()]


def _policy_status(x):
    from perception_eval.evaluation.matching.object_matching import MatchingLabelPolicy

    if not x:
        return "member", "DEFAULT"  # no policy given: the default (allow_matching_unknown is not set)
    if x.upper() not in MatchingLabelPolicy.__members__:
        return "bad", None
    return ("member" if x in (x.lower(), x.upper()) else "mixed"), x.upper()


def _oracle_multi(case, out):
    k = case["kind"]
    byval = _task_values()
    if k == "task_list":
        items = case["items"]
        known = [byval[s] for s in items if s in byval]
        unknown = [s for s in items if s not in byval]
        if "err" in out:
            return None if unknown else f"set_task_lists({items!r}) raised {out['err']} although every string is a member value"
        got = [m for m in out["members"] if m != "None"]  # a None placeholder would be a rejection too
        # "returns, for every member, that very member when given the member's own string value ... any other string is
        # rejected": WHICH members come back.  Container type, order and multiplicity of the answer are not stated.
        if set(got) != set(known):
            return (f"set_task_lists({items!r}) gave {out['members']}; the member values among the strings name {sorted(set(known))}, "
                    f"the other strings {unknown} name no member")
        return None  # a string that names no member is dropped: a rejection, see ASSUMPTIONS
    if k == "task_dict":
        keys = case["keys"]
        known = [byval[s] for s in keys if s in byval]
        unknown = [s for s in keys if s not in byval]
        if "err" in out:
            # fixed finding C20-N1 (a41526b): the member-value keys must come back as member keys (it raised TypeError:
            # unhashable EvaluationTask).  This is all the property needs of hashability.
            if known:
                return (f"set_task_dict(keys {keys!r}) raised {out['err']}; the keys {[k for k in keys if k in byval]} are member values "
                        f"and must come back as the members {known}")
            return None if unknown else f"set_task_dict(keys {keys!r}) raised {out['err']} although every key is a member value"
        got = [m for m, _ in out["items"]]
        if set(got) != set(known):  # which members are the keys; order / the pairing with the items is not stated
            return (f"set_task_dict(keys {keys!r}) gave the keys {got}; the member values among the keys "
                    f"name {known}, the other keys {unknown} name no member")
        return None
    if k == "printed":
        if out.get("member") == case["member"]:
            return None
        what = f"{case['parser']}({out.get('text')!r}), the printed form ({case['how']}) of {case['member']},"
        if case["parser"] in PRINTED_IS_VALUE:
            return f"{what} should give the member back, got { {x: out[x] for x in out if x != 'text'} }"
        return f"{what} gave another member: {out['member']}" if "member" in out else None  # not judged: no __str__, see ASSUMPTIONS
    if k == "task_site_str":
        s = case["s"]
        if s in byval:
            if case["site"] == "label_converter" and out.get("member") != byval[s]:
                return f"LabelConverter(evaluation_task={s!r}) has task {out}, the string names {byval[s]}"
            return None
        return None if "err" in out else f"{case['site']} accepted the task string {s!r}, which is no member value: {out}"
    if k == "config_site":
        cls = _config_cls(case["cls"])
        fid = case["frame_id"]
        fl = [fid] if isinstance(fid, str) else list(fid)
        what = f"{cls.__name__}(frame_id={fid!r}, evaluation_task={case['task']!r}, matching_label_policy={case.get('policy')!r})"
        support = out.get("support")
        if support is None:
            return None  # which tasks the class supports cannot be read publicly in this run: no claim (`unobservable:support_tasks`)
        st = [("member", byval[case["task"]]) if case["task"] in byval and case["task"] in support else ("bad", None)]
        st += [_frame_status(x) for x in fl]
        if case["cls"] == "perception":
            st.append(_policy_status(case.get("policy")))
        kinds = [a for a, _ in st]
        if "bad" in kinds:
            return None if "err" in out else f"{what} was accepted although a string names no member: {out}"
        if "err" in out:
            if "mixed" in kinds or case["task"] == "prediction" or (case["task"] in TASKS_3D and len(fl) != 1):
                return None
            return f"{what} raised {out['err']} although every string is a member's own value"
        want = {"task": st[0][1], "frames": sorted({b for _, b in st[1:1 + len(fl)]}), "policy": st[-1][1] if case["cls"] == "perception" else None}
        got = {"task": out.get("task"), "frames": sorted(set(out.get("frames") or [])), "policy": out.get("policy")}
        if want["policy"] == "DEFAULT" and not case.get("policy"):
            want["policy"] = got["policy"]  # no policy string given: which member the class defaults to is not a parsing question
        return None if got == want else f"{what} holds {got}, the strings name {want} (frames as a set)"


def oracle(case, out):
    k = case["kind"]
    if out.get("unexpected"):
        # an exception escaped `run_impl` (a runner of the new convention reports it itself): out of the library = the real
        # code failed outside the judged call; otherwise a harness error, which is not a violation
        tr = str(out.get("trace", ""))
        if "perception_eval/perception_eval/" in tr:
            return f"the real code raised {out.get('err')} unexpectedly: {tr[-300:]}"
        raise RuntimeError(f"harness error in run_impl ({out.get('err')}): {tr[-400:]}")
    if k in ("task_list", "task_dict", "printed", "task_site_str", "config_site"):
        return _oracle_multi(case, out)
    if k == "hashable":
        if case["enum"] not in HASH_JUDGED:
            return None  # recorded only: the property does not state hashability (C20-N1 is judged by kind task_dict)
        who = f"{_hash_enum(case['enum']).__name__}.{case['member']}"
        if "err" in out or not out.get("hashable"):
            return f"{who} is not hashable ({out.get('err', 'TypeError')}): it cannot be a dict key (set_task_dict, transform registries)"
        if not (out["as_key"] and out["hash_stable"] and out["all_distinct"]):
            return f"{who} does not work as a dict / set key: {out}"
        if out["has_str_eq"] and not out["by_value"]:
            return f"{who} == its value string but {{member: 1}}[value] fails: __hash__ is inconsistent with the string-aware __eq__: {out}"
        return None
    if k == "parse":
        cls, _ = _enums()[case["parser"]]
        s = case["s"]
        parser = case["parser"]
        byval = {m.value: m for m in cls.__members__.values()}
        expect = None
        if s in byval:
            expect = byval[s].name
        elif parser == "frame" and s.lower() in byval and s in (s.upper(), s.lower()):
            expect = byval[s.lower()].name  # documented: upper case accepted
        elif parser == "policy" and s.upper() in cls.__members__ and s in (s.upper(), s.lower()):
            expect = s.upper()  # from_str: name of a member, any case
        if expect is not None:
            if out.get("member") != expect:
                return f"{parser}({s!r}) should give member {expect}, got {out}"
            return None
        # any other string: rejected, or the documented fallback
        if parser == "visibility":
            want = ALIASES.get(s, "UNAVAILABLE")
            return None if out.get("member") == want else f"Visibility.from_value({s!r}) should fall back to {want}, got {out}"
        if parser == "set_task":
            return None if out.get("none") or "err" in out else f"set_task({s!r}) accepted a non-member: {out}"
        if parser in ("frame", "policy"):
            # mixed-case spellings of a member are accepted by lower()/upper(): not covered by the property either way
            if (parser == "frame" and s.lower() in byval) or (parser == "policy" and s.upper() in cls.__members__):
                return None if out.get("member") or "err" in out else f"{parser}({s!r}) gave {out}"
        return None if "err" in out else f"{parser}({s!r}) is not a member value but was not rejected: {out}"
    if k == "shape_init":
        what = f"Shape({_spelled_text(case)}, size, footprint={case['footprint']})"
        got, ref = out.get("got") or {"err": out.get("err")}, out.get("ref")
        if case["spelling"] in ("str", "member"):
            # both spellings behave identically, and what the object holds is the member
            if not out.get("same"):
                return f"{what} differs from the same call with the member: {got} vs {ref}"
            if "type" in got and got["type"] != {"kind": "member", "enum": "ShapeType", "name": case["member"]}:
                return f"{what}.type holds {got['type']}, not the member ShapeType.{case['member']}"
            return None
        if _names_member(case):
            return None  # the altered spelling happens to be another member's value: judged by that member's own case
        return None if "err" in got else f"{what}: a string that is no shape-type value was accepted: {got}"
    if k == "from_task":
        what = f"FrameID.from_task({_spelled_text(case)})"
        got, ref = out.get("got") or {"err": out.get("err")}, out.get("ref")
        if case["spelling"] in ("str", "member"):
            if not out.get("same"):
                return f"{what} differs from the same call with the member: {got} vs {ref}"
            return None if "err" in got or (got.get("kind"), got.get("enum")) == ("member", "FrameID") else f"{what} returned {got}, no FrameID member"
        if _names_member(case):
            return None
        return None if "err" in got else f"{what}: a string that is no task value was accepted: {got}"
    if k == "shape_arg":
        if case["spelling"] == "upper":
            return None if "err" in out else f"Shape({case['member']} upper-case) accepted: {out}"
        return None if out.get("same") else f"Shape(str) differs from Shape(enum): {out}"
    if k == "transform_key":
        if case["spelling"] == "bad":
            return None if "err" in out else "TransformKey('map','nope') accepted"
        return None if out.get("same") else f"TransformKey/HomogeneousMatrix differ between spellings: {out}"
    if k == "key_site":
        if out.get("signature_unknown"):
            return None
        what = f"TransformDict.{case['path']} with the key ({case['src']}, {case['dst']}) spelled {case['spelling']!r} as {case['form']}"
        if case["spelling"] == "bad":
            return None if not out.get("positive") else f"{what}: a name that is no frame was accepted: {out['spelled']}"
        return None if out.get("same") else f"{what} gives {out['spelled']}, with TransformKey(member, member) {out['member']}"
    if k == "task_site":
        return None if out.get("same") else (f"{case['site']} behaves differently for the task given as string "
                                             f"{case['task'].lower()!r} and as enum member: {out.get('str')} vs {out.get('enum')}")


def branches(case, out):
    k = case["kind"]
    if k == "parse":
        res = "member" if "member" in out else "err" if "err" in out else "none" if "none" in out else "other"
        return [f"parse:{case['parser']}:{res}"]
    if k == "key_site":
        ans = out.get("spelled", {}).get("ans", {})
        res = "err:" + ans["err"] if "err" in ans else "matrix" if "matrix" in ans else "key" if "key" in ans else "array" if "array" in ans else repr(ans.get("value"))
        return [f"key_site:{case['path']}:{case['spelling']}:{res}", f"key_site:form:{case['form']}"] + (
            [f"key_site:undriven:{case['path']}"] if out.get("signature_unknown") else [])
    if k in ("shape_init", "from_task"):
        got = out.get("got") or {"err": out.get("err")}
        res = "err:" + str(got["err"]) if "err" in got else (got.get("type") or got).get("kind")
        return [f"{k}:{case['spelling']}:{case.get('footprint', '-')}:{res}"]
    res = "err:" + out["err"] if "err" in out else "ok"
    if k in ("task_list", "task_dict"):
        byval = _task_values()
        strs = case["items" if k == "task_list" else "keys"]
        known = [s for s in strs if s in byval]
        br = [f"{k}:{res}", f"{k}:n={min(len(strs), 4)}{'+' if len(strs) > 4 else ''}",
              f"{k}:{'empty' if not strs else 'all-members' if len(known) == len(strs) else 'no-member' if not known else 'mixed'}"]
        if len(set(strs)) < len(strs):
            br.append(f"{k}:repetitions")
        if len(known) < len(strs) and "err" not in out:
            br.append(f"{k}:non-member-dropped")
        return br
    if k == "printed":
        got = "member" if out.get("member") == case["member"] else "err" if "err" in out else "other"
        return [f"printed:{case['parser']}:{case['how']}:{got}"] + (
            ["undecided:policy-printed-form"] if case["parser"] not in PRINTED_IS_VALUE and got != "member" else [])
    if k == "task_site_str":
        return [f"task_site_str:{case['site']}:{res}"]
    if k == "hashable":
        return [f"hashable:{case['enum']}:{'yes' if out.get('hashable') else 'no'}"
                + (":by-value" if out.get("by_value") else "") + ("" if case["enum"] in HASH_JUDGED else ":recorded-only")]
    if k == "config_site":
        fid = case["frame_id"]
        form = "str" if isinstance(fid, str) else "empty" if not fid else ("tuple" if case.get("as_tuple") else "list") + (":1" if len(fid) == 1 else ":n")
        return [f"config_site:{case['cls']}:{res}", f"config_site:frame_id:{form}:{'err' if 'err' in out else 'ok'}",
                f"config_site:policy:{'none' if not case.get('policy') else 'given'}"] + (
            ["unobservable:support_tasks"] if out.get("support") is None else []) + (
            ["skipped:config-rejection-outside-property"] if case["task"] == "prediction" or (
                case["task"] in TASKS_3D and len([fid] if isinstance(fid, str) else list(fid)) != 1) else [])
    return [f"{k}:{case.get('spelling')}:{'err' if 'err' in out else 'ok'}"]


def search(rng, st, disagreements):
    """exhaustive evaluation of the real parsers over the live tables (runs when a theorem broke)"""
    return generate(rng, "thorough")
